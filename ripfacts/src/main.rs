// ripfacts — a faithful, dumb exporter of rustc's resolved view of one crate.
//
// Injected through RUSTC_WORKSPACE_WRAPPER under `cargo +nightly check`; for every
// workspace crate it writes ONE json file (one write per process) with
//   * every non-derived function / closure / coroutine body as normalised MIR
//     (mir_built, falling back to mir_promoted when the former was stolen),
//   * resolved callees (Instance::try_resolve), typed locals, evaluated constants,
//   * ADT tables (variants, fields, types, visibility), impl tables, fn signatures.
// No rule lives here: every verdict is computed by /verif/ripcheck (python) from
// these facts, so the trusted base of a verdict is "this exporter is faithful".
#![feature(rustc_private)]
extern crate rustc_abi;
extern crate rustc_driver;
extern crate rustc_hir;
extern crate rustc_interface;
extern crate rustc_middle;
extern crate rustc_span;

use rustc_driver::Compilation;
use rustc_hir::def::DefKind;
use rustc_hir::def_id::{DefId, LocalDefId, LOCAL_CRATE};
use rustc_middle::mir::{
    self, AggregateKind, Operand, Place, PlaceElem, Rvalue, StatementKind, TerminatorKind,
};
use rustc_middle::ty::print::{with_crate_prefix, with_no_trimmed_paths, with_no_visible_paths};
use rustc_middle::ty::{self, Ty, TyCtxt};
use std::fmt::Write as _;

fn esc(s: &str) -> String {
    let mut o = String::with_capacity(s.len() + 2);
    o.push('"');
    for c in s.chars() {
        match c {
            '"' => o.push_str("\\\""),
            '\\' => o.push_str("\\\\"),
            '\n' => o.push_str("\\n"),
            '\r' => o.push_str("\\r"),
            '\t' => o.push_str("\\t"),
            c if (c as u32) < 0x20 => {
                let _ = write!(o, "\\u{:04x}", c as u32);
            }
            c => o.push(c),
        }
    }
    o.push('"');
    o
}

fn crate_fix(tcx: TyCtxt<'_>, s: String) -> String {
    // `with_crate_prefix!` prints local items as `crate::a::B`; make that the crate name so a
    // single spelling exists workspace-wide.
    if !s.contains("crate::") {
        return s;
    }
    let name = tcx.crate_name(LOCAL_CRATE).to_string();
    let mut out = String::with_capacity(s.len() + 8);
    let bytes = s.as_bytes();
    let mut i = 0;
    while i < bytes.len() {
        if s[i..].starts_with("crate::")
            && (i == 0 || !(bytes[i - 1].is_ascii_alphanumeric() || bytes[i - 1] == b'_'))
        {
            out.push_str(&name);
            out.push_str("::");
            i += 7;
        } else {
            let ch = s[i..].chars().next().unwrap();
            out.push(ch);
            i += ch.len_utf8();
        }
    }
    out
}

/// Canonical, re-export independent path of an item.
fn cpath(tcx: TyCtxt<'_>, did: DefId) -> String {
    let p = with_crate_prefix!(with_no_visible_paths!(with_no_trimmed_paths!(
        tcx.def_path_str(did)
    )));
    crate_fix(tcx, p)
}
fn cpath_args<'tcx>(tcx: TyCtxt<'tcx>, did: DefId, args: ty::GenericArgsRef<'tcx>) -> String {
    let p = with_crate_prefix!(with_no_visible_paths!(with_no_trimmed_paths!(
        tcx.def_path_str_with_args(did, args)
    )));
    crate_fix(tcx, p)
}
fn tystr<'tcx>(tcx: TyCtxt<'tcx>, t: Ty<'tcx>) -> String {
    let p = with_crate_prefix!(with_no_visible_paths!(with_no_trimmed_paths!(t.to_string())));
    crate_fix(tcx, p)
}

struct Ex<'tcx> {
    tcx: TyCtxt<'tcx>,
}

impl<'tcx> Ex<'tcx> {
    fn place(&self, body: &mir::Body<'tcx>, p: &Place<'tcx>) -> String {
        let tcx = self.tcx;
        let mut s = format!("{{\"l\":{}", p.local.index());
        if !p.projection.is_empty() {
            s.push_str(",\"p\":[");
            let mut pty = mir::PlaceTy::from_ty(body.local_decls[p.local].ty);
            for (i, elem) in p.projection.iter().enumerate() {
                if i > 0 {
                    s.push(',');
                }
                match elem {
                    PlaceElem::Deref => s.push_str("\"*\""),
                    PlaceElem::Field(f, _) => {
                        let mut name = String::new();
                        let mut owner = String::new();
                        if let ty::Adt(def, _) = pty.ty.kind() {
                            let v = pty.variant_index.unwrap_or(rustc_abi::FIRST_VARIANT);
                            if def.variants().len() > v.index() {
                                if let Some(fd) = def.variant(v).fields.get(f) {
                                    name = fd.name.to_string();
                                    owner = cpath(tcx, def.did());
                                }
                            }
                        }
                        let _ = write!(
                            s,
                            "{{\"f\":{},\"n\":{},\"o\":{}}}",
                            f.index(),
                            esc(&name),
                            esc(&owner)
                        );
                    }
                    PlaceElem::Downcast(name, idx) => {
                        let _ = write!(
                            s,
                            "{{\"dc\":{},\"v\":{}}}",
                            esc(&name.map(|n| n.to_string()).unwrap_or_default()),
                            idx.index()
                        );
                    }
                    PlaceElem::Index(l) => {
                        let _ = write!(s, "{{\"ix\":{}}}", l.index());
                    }
                    PlaceElem::ConstantIndex { offset, from_end, .. } => {
                        let _ = write!(s, "{{\"cix\":{},\"fe\":{}}}", offset, from_end);
                    }
                    PlaceElem::Subslice { from, to, from_end } => {
                        let _ = write!(s, "{{\"sub\":[{},{}],\"fe\":{}}}", from, to, from_end);
                    }
                    _ => s.push_str("\"?\""),
                }
                pty = pty.projection_ty(tcx, elem);
            }
            s.push(']');
        }
        s.push('}');
        s
    }

    fn constant(&self, owner: DefId, c: &mir::ConstOperand<'tcx>) -> String {
        let tcx = self.tcx;
        let ty = c.const_.ty();
        let mut s = format!("{{\"ty\":{}", esc(&tystr(tcx, ty)));
        match ty.kind() {
            ty::FnDef(did, _) => {
                let _ = write!(s, ",\"fn\":{}", esc(&cpath(tcx, *did)));
            }
            ty::Closure(did, _) | ty::Coroutine(did, _) | ty::CoroutineClosure(did, _) => {
                let _ = write!(s, ",\"fn\":{}", esc(&cpath(tcx, *did)));
            }
            _ => {}
        }
        let env = ty::TypingEnv::post_analysis(tcx, owner);
        if let mir::Const::Unevaluated(uv, _) = c.const_ {
            let _ = write!(s, ",\"def\":{}", esc(&cpath(tcx, uv.def)));
            if uv.promoted.is_some() {
                s.push_str(",\"promoted\":true");
            }
        }
        // a reference / pointer to a `static` item: name it, and say whether writes can go through it
        // (`static mut`, or a type with interior mutability) — ambient state a function may read or write
        if let mir::Const::Val(mir::ConstValue::Scalar(rustc_middle::mir::interpret::Scalar::Ptr(ptr, _)), _) = c.const_ {
            let (prov, _) = ptr.prov_and_relative_offset();
            if let Some(rustc_middle::mir::interpret::GlobalAlloc::Static(sdid)) = tcx.try_get_global_alloc(prov.alloc_id()) {
                let sty = tcx.type_of(sdid).instantiate_identity().skip_norm_wip();
                let frozen = sty.is_freeze(tcx, env) && !tcx.is_mutable_static(sdid);
                let _ = write!(s, ",\"static\":{},\"static_ty\":{},\"static_frozen\":{}", esc(&cpath(tcx, sdid)), esc(&tystr(tcx, sty)), frozen);
            }
        }
        if ty.is_bool() || ty.is_integral() || ty.is_char() {
            if let Some(v) = c.const_.try_eval_scalar_int(tcx, env) {
                let sz = v.size();
                if ty.is_bool() {
                    let _ = write!(s, ",\"v\":{}", if v.to_bits(sz) != 0 { "true" } else { "false" });
                } else {
                    let _ = write!(s, ",\"v\":{}", esc(&v.to_bits(sz).to_string()));
                }
            }
        } else if let ty::Ref(_, inner, _) = ty.kind() {
            if let ty::Array(elem, _) = inner.kind() {
                // byte-string literal behind a reference (`&[u8; N]`): format_args! templates are lowered to
                // these; export the bytes (lossy) so that rules can see which literal text a message carries
                if *elem == tcx.types.u8 {
                    let val = match c.const_ {
                        mir::Const::Val(cv, _) => Some(cv),
                        mir::Const::Unevaluated(uv, _) if uv.promoted.is_some() => None,
                        _ => c.const_.eval(tcx, env, c.span).ok(),
                    };
                    if let Some(mir::ConstValue::Scalar(rustc_middle::mir::interpret::Scalar::Ptr(ptr, _))) = val {
                        let (prov, offset) = ptr.prov_and_relative_offset();
                        if let rustc_middle::mir::interpret::GlobalAlloc::Memory(alloc) = tcx.global_alloc(prov.alloc_id()) {
                            let a = alloc.inner();
                            let start = offset.bytes() as usize;
                            let end = a.len();
                            if start <= end {
                                let bytes = a.inspect_with_uninit_and_ptr_outside_interpreter(start..end);
                                let _ = write!(s, ",\"bstr\":{}", esc(&String::from_utf8_lossy(bytes)));
                            }
                        }
                    }
                }
            }
            if inner.is_str() {
                // evaluated string constant (literal or named const)
                let val = match c.const_ {
                    mir::Const::Val(cv, _) => Some(cv),
                    mir::Const::Unevaluated(uv, _) if uv.promoted.is_some() => None,
                    // named constants and pattern constants (valtrees)
                    _ => c.const_.eval(tcx, env, c.span).ok(),
                };
                if let Some(cv) = val {
                    if let Some(bytes) = cv.try_get_slice_bytes_for_diagnostics(tcx) {
                        let _ = write!(s, ",\"str\":{}", esc(&String::from_utf8_lossy(bytes)));
                    }
                }
            }
        }
        s.push('}');
        s
    }

    fn operand(&self, owner: DefId, body: &mir::Body<'tcx>, o: &Operand<'tcx>) -> String {
        match o {
            Operand::Copy(p) => format!("{{\"c\":{}}}", self.place(body, p)),
            Operand::Move(p) => format!("{{\"m\":{}}}", self.place(body, p)),
            Operand::Constant(c) => format!("{{\"k\":{}}}", self.constant(owner, c)),
            #[allow(unreachable_patterns)]
            _ => "{\"o\":\"?\"}".to_string(),
        }
    }

    fn rvalue(&self, owner: DefId, body: &mir::Body<'tcx>, rv: &Rvalue<'tcx>) -> String {
        let tcx = self.tcx;
        match rv {
            Rvalue::Use(o, ..) => {
                format!("{{\"k\":\"use\",\"a\":[{}]}}", self.operand(owner, body, o))
            }
            Rvalue::Ref(_, bk, p) => format!(
                "{{\"k\":\"ref\",\"mut\":{},\"pl\":{}}}",
                matches!(bk, mir::BorrowKind::Mut { .. }),
                self.place(body, p)
            ),
            Rvalue::RawPtr(_, p) => format!("{{\"k\":\"raw\",\"pl\":{}}}", self.place(body, p)),
            Rvalue::BinaryOp(op, ab) => format!(
                "{{\"k\":\"bin\",\"op\":{},\"a\":[{},{}]}}",
                esc(&format!("{:?}", op)),
                self.operand(owner, body, &ab.0),
                self.operand(owner, body, &ab.1)
            ),
            Rvalue::UnaryOp(op, a) => format!(
                "{{\"k\":\"un\",\"op\":{},\"a\":[{}]}}",
                esc(&format!("{:?}", op)),
                self.operand(owner, body, a)
            ),
            Rvalue::Cast(ck, o, t) => format!(
                "{{\"k\":\"cast\",\"ck\":{},\"ty\":{},\"a\":[{}]}}",
                esc(&format!("{:?}", ck).chars().take(40).collect::<String>()),
                esc(&tystr(tcx, *t)),
                self.operand(owner, body, o)
            ),
            Rvalue::Discriminant(p) => {
                format!("{{\"k\":\"discr\",\"pl\":{}}}", self.place(body, p))
            }
            Rvalue::CopyForDeref(p) => {
                format!("{{\"k\":\"use\",\"a\":[{{\"c\":{}}}]}}", self.place(body, p))
            }
            Rvalue::Repeat(o, _) => {
                format!("{{\"k\":\"repeat\",\"a\":[{}]}}", self.operand(owner, body, o))
            }
            Rvalue::Aggregate(kind, ops) => {
                let (kname, extra) = match &**kind {
                    AggregateKind::Adt(did, vidx, _, _, active) => {
                        let def = tcx.adt_def(*did);
                        let v = def.variant(*vidx);
                        let fields: Vec<String> = match active {
                            Some(fi) => vec![esc(&v.fields[*fi].name.to_string())],
                            None => v.fields.iter().map(|f| esc(&f.name.to_string())).collect(),
                        };
                        (
                            "adt",
                            format!(
                                ",\"adt\":{},\"variant\":{},\"vi\":{},\"fields\":[{}]",
                                esc(&cpath(tcx, *did)),
                                esc(&v.name.to_string()),
                                vidx.index(),
                                fields.join(",")
                            ),
                        )
                    }
                    AggregateKind::Closure(did, _) => {
                        ("closure", format!(",\"def\":{}", esc(&cpath(tcx, *did))))
                    }
                    AggregateKind::Coroutine(did, _) => {
                        ("coroutine", format!(",\"def\":{}", esc(&cpath(tcx, *did))))
                    }
                    AggregateKind::CoroutineClosure(did, _) => {
                        ("coroutine_closure", format!(",\"def\":{}", esc(&cpath(tcx, *did))))
                    }
                    AggregateKind::Tuple => ("tuple", String::new()),
                    AggregateKind::Array(_) => ("array", String::new()),
                    _ => ("other", String::new()),
                };
                let a: Vec<String> = ops.iter().map(|o| self.operand(owner, body, o)).collect();
                format!("{{\"k\":\"agg\",\"ak\":\"{}\"{},\"a\":[{}]}}", kname, extra, a.join(","))
            }
            Rvalue::ThreadLocalRef(did) => format!("{{\"k\":\"tls\",\"static\":{}}}", esc(&cpath(tcx, *did))),
            other => format!(
                "{{\"k\":\"other\",\"d\":{}}}",
                esc(&format!("{:?}", other).chars().take(80).collect::<String>())
            ),
        }
    }

    fn span(&self, sp: rustc_span::Span) -> (String, usize, usize) {
        let sm = self.tcx.sess.source_map();
        let sp = sp.source_callsite();
        let lo = sm.lookup_char_pos(sp.lo());
        let hi = sm.lookup_char_pos(sp.hi());
        (format!("{}", lo.file.name.prefer_local_unconditionally()), lo.line, hi.line)
    }

    fn body(&self, ldid: LocalDefId, out: &mut String) -> bool {
        let tcx = self.tcx;
        let def_id = ldid.to_def_id();
        let steal = tcx.mir_built(ldid);
        let mut stage = "built";
        let body = if !steal.is_stolen() {
            steal.borrow()
        } else {
            let p = tcx.mir_promoted(ldid).0;
            if p.is_stolen() {
                return false;
            }
            stage = "promoted";
            p.borrow()
        };
        let body: &mir::Body<'tcx> = &body;
        let (file, line, end_line) = self.span(body.span);
        let kind = format!("{:?}", tcx.def_kind(def_id));
        let parent = {
            let mut p = def_id;
            while matches!(
                tcx.def_kind(p),
                DefKind::Closure | DefKind::InlineConst | DefKind::AnonConst
            ) {
                p = tcx.parent(p);
            }
            cpath(tcx, p)
        };
        let vis = if matches!(tcx.def_kind(def_id), DefKind::Fn | DefKind::AssocFn) {
            format!("{:?}", tcx.visibility(def_id))
        } else {
            String::new()
        };
        let ck = tcx.coroutine_kind(def_id).map(|k| format!("{:?}", k)).unwrap_or_default();
        let _ = write!(
            out,
            "{{\"path\":{},\"kind\":{},\"parent\":{},\"file\":{},\"line\":{},\"end\":{},\"expn\":{},\"argc\":{},\"stage\":\"{}\",\"vis\":{},\"ck\":{},",
            esc(&cpath(tcx, def_id)),
            esc(&kind),
            esc(&parent),
            esc(&file),
            line,
            end_line,
            body.span.from_expansion(),
            body.arg_count,
            stage,
            esc(&vis),
            esc(&ck)
        );
        // locals
        out.push_str("\"locals\":[");
        for (i, (l, d)) in body.local_decls.iter_enumerated().enumerate() {
            if i > 0 {
                out.push(',');
            }
            let name = body.var_debug_info.iter().find_map(|v| match v.value {
                mir::VarDebugInfoContents::Place(p) if p.local == l && p.projection.is_empty() => {
                    Some(v.name.to_string())
                }
                _ => None,
            });
            let _ = write!(out, "{{\"ty\":{}", esc(&tystr(tcx, d.ty)));
            if let Some(n) = name {
                let _ = write!(out, ",\"n\":{}", esc(&n));
            }
            if d.is_user_variable() {
                out.push_str(",\"u\":true");
            }
            out.push('}');
        }
        // debug info with projections (captured upvars of closures / coroutines)
        out.push_str("],\"vdi\":[");
        let mut first = true;
        for v in body.var_debug_info.iter() {
            if let mir::VarDebugInfoContents::Place(p) = v.value {
                if !p.projection.is_empty() {
                    if !first {
                        out.push(',');
                    }
                    first = false;
                    let _ = write!(
                        out,
                        "{{\"n\":{},\"pl\":{}}}",
                        esc(&v.name.to_string()),
                        self.place(body, &p)
                    );
                }
            }
        }
        out.push_str("],\"blocks\":[");
        for (bi, (_bb, data)) in body.basic_blocks.iter_enumerated().enumerate() {
            if bi > 0 {
                out.push(',');
            }
            let _ = write!(out, "{{\"cl\":{},\"s\":[", data.is_cleanup);
            let mut first = true;
            for st in &data.statements {
                let js = match &st.kind {
                    StatementKind::Assign(b) => {
                        let (p, rv) = &**b;
                        Some(format!(
                            "{{\"d\":{},\"rv\":{},\"ln\":{}}}",
                            self.place(body, p),
                            self.rvalue(def_id, body, rv),
                            self.span(st.source_info.span).1
                        ))
                    }
                    StatementKind::StorageDead(l) => Some(format!("{{\"sd\":{}}}", l.index())),
                    StatementKind::StorageLive(l) => Some(format!("{{\"sl\":{}}}", l.index())),
                    StatementKind::SetDiscriminant { place, variant_index } => Some(format!(
                        "{{\"setd\":{},\"v\":{}}}",
                        self.place(body, place),
                        variant_index.index()
                    )),
                    _ => None,
                };
                if let Some(js) = js {
                    if !first {
                        out.push(',');
                    }
                    first = false;
                    out.push_str(&js);
                }
            }
            out.push_str("],\"t\":");
            let term = data.terminator();
            let ln = self.span(term.source_info.span).1;
            let t = match &term.kind {
                TerminatorKind::Goto { target } => {
                    format!("{{\"k\":\"goto\",\"to\":[{}]}}", target.index())
                }
                TerminatorKind::SwitchInt { discr, targets } => {
                    let ts: Vec<String> = targets
                        .iter()
                        .map(|(v, b)| format!("[{},{}]", esc(&v.to_string()), b.index()))
                        .collect();
                    format!(
                        "{{\"k\":\"switch\",\"on\":{},\"ts\":[{}],\"else\":{},\"ln\":{}}}",
                        self.operand(def_id, body, discr),
                        ts.join(","),
                        targets.otherwise().index(),
                        ln
                    )
                }
                TerminatorKind::Call { func, args, destination, target, .. } => {
                    let mut callee = String::from("{}");
                    match func {
                        Operand::Constant(c) => {
                            if let ty::FnDef(did, ga) = c.const_.ty().kind() {
                                let env = ty::TypingEnv::post_analysis(tcx, def_id);
                                let res =
                                    ty::Instance::try_resolve(tcx, env, *did, ga).ok().flatten();
                                let rpath = res.map(|i| cpath(tcx, i.def_id()));
                                let rkind = res
                                    .map(|i| match i.def {
                                        ty::InstanceKind::Item(_) => "item",
                                        ty::InstanceKind::Virtual(..) => "virtual",
                                        ty::InstanceKind::Intrinsic(_) => "intrinsic",
                                        ty::InstanceKind::ClosureOnceShim { .. } => "once_shim",
                                        ty::InstanceKind::FnPtrShim(..) => "fnptr_shim",
                                        ty::InstanceKind::DropGlue(..) => "drop_glue",
                                        ty::InstanceKind::CloneShim(..) => "clone_shim",
                                        _ => "shim",
                                    })
                                    .unwrap_or("");
                                let rkrate =
                                    res.map(|i| tcx.crate_name(i.def_id().krate).to_string());
                                let gas: Vec<String> = ga
                                    .iter()
                                    .map(|g| match g.kind() {
                                        ty::GenericArgKind::Type(t) => esc(&tystr(tcx, t)),
                                        _ => esc(&g.to_string()),
                                    })
                                    .collect();
                                callee = format!(
                                    "{{\"p\":{},\"r\":{},\"rk\":\"{}\",\"cr\":{},\"full\":{},\"ga\":[{}]}}",
                                    esc(&cpath(tcx, *did)),
                                    esc(&rpath.unwrap_or_default()),
                                    rkind,
                                    esc(&rkrate
                                        .unwrap_or_else(|| tcx.crate_name(did.krate).to_string())),
                                    esc(&cpath_args(tcx, *did, ga)),
                                    gas.join(",")
                                );
                            }
                        }
                        other => {
                            callee = format!("{{\"ind\":{}}}", self.operand(def_id, body, other));
                        }
                    }
                    let a: Vec<String> =
                        args.iter().map(|s| self.operand(def_id, body, &s.node)).collect();
                    format!(
                        "{{\"k\":\"call\",\"f\":{},\"a\":[{}],\"d\":{},\"to\":[{}],\"ln\":{},\"x\":{}}}",
                        callee,
                        a.join(","),
                        self.place(body, destination),
                        target.map(|t| t.index().to_string()).unwrap_or_default(),
                        ln,
                        term.source_info.span.from_expansion()
                    )
                }
                TerminatorKind::Drop { place, target, .. } => format!(
                    "{{\"k\":\"drop\",\"pl\":{},\"to\":[{}],\"ln\":{}}}",
                    self.place(body, place),
                    target.index(),
                    ln
                ),
                TerminatorKind::Return => format!("{{\"k\":\"ret\",\"to\":[],\"ln\":{}}}", ln),
                TerminatorKind::Unreachable => "{\"k\":\"unreachable\",\"to\":[]}".to_string(),
                TerminatorKind::Assert { cond, expected, target, msg, .. } => format!(
                    "{{\"k\":\"assert\",\"c\":{},\"e\":{},\"to\":[{}],\"msg\":{},\"ln\":{}}}",
                    self.operand(def_id, body, cond),
                    expected,
                    target.index(),
                    esc(&format!("{:?}", msg).chars().take(60).collect::<String>()),
                    ln
                ),
                TerminatorKind::Yield { resume, drop, .. } => format!(
                    "{{\"k\":\"yield\",\"to\":[{}],\"dropto\":{},\"ln\":{}}}",
                    resume.index(),
                    drop.map(|d| d.index() as i64).unwrap_or(-1),
                    ln
                ),
                TerminatorKind::FalseEdge { real_target, .. } => {
                    format!("{{\"k\":\"goto\",\"to\":[{}]}}", real_target.index())
                }
                TerminatorKind::FalseUnwind { real_target, .. } => {
                    format!("{{\"k\":\"goto\",\"to\":[{}]}}", real_target.index())
                }
                TerminatorKind::UnwindResume | TerminatorKind::UnwindTerminate(_) => {
                    "{\"k\":\"unwind\",\"to\":[]}".to_string()
                }
                TerminatorKind::CoroutineDrop => "{\"k\":\"cdrop\",\"to\":[]}".to_string(),
                other => format!(
                    "{{\"k\":\"other\",\"to\":[],\"d\":{}}}",
                    esc(&format!("{:?}", other).chars().take(60).collect::<String>())
                ),
            };
            out.push_str(&t);
            out.push('}');
        }
        out.push_str("]}");
        true
    }

    fn adts(&self, out: &mut String) -> usize {
        let tcx = self.tcx;
        let mut n = 0;
        for id in tcx.hir_free_items() {
            let did = id.owner_id.to_def_id();
            if !matches!(tcx.def_kind(did), DefKind::Struct | DefKind::Enum | DefKind::Union) {
                continue;
            }
            let def = tcx.adt_def(did);
            if n > 0 {
                out.push(',');
            }
            n += 1;
            let (file, line, _) = self.span(tcx.def_span(did));
            let _ = write!(
                out,
                "{{\"path\":{},\"kind\":{},\"vis\":{},\"file\":{},\"line\":{},\"variants\":[",
                esc(&cpath(tcx, did)),
                esc(&format!("{:?}", tcx.def_kind(did))),
                esc(&format!("{:?}", tcx.visibility(did))),
                esc(&file),
                line
            );
            for (vi, v) in def.variants().iter().enumerate() {
                if vi > 0 {
                    out.push(',');
                }
                let _ = write!(out, "{{\"name\":{},\"fields\":[", esc(&v.name.to_string()));
                for (fi, f) in v.fields.iter().enumerate() {
                    if fi > 0 {
                        out.push(',');
                    }
                    let fty = tcx.type_of(f.did).instantiate_identity().skip_norm_wip();
                    let _ = write!(
                        out,
                        "{{\"name\":{},\"ty\":{},\"vis\":{}}}",
                        esc(&f.name.to_string()),
                        esc(&tystr(tcx, fty)),
                        esc(&format!("{:?}", tcx.visibility(f.did)))
                    );
                }
                out.push_str("]}");
            }
            out.push_str("]}");
        }
        n
    }

    fn impls(&self, out: &mut String) -> usize {
        let tcx = self.tcx;
        let mut n = 0;
        for id in tcx.hir_free_items() {
            let did = id.owner_id.to_def_id();
            if !matches!(tcx.def_kind(did), DefKind::Impl { .. }) {
                continue;
            }
            if n > 0 {
                out.push(',');
            }
            n += 1;
            let self_ty = tcx.type_of(did).instantiate_identity().skip_norm_wip();
            let tr = tcx.impl_opt_trait_ref(did).map(|t| {
                let t = t.instantiate_identity().skip_norm_wip();
                (cpath(tcx, t.def_id), cpath_args(tcx, t.def_id, t.args))
            });
            let (file, line, _) = self.span(tcx.def_span(did));
            let _ = write!(
                out,
                "{{\"self\":{},\"trait\":{},\"trait_full\":{},\"derived\":{},\"file\":{},\"line\":{},\"items\":[",
                esc(&tystr(tcx, self_ty)),
                esc(&tr.as_ref().map(|t| t.0.clone()).unwrap_or_default()),
                esc(&tr.as_ref().map(|t| t.1.clone()).unwrap_or_default()),
                tcx.is_automatically_derived(did),
                esc(&file),
                line
            );
            let mut first = true;
            for item in tcx.associated_items(did).in_definition_order() {
                if !matches!(item.kind, ty::AssocKind::Fn { .. }) {
                    continue;
                }
                if !first {
                    out.push(',');
                }
                first = false;
                let _ = write!(
                    out,
                    "{{\"path\":{},\"trait_item\":{}}}",
                    esc(&cpath(tcx, item.def_id)),
                    esc(&item.trait_item_def_id().map(|d| cpath(tcx, d)).unwrap_or_default())
                );
            }
            out.push_str("]}");
        }
        n
    }

    fn sigs(&self, out: &mut String) -> usize {
        let tcx = self.tcx;
        let mut n = 0;
        for ldid in tcx.hir_body_owners() {
            let did = ldid.to_def_id();
            if !matches!(tcx.def_kind(did), DefKind::Fn | DefKind::AssocFn) {
                continue;
            }
            let sig = tcx.fn_sig(did).instantiate_identity().skip_norm_wip().skip_binder();
            if n > 0 {
                out.push(',');
            }
            n += 1;
            let ins: Vec<String> = sig.inputs().iter().map(|t| esc(&tystr(tcx, *t))).collect();
            let _ = write!(
                out,
                "{{\"path\":{},\"vis\":{},\"inputs\":[{}],\"output\":{}}}",
                esc(&cpath(tcx, did)),
                esc(&format!("{:?}", tcx.visibility(did))),
                ins.join(","),
                esc(&tystr(tcx, sig.output()))
            );
        }
        n
    }
}

struct Cb;
impl rustc_driver::Callbacks for Cb {
    fn after_expansion<'tcx>(
        &mut self,
        _c: &rustc_interface::interface::Compiler,
        tcx: TyCtxt<'tcx>,
    ) -> Compilation {
        let krate = tcx.crate_name(LOCAL_CRATE).to_string();
        let outdir = match std::env::var("RIPFACTS_OUT") {
            Ok(d) => d,
            Err(_) => return Compilation::Continue,
        };
        if krate == "build_script_build" {
            return Compilation::Continue;
        }
        let nonce = std::env::var("RIPFACTS_NONCE").unwrap_or_default();
        let ex = Ex { tcx };
        let mut out = String::new();
        let crate_types: Vec<String> =
            tcx.crate_types().iter().map(|t| format!("{:?}", t)).collect();
        let _ = write!(
            out,
            "{{\"crate\":{},\"crate_types\":{},\"nonce\":{},\"fns\":[",
            esc(&krate),
            esc(&crate_types.join(",")),
            esc(&nonce)
        );
        let mut n = 0;
        let mut skipped = 0;
        let mut unavailable: Vec<String> = vec![];
        for ldid in tcx.hir_body_owners() {
            let def_id = ldid.to_def_id();
            if !matches!(tcx.def_kind(def_id), DefKind::Fn | DefKind::AssocFn | DefKind::Closure) {
                continue;
            }
            // skip derive-generated impls and other macro-generated items
            let mut p = def_id;
            while matches!(tcx.def_kind(p), DefKind::Closure) {
                p = tcx.parent(p);
            }
            if matches!(tcx.def_kind(p), DefKind::AssocFn) {
                let imp = tcx.parent(p);
                if matches!(tcx.def_kind(imp), DefKind::Impl { .. })
                    && tcx.is_automatically_derived(imp)
                {
                    skipped += 1;
                    continue;
                }
            }
            if tcx.def_span(p).from_expansion() {
                skipped += 1;
                continue;
            }
            let mut one = String::new();
            if ex.body(ldid, &mut one) {
                if n > 0 {
                    out.push(',');
                }
                out.push_str(&one);
                n += 1;
            } else {
                unavailable.push(cpath(tcx, def_id));
            }
        }
        out.push_str("],\"adts\":[");
        let na = ex.adts(&mut out);
        out.push_str("],\"impls\":[");
        let ni = ex.impls(&mut out);
        out.push_str("],\"sigs\":[");
        let ns = ex.sigs(&mut out);
        let un: Vec<String> = unavailable.iter().map(|s| esc(s)).collect();
        let _ = write!(
            out,
            "],\"n\":{},\"skipped\":{},\"unavailable\":[{}]}}",
            n,
            skipped,
            un.join(",")
        );
        let path = format!(
            "{}/{}-{:x}.json",
            outdir,
            krate,
            tcx.stable_crate_id(LOCAL_CRATE).as_u64()
        );
        let tmp = format!("{}.tmp{}", path, std::process::id());
        std::fs::write(&tmp, out).expect("write facts");
        std::fs::rename(&tmp, &path).expect("rename facts");
        eprintln!(
            "RIPFACTS crate={krate} fns={n} skipped={skipped} unavailable={} adts={na} impls={ni} sigs={ns}",
            unavailable.len()
        );
        Compilation::Continue
    }
}

fn main() {
    let mut args: Vec<String> = std::env::args().collect();
    if args.len() > 1 && args[1].ends_with("rustc") {
        args.remove(1);
    }
    rustc_driver::run_compiler(&args, &mut Cb);
}
