#!/bin/sh
# Build the framework from files on disk only (offline): the rustc_private exporter, the syn
# helper, and one export of /repo's current tree to warm the dependency cache.
set -e
cd "$(dirname "$0")"
export CARGO_NET_OFFLINE=true
mkdir -p .cache evidence
(cd ripfacts && cargo build --release --offline)
[ -f /repo/Cargo.lock ] && cp /repo/Cargo.lock serdetab/Cargo.lock || true
(cd serdetab && cargo build --release --offline)
python3 - <<'PY'
import sys
sys.path.insert(0, '.')
sys.dont_write_bytecode = True
from ripcheck import driver
d, info = driver.facts_for_current_tree()
print('facts ready:', d, info)
PY
