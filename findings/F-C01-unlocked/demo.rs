// Demonstration for F-C01-unlocked (K-C01-unlocked promoted to a fix).
// Placed as `#[cfg(test)] mod demo_f_c01_unlocked` at the end of crates/ripd/src/continuities.rs
// (it needs the private `index` field to park the creator deterministically).
//
// Schedule: the creator (branch) has written and BROADCAST the creation frame of the child thread
// and is parked on the index mutex (held by the test) before it seeds next_seq / writes the lineage
// frame. A client that saw the creation frame on the stream posts a message to the child.
// Before the repair: the message takes seq 1 (recovered from the sidecar), then the creator writes
// the lineage frame with the constant seq 1 as well -> duplicate seq in events.jsonl, and
// replay_validated() fails for the whole store.
// After the repair the creator holds the seq lock across creation + lineage + seeding: the message
// waits and takes seq 2.
#[cfg(test)]
mod demo_f_c01_unlocked {
    use super::*;
    use std::sync::Arc;
    use tempfile::tempdir;

    #[test]
    fn demo_f_c01_unlocked_branch_vs_message() {
        let dir = tempdir().expect("tmp");
        let data_dir = dir.path().join("data");
        let workspace_root = dir.path().join("workspace");
        fs::create_dir_all(&workspace_root).expect("workspace");
        let event_log = Arc::new(EventLog::new(data_dir.join("events.jsonl")).expect("log"));
        let store = Arc::new(
            ContinuityStore::new(data_dir.clone(), workspace_root, event_log.clone()).expect("store"),
        );
        let parent = store.ensure_default().expect("default");
        store
            .append_message(&parent, "user".into(), "test".into(), "hello".into())
            .expect("message");

        let mut rx = store.subscribe();
        // Park the creator between "creation frame broadcast" and the rest.
        let index_guard = store.index.lock().expect("index");
        let creator = {
            let store = store.clone();
            let parent = parent.clone();
            std::thread::spawn(move || {
                store.branch(&parent, None, None, None, "user".into(), "test".into())
            })
        };
        // Wait for the creation frame of the child on the live stream.
        let child_id = loop {
            match rx.blocking_recv() {
                Ok(event) => {
                    if let EventKind::ContinuityCreated { .. } = event.kind {
                        if event.session_id != parent {
                            break event.session_id;
                        }
                    }
                }
                Err(err) => panic!("stream closed: {err}"),
            }
        };
        // A client reacts to the new thread at once.
        let poster = {
            let store = store.clone();
            let child_id = child_id.clone();
            std::thread::spawn(move || {
                store.append_message(&child_id, "user".into(), "test".into(), "first!".into())
            })
        };
        // Give the poster time to run (before the repair it completes; after it, it waits on the seq lock).
        std::thread::sleep(std::time::Duration::from_millis(300));
        drop(index_guard);
        let (branched_id, _, _) = creator.join().expect("join").expect("branch");
        assert_eq!(branched_id, child_id);
        poster.join().expect("join").expect("post");
        store
            .append_message(&child_id, "user".into(), "test".into(), "second".into())
            .expect("second");

        let seqs: Vec<u64> = event_log
            .replay()
            .expect("replay")
            .into_iter()
            .filter(|event| event.session_id == child_id)
            .map(|event| event.seq)
            .collect();
        assert_eq!(seqs, vec![0, 1, 2, 3], "child stream must be numbered 0,1,2,3 in file order");
        event_log.replay_validated().expect("validated replay of the store");
    }
}
