// Demo for F-C06-join. Two modules, each appended verbatim at the end of a file in crate ripd:
//   PART 1 (`mod demo_f_c06_join`)        -> end of /tmp/wt_demo2/crates/ripd/src/session.rs
//   PART 2 (`mod demo_f_c06_join_tasks`)  -> end of /tmp/wt_demo2/crates/ripd/src/tasks/mod.rs
// Run: cargo test --offline -p ripd --lib demo_f_c06 -- --test-threads=1 --nocapture

// ===== PART 1: crates/ripd/src/session.rs =====
#[cfg(test)]
mod demo_f_c06_join {
    use super::*;
    use std::time::Duration;
    use tempfile::tempdir;

    fn frame(seq: u64) -> Event {
        Event {
            id: format!("e{seq}"),
            session_id: "s1".to_string(),
            timestamp_ms: 0,
            seq,
            kind: EventKind::OutputTextDelta {
                delta: format!("chunk {seq}"),
            },
        }
    }

    /// A stream handler (server.rs `stream_events`) does: subscribe, THEN snapshot the
    /// buffer, then drops live frames with seq <= last snapshot seq. Every emitted frame
    /// must therefore be in the snapshot or arrive live. The test parks the real
    /// `emit_event` at its `buffer.lock().await` and attaches a handler-shaped
    /// subscriber at that instant.
    #[tokio::test]
    async fn demo_f_c06_join_subscriber_attaching_mid_emit_sees_every_frame() {
        let dir = tempdir().expect("tmp");
        let event_log = Arc::new(EventLog::new(dir.path().join("events.jsonl")).expect("log"));
        let (sender, _keepalive_rx) = broadcast::channel::<Event>(64);
        let buffer: Arc<Mutex<Vec<Event>>> = Arc::new(Mutex::new(Vec::new()));

        // An already-attached client, to show the frame really is published.
        let mut early_rx = sender.subscribe();

        // Frames 0 and 1 go out normally through the real emit path.
        emit_event(frame(0), &sender, &buffer, &event_log).await;
        emit_event(frame(1), &sender, &buffer, &event_log).await;

        // Hold the history lock so the real emit_event parks at `buffer.lock().await`.
        let guard = buffer.lock().await;
        let emit_task = {
            let sender = sender.clone();
            let buffer = buffer.clone();
            let event_log = event_log.clone();
            tokio::spawn(async move {
                emit_event(frame(2), &sender, &buffer, &event_log).await;
            })
        };
        // Let emit_event run up to the lock.
        tokio::time::sleep(Duration::from_millis(200)).await;
        assert!(!emit_task.is_finished(), "emit_event must be parked on the lock");

        // What stream_events does: subscribe first ...
        let mut rx = sender.subscribe();
        // ... then snapshot the buffer (state seen by a handler that wins the lock race
        // against the parked emit_event: we already hold that lock).
        let past: Vec<Event> = guard.clone();
        drop(guard);

        // Let emit_event finish.
        emit_task.await.expect("emit task");

        // Handler's view: snapshot + live frames with seq > last snapshot seq.
        let last_seq = past.last().map(|event| event.seq);
        let mut seen: Vec<u64> = past.iter().map(|event| event.seq).collect();
        while let Ok(event) = rx.try_recv() {
            if last_seq.map(|last| event.seq <= last).unwrap_or(false) {
                continue;
            }
            seen.push(event.seq);
        }

        let mut early: Vec<u64> = Vec::new();
        while let Ok(event) = early_rx.try_recv() {
            early.push(event.seq);
        }
        let recorded: Vec<u64> = buffer.lock().await.iter().map(|e| e.seq).collect();
        eprintln!("DEMO F-C06-join session: early subscriber got   {early:?}");
        eprintln!("DEMO F-C06-join session: history buffer holds   {recorded:?}");
        eprintln!("DEMO F-C06-join session: joining subscriber got {seen:?}");

        assert_eq!(early, vec![0, 1, 2], "frame 2 was published");
        assert_eq!(recorded, vec![0, 1, 2], "frame 2 was recorded");
        assert_eq!(
            seen,
            vec![0, 1, 2],
            "subscriber that did subscribe-then-snapshot lost a frame (sent before its subscribe, pushed after its snapshot)"
        );
    }
}

// ===== PART 2: crates/ripd/src/tasks/mod.rs =====
#[cfg(test)]
mod demo_f_c06_join_tasks {
    use super::*;
    use std::time::Duration;
    use tempfile::tempdir;

    fn status_kind(task_id: &str, n: u64) -> EventKind {
        EventKind::ToolTaskStatus {
            task_id: task_id.to_string(),
            status: ToolTaskStatus::Running,
            exit_code: None,
            started_at_ms: Some(n),
            ended_at_ms: None,
            artifacts: None,
            error: None,
        }
    }

    /// Same scenario for the real `TaskEmitter::emit` against a handler shaped like
    /// server.rs `stream_task_events` (subscribe, then snapshot, then seq filter).
    #[tokio::test]
    async fn demo_f_c06_join_task_subscriber_attaching_mid_emit_sees_every_frame() {
        let dir = tempdir().expect("tmp");
        let event_log = Arc::new(EventLog::new(dir.path().join("events.jsonl")).expect("log"));
        let (sender, _keepalive_rx) = broadcast::channel::<Event>(64);
        let events: Arc<Mutex<Vec<Event>>> = Arc::new(Mutex::new(Vec::new()));
        let emitter = TaskEmitter {
            task_id: "t1".to_string(),
            sender: sender.clone(),
            events: events.clone(),
            seq: Arc::new(Mutex::new(0)),
            event_log,
        };

        let mut early_rx = sender.subscribe();

        emitter.emit(status_kind("t1", 0)).await;
        emitter.emit(status_kind("t1", 1)).await;

        let guard = events.lock().await;
        let emit_task = {
            let emitter = emitter.clone();
            tokio::spawn(async move {
                emitter.emit(status_kind("t1", 2)).await;
            })
        };
        tokio::time::sleep(Duration::from_millis(200)).await;
        assert!(!emit_task.is_finished(), "emit must be parked on the lock");

        let mut rx = sender.subscribe();
        let past: Vec<Event> = guard.clone();
        drop(guard);

        emit_task.await.expect("emit task");

        let last_seq = past.last().map(|event| event.seq);
        let mut seen: Vec<u64> = past.iter().map(|event| event.seq).collect();
        while let Ok(event) = rx.try_recv() {
            if last_seq.map(|last| event.seq <= last).unwrap_or(false) {
                continue;
            }
            seen.push(event.seq);
        }

        let mut early: Vec<u64> = Vec::new();
        while let Ok(event) = early_rx.try_recv() {
            early.push(event.seq);
        }
        let recorded: Vec<u64> = events.lock().await.iter().map(|e| e.seq).collect();
        eprintln!("DEMO F-C06-join task: early subscriber got   {early:?}");
        eprintln!("DEMO F-C06-join task: history buffer holds   {recorded:?}");
        eprintln!("DEMO F-C06-join task: joining subscriber got {seen:?}");

        assert_eq!(early, vec![0, 1, 2], "frame 2 was published");
        assert_eq!(recorded, vec![0, 1, 2], "frame 2 was recorded");
        assert_eq!(
            seen,
            vec![0, 1, 2],
            "task subscriber that did subscribe-then-snapshot lost a frame"
        );
    }
}
