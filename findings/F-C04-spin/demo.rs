// Demonstration for finding F-C04-spin (crate `ripd`).
//
// Placement: this file lives at crates/ripd/src/continuities_demo_f_c04_spin.rs and is
// included as a child test module of `continuities` by appending these three lines to the
// very end of crates/ripd/src/continuities.rs:
//
//     #[cfg(test)]
//     #[path = "continuities_demo_f_c04_spin.rs"]
//     mod demo_f_c04_spin;
//
// Run with:  cargo test --offline -p ripd --lib demo_f_c04_spin -- --nocapture
//
// Defect: the sidecar tail-scan loops in `compaction_status_v1`, `provider_cursor_status_v1`,
// `provider_cursor_rotate_v1` and `context_selection_status_v1` double `tail_bytes` with
// `.min(MAX_TAIL_BYTES)` under a `while tail_bytes <= MAX_TAIL_BYTES` guard.  Once
// `tail_bytes == MAX_TAIL_BYTES` the guard stays true forever, so if the scan is never
// `complete` (more than MAX_TAIL_EVENTS frames, or more than MAX_TAIL_BYTES bytes in the
// sidecar) and the searched frame is not in the window, the request thread spins forever.
//
// Each demo builds a real ContinuityStore through the public append API, runs the status
// call on a helper thread and asserts that it returns within CALL_DEADLINE.

use super::*;
use std::sync::mpsc;
use std::time::{Duration, Instant};
use tempfile::tempdir;

const CALL_DEADLINE: Duration = Duration::from_secs(20);

fn demo_store_for(dir: &tempfile::TempDir) -> Arc<ContinuityStore> {
    let data_dir = dir.path().join("data");
    let workspace_root = dir.path().join("workspace");
    fs::create_dir_all(&workspace_root).expect("workspace");
    let event_log = Arc::new(EventLog::new(data_dir.join("events.jsonl")).expect("log"));
    Arc::new(ContinuityStore::new(data_dir, workspace_root, event_log).expect("store"))
}

/// A thread holding `count` small message frames (plus the continuity_created frame).
fn thread_with_small_messages(store: &ContinuityStore, count: usize) -> String {
    let thread_id = store.ensure_default().expect("ensure");
    let started = Instant::now();
    for i in 0..count {
        store
            .append_message(
                &thread_id,
                "alice".to_string(),
                "cli".to_string(),
                format!("m{i}"),
            )
            .expect("append message");
    }
    eprintln!(
        "[demo] appended {count} messages in {:?}",
        started.elapsed()
    );
    thread_id
}

/// Runs `call` on a helper thread; returns its result or None when CALL_DEADLINE passes first.
fn run_with_deadline<T, F>(label: &str, call: F) -> Option<T>
where
    T: Send + 'static,
    F: FnOnce() -> T + Send + 'static,
{
    let (tx, rx) = mpsc::channel();
    let started = Instant::now();
    std::thread::spawn(move || {
        let _ = tx.send(call());
    });
    match rx.recv_timeout(CALL_DEADLINE) {
        Ok(value) => {
            eprintln!("[demo] {label} returned after {:?}", started.elapsed());
            Some(value)
        }
        Err(_) => {
            eprintln!(
                "[demo] {label} did NOT return within {:?} (still spinning)",
                CALL_DEADLINE
            );
            None
        }
    }
}

/// 10_050 message frames, no schedule-decision / job-ended frame anywhere:
/// MAX_TAIL_EVENTS (10_000) truncates every window, so the scan is never `complete`.
#[test]
fn demo_f_c04_spin_compaction_status_v1_returns() {
    let dir = tempdir().expect("tmp");
    let store = demo_store_for(&dir);
    let thread_id = thread_with_small_messages(&store, 10_050);

    let worker_store = store.clone();
    let worker_thread = thread_id.clone();
    let out = run_with_deadline("compaction_status_v1", move || {
        worker_store.compaction_status_v1(
            &worker_thread,
            CompactionStatusV1Request {
                stride_messages: None,
            },
        )
    });

    let response = out
        .expect("compaction_status_v1 must terminate on a thread with >10_000 frames")
        .expect("status ok");
    assert_eq!(response.thread_id, thread_id);
    assert!(response.last_schedule_decision.is_none());
    assert!(response.last_job_outcome.is_none());
}

/// Same shape of thread; one cursor frame sits at the very start of the stream, i.e.
/// outside the last 10_000 frames.  The status call must terminate and still report it.
#[test]
fn demo_f_c04_spin_provider_cursor_status_v1_returns() {
    let dir = tempdir().expect("tmp");
    let store = demo_store_for(&dir);
    let thread_id = store.ensure_default().expect("ensure");
    store
        .append_provider_cursor_updated(
            &thread_id,
            ProviderCursorUpdatedPayload {
                provider: "openresponses".to_string(),
                endpoint: Some("http://example.test/v1/responses".to_string()),
                model: Some("fixture-model".to_string()),
                cursor: Some(serde_json::json!({ "previous_response_id": "resp_1" })),
                action: "set".to_string(),
                reason: Some("demo".to_string()),
                run_session_id: Some("session-1".to_string()),
                actor_id: "user".to_string(),
                origin: "test".to_string(),
            },
        )
        .expect("append cursor");
    let same = thread_with_small_messages(&store, 10_050);
    assert_eq!(same, thread_id);

    let worker_store = store.clone();
    let worker_thread = thread_id.clone();
    let out = run_with_deadline("provider_cursor_status_v1", move || {
        worker_store.provider_cursor_status_v1(&worker_thread, ProviderCursorStatusV1Request {})
    });

    let response = out
        .expect("provider_cursor_status_v1 must terminate on a thread with >10_000 frames")
        .expect("status ok");
    let active = response.active.expect("old cursor frame must still be found");
    assert_eq!(active.action, "set");
}

/// No cursor frame at all: rotate has nothing to rotate but must still return.
#[test]
fn demo_f_c04_spin_provider_cursor_rotate_v1_returns() {
    let dir = tempdir().expect("tmp");
    let store = demo_store_for(&dir);
    let thread_id = thread_with_small_messages(&store, 10_050);

    let worker_store = store.clone();
    let worker_thread = thread_id.clone();
    let out = run_with_deadline("provider_cursor_rotate_v1", move || {
        worker_store.provider_cursor_rotate_v1(
            &worker_thread,
            ProviderCursorRotateV1Request {
                provider: None,
                endpoint: None,
                model: None,
                reason: Some("demo".to_string()),
                actor_id: "user".to_string(),
                origin: "test".to_string(),
            },
        )
    });

    let response = out
        .expect("provider_cursor_rotate_v1 must terminate on a thread with >10_000 frames")
        .expect("rotate ok");
    assert!(!response.rotated);
}

/// context_selection_status_v1 uses MAX_TAIL_EVENTS = 100_000, so here the byte cap is what
/// keeps the scan incomplete: ~10 MiB of big messages (> MAX_TAIL_BYTES = 8 MiB) and no
/// context-selection frame at all.
#[test]
fn demo_f_c04_spin_context_selection_status_v1_returns() {
    let dir = tempdir().expect("tmp");
    let store = demo_store_for(&dir);
    let thread_id = store.ensure_default().expect("ensure");
    let padding = "x".repeat(256 * 1024);
    for _ in 0..40 {
        store
            .append_message(
                &thread_id,
                "alice".to_string(),
                "cli".to_string(),
                padding.clone(),
            )
            .expect("append message");
    }

    let worker_store = store.clone();
    let worker_thread = thread_id.clone();
    let out = run_with_deadline("context_selection_status_v1", move || {
        worker_store.context_selection_status_v1(
            &worker_thread,
            ContextSelectionStatusV1Request { limit: Some(10) },
        )
    });

    let response = out
        .expect("context_selection_status_v1 must terminate on a sidecar larger than 8 MiB")
        .expect("status ok");
    assert!(response.decisions.is_empty());
}
