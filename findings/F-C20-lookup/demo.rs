// Demonstration for finding F-C20-lookup (crate `rip-tui`).
//
// Placement: this file lives at crates/rip-tui/src/frame_store_demo_f_c20_lookup.rs and is
// included as a child test module of `frame_store` by appending these three lines to the
// very end of crates/rip-tui/src/frame_store.rs:
//
//     #[cfg(test)]
//     #[path = "frame_store_demo_f_c20_lookup.rs"]
//     mod demo_f_c20_lookup;
//
// Run with:  cargo test --offline -p rip-tui demo_f_c20_lookup -- --nocapture
//
// Defect: `FrameStore::index_of_seq` returns `seq - base_seq` as a position without checking
// that the frame stored at that position really carries `seq`.  As soon as the pushed seqs
// have a gap, `get_by_seq` hands back a frame with a different seq.

use super::*;
use rip_kernel::{Event, EventKind};

fn event(seq: u64) -> Event {
    Event {
        id: format!("e{seq}"),
        session_id: "s1".to_string(),
        timestamp_ms: 0,
        seq,
        kind: EventKind::SessionStarted {
            input: "hi".to_string(),
        },
    }
}

/// Whatever `get_by_seq(s)` / `index_of_seq(s)` report must carry seq `s`.
fn assert_lookups_are_truthful(store: &FrameStore, range: std::ops::RangeInclusive<u64>) {
    for seq in range {
        if let Some(found) = store.get_by_seq(seq) {
            assert_eq!(
                found.seq, seq,
                "get_by_seq({seq}) returned the frame with seq {} (id {})",
                found.seq, found.id
            );
        }
        if let Some(idx) = store.index_of_seq(seq) {
            let at = store.iter().nth(idx).expect("index in range");
            assert_eq!(
                at.seq, seq,
                "index_of_seq({seq}) = {idx}, but that slot holds seq {}",
                at.seq
            );
        }
    }
}

#[test]
fn demo_f_c20_lookup_gap_returns_none_for_missing_seq() {
    let mut store = FrameStore::new(16);
    store.push(event(10));
    store.push(event(12));

    assert_eq!(store.get_by_seq(10).map(|e| e.seq), Some(10));
    let got = store.get_by_seq(11);
    eprintln!(
        "[demo] frames = [10, 12]; get_by_seq(11) -> {:?}",
        got.map(|e| e.seq)
    );
    assert!(
        got.is_none(),
        "seq 11 was never pushed, but get_by_seq(11) returned the frame with seq {}",
        got.map(|e| e.seq).unwrap_or_default()
    );
    assert!(store.index_of_seq(11).is_none());
    assert_lookups_are_truthful(&store, 0..=20);
}

#[test]
fn demo_f_c20_lookup_gap_after_eviction_returns_none_for_missing_seq() {
    // Capacity 2: pushing 10, 12, 15 evicts seq 10; frames = [12, 15], base_seq = 11.
    let mut store = FrameStore::new(2);
    store.push(event(10));
    store.push(event(12));
    store.push(event(15));
    assert_eq!(store.len(), 2);
    assert_eq!(store.first_seq(), Some(12));
    assert_eq!(store.last_seq(), Some(15));

    let got_11 = store.get_by_seq(11);
    let got_12 = store.get_by_seq(12);
    eprintln!(
        "[demo] frames = [12, 15]; get_by_seq(11) -> {:?}, get_by_seq(12) -> {:?}",
        got_11.map(|e| e.seq),
        got_12.map(|e| e.seq)
    );
    assert!(
        got_11.is_none(),
        "seq 11 was never pushed, but get_by_seq(11) returned the frame with seq {}",
        got_11.map(|e| e.seq).unwrap_or_default()
    );
    assert!(
        got_12.map(|e| e.seq) != Some(15),
        "get_by_seq(12) returned the frame with seq 15"
    );
    assert!(store.get_by_seq(13).is_none());
    assert!(store.get_by_seq(14).is_none());
    assert_lookups_are_truthful(&store, 0..=20);
}
