// Demo for F-C05-torn.
// Placed: appended verbatim at the end of /tmp/wt_demo2/crates/rip-log/src/lib.rs
// (crate rip-log), as a new #[cfg(test)] module `demo_f_c05_torn`.
// Run single-threaded: cargo test --offline -p rip-log demo_f_c05 -- --test-threads=1 --nocapture
#[cfg(test)]
mod demo_f_c05_torn {
    use super::*;
    use rip_kernel::EventKind;
    use tempfile::tempdir;

    fn small_event(seq: u64) -> Event {
        Event {
            id: format!("e{seq}"),
            session_id: "s1".to_string(),
            timestamp_ms: 0,
            seq,
            kind: EventKind::SessionStarted {
                input: "hi".to_string(),
            },
        }
    }

    fn big_event(seq: u64) -> Event {
        Event {
            id: format!("e{seq}"),
            session_id: "s1".to_string(),
            timestamp_ms: 0,
            seq,
            kind: EventKind::OutputTextDelta {
                delta: "x".repeat(20_000),
            },
        }
    }

    /// Number of write-class system calls issued so far by this process.
    fn syscw() -> u64 {
        let io = fs::read_to_string("/proc/self/io").expect("/proc/self/io");
        io.lines()
            .find_map(|l| l.strip_prefix("syscw:"))
            .expect("syscw line")
            .trim()
            .parse()
            .expect("syscw number")
    }

    /// (1) One `append` of a frame larger than the BufWriter capacity must reach the
    /// file as ONE write(2) (body + newline together). On the current code it is two:
    /// the body bypasses the buffer, the "\n" is flushed separately.
    #[test]
    fn demo_f_c05_single_write_per_frame() {
        let dir = tempdir().expect("tmp");
        let log_path = dir.path().join("events.jsonl");
        let log = EventLog::new(&log_path).expect("log");
        log.append(&small_event(0)).expect("append small");

        let big = big_event(1);
        let body_len = serde_json::to_string(&big).expect("json").len();
        assert!(body_len >= 8 * 1024, "frame must exceed BufWriter capacity");

        // No output between the two samples: only `append` may issue writes here.
        let before = syscw();
        log.append(&big).expect("append big");
        let after = syscw();

        let writes = after - before;
        eprintln!(
            "DEMO F-C05-torn: body_len={body_len} write syscalls for one append = {writes}"
        );
        assert_eq!(
            writes, 1,
            "one frame must be exactly one write(2); got {writes} (body and newline are separate writes, a crash between them tears the frame)"
        );
    }

    /// (2) The on-disk state left by a crash between the two writes: complete JSON
    /// body, no newline. A restarted process appends (O_APPEND) onto the same line and
    /// replay() is broken for the rest of the store's life.
    #[test]
    fn demo_f_c05_torn_crash_between_writes() {
        let dir = tempdir().expect("tmp");
        let log_path = dir.path().join("events.jsonl");

        {
            let log = EventLog::new(&log_path).expect("log");
            log.append(&small_event(0)).expect("append small");
            assert_eq!(log.replay().expect("replay before crash").len(), 1);
        }

        // Crash point: first write_all (body) done, second write_all ("\n") never ran.
        {
            let body = serde_json::to_string(&big_event(1)).expect("json");
            let mut file = OpenOptions::new()
                .append(true)
                .open(&log_path)
                .expect("open append");
            file.write_all(body.as_bytes()).expect("write body");
        }

        // Restart.
        let log = EventLog::new(&log_path).expect("log after restart");
        log.append(&small_event(2)).expect("append after restart");

        let text = fs::read_to_string(&log_path).expect("read");
        eprintln!(
            "DEMO F-C05-torn: file has {} lines for 3 frames",
            text.lines().count()
        );
        let replayed = log.replay();
        eprintln!(
            "DEMO F-C05-torn: replay after restart = {:?}",
            replayed.as_ref().map(|v| v.len())
        );
        assert!(
            replayed.is_ok(),
            "replay() fails after a crash between body and newline writes: {:?}",
            replayed.err()
        );
        // and it stays broken: further appends do not heal it
        log.append(&small_event(3)).expect("append again");
        assert!(log.replay().is_ok());
    }
}
