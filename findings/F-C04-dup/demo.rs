// Demonstration for finding F-C04-dup (crate `ripd`).
//
// Placement: this file lives at crates/ripd/src/continuities_demo_f_c04_dup.rs and is
// included as a child test module of `continuities` by appending these three lines to the
// very end of crates/ripd/src/continuities.rs:
//
//     #[cfg(test)]
//     #[path = "continuities_demo_f_c04_dup.rs"]
//     mod demo_f_c04_dup;
//
// Run with:  cargo test --offline -p ripd --lib demo_f_c04_dup -- --nocapture
//
// Defect: `context_selection_status_v1` declares `decisions` outside the doubling-window
// loop and pushes into it inside.  When the first 256 KiB window is not `complete` and holds
// fewer than `limit` decisions, the next (doubled) window re-reads the same frames and the
// same decisions are pushed a second time.

use super::*;
use std::collections::HashSet;
use tempfile::tempdir;

#[test]
fn demo_f_c04_dup_context_selection_status_v1_has_no_repeated_decisions() {
    let dir = tempdir().expect("tmp");
    let data_dir = dir.path().join("data");
    let workspace_root = dir.path().join("workspace");
    fs::create_dir_all(&workspace_root).expect("workspace");
    let event_log = Arc::new(EventLog::new(data_dir.join("events.jsonl")).expect("log"));
    let store = ContinuityStore::new(data_dir, workspace_root, event_log).expect("store");

    let thread_id = store.ensure_default().expect("ensure");

    // ~384 KiB of padding: larger than the first window (256 KiB), smaller than the
    // second one (512 KiB), so the second window is `complete`.
    let padding = "x".repeat(64 * 1024);
    for _ in 0..6 {
        store
            .append_message(
                &thread_id,
                "alice".to_string(),
                "cli".to_string(),
                padding.clone(),
            )
            .expect("append padding");
    }

    // Three decisions near the tail, all inside the first 256 KiB window.
    let mut expected_ids: Vec<String> = Vec::new();
    for i in 0..3 {
        let session = format!("session-{i}");
        let message_id = store
            .append_message(
                &thread_id,
                "alice".to_string(),
                "cli".to_string(),
                format!("m{i}"),
            )
            .expect("append message");
        store
            .append_run_spawned(
                &thread_id,
                &message_id,
                &session,
                "alice".to_string(),
                "cli".to_string(),
            )
            .expect("run spawned");
        let decision_id = store
            .append_context_selection_decided(
                &thread_id,
                ContextSelectionDecidedPayload {
                    run_session_id: session,
                    message_id,
                    compiler_id: "rip.context_compiler.v1".to_string(),
                    compiler_strategy: "recent_messages_v1".to_string(),
                    limits: serde_json::json!({ "recent_messages_v1_limit": 16 }),
                    compaction_checkpoint: None,
                    compaction_checkpoints: Vec::new(),
                    resets: Vec::new(),
                    reason: Some(serde_json::json!({ "cause": "demo" })),
                    actor_id: "alice".to_string(),
                    origin: "cli".to_string(),
                },
            )
            .expect("selection decided");
        expected_ids.push(decision_id);
    }
    expected_ids.reverse(); // status reports latest first

    let status = store
        .context_selection_status_v1(
            &thread_id,
            ContextSelectionStatusV1Request { limit: Some(10) },
        )
        .expect("status");

    let got_ids: Vec<String> = status
        .decisions
        .iter()
        .map(|d| d.decision_event_id.clone())
        .collect();
    eprintln!("[demo] expected decision ids: {expected_ids:?}");
    eprintln!("[demo] returned decision ids: {got_ids:?}");

    let unique: HashSet<&String> = got_ids.iter().collect();
    assert_eq!(
        unique.len(),
        got_ids.len(),
        "a decision_event_id is repeated in the response: {got_ids:?}"
    );
    assert_eq!(got_ids, expected_ids);
}
