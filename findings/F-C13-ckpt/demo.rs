// F-C13-ckpt demonstration (also covers the related two-bases defect F-C14).
// Placed at: appended to the end of /tmp/wt_demo3/crates/rip-workspace/src/lib.rs as a new
// `#[cfg(test)] mod demo_f_c13_ckpt` (child of the crate root, so it reaches private items).
// Run: cargo test --offline -p rip-workspace demo_f_c1
// Repair patch: /tmp/fixes/5_crates_rip-workspace_src_lib.rs.diff

#[cfg(test)]
mod demo_f_c13_ckpt {
    //! Demonstrations for F-C13-ckpt (and the related two-bases defect F-C14):
    //! `create_checkpoint` must refuse `..` paths, must resolve relative paths against the
    //! workspace root (not the process cwd), and a refused request must leave nothing behind.
    //! None of these tests changes the process cwd.
    use super::*;
    use tempfile::tempdir;

    /// Every filesystem entry below `dir` (files and directories), relative to `dir`, sorted.
    fn walk(dir: &Path) -> Vec<String> {
        fn go(base: &Path, dir: &Path, out: &mut Vec<String>) {
            let Ok(read) = fs::read_dir(dir) else { return };
            for entry in read.flatten() {
                let path = entry.path();
                let rel = path.strip_prefix(base).unwrap().to_string_lossy().to_string();
                if path.is_dir() {
                    out.push(format!("{rel}/"));
                    go(base, &path, out);
                } else {
                    out.push(rel);
                }
            }
        }
        let mut out = Vec::new();
        go(dir, dir, &mut out);
        out.sort();
        out
    }

    #[test]
    fn demo_f_c13_parent_dir_escapes() {
        let tmp = tempdir().expect("tmp");
        let root = tmp.path().join("ws");
        fs::create_dir_all(&root).expect("root");
        let workspace = Workspace::new(&root).expect("workspace");

        // Sentinel that lives NEXT TO the workspace root, i.e. outside it.
        let sentinel = tmp.path().join("outside.txt");
        fs::write(&sentinel, b"precious").expect("sentinel");
        let outside_before: Vec<String> = walk(tmp.path())
            .into_iter()
            .filter(|p| !p.starts_with("ws/"))
            .collect();

        let mut violations: Vec<String> = Vec::new();

        let result = workspace.create_checkpoint("s", "l", &[PathBuf::from("../outside.txt")]);
        match &result {
            Err(_) => {}
            Ok(checkpoint) => {
                violations.push(format!(
                    "create_checkpoint accepted a `..` path; recorded files = {:?}",
                    checkpoint.files
                ));
                // Drive the consequence: rewinding to the accepted checkpoint acts on
                // `<root>/../outside.txt`, which is outside the workspace root.
                let rewind = workspace.rewind_to_checkpoint("s", &checkpoint.id);
                violations.push(format!("rewind_to_checkpoint on that checkpoint -> {rewind:?}"));
            }
        }

        match fs::read(&sentinel) {
            Ok(bytes) if bytes == b"precious" => {}
            Ok(bytes) => violations.push(format!(
                "sentinel outside the root was overwritten: {:?}",
                String::from_utf8_lossy(&bytes)
            )),
            Err(err) => violations.push(format!(
                "sentinel outside the root was DELETED ({}): {err}",
                sentinel.display()
            )),
        }

        let outside_after: Vec<String> = walk(tmp.path())
            .into_iter()
            .filter(|p| !p.starts_with("ws/"))
            .collect();
        if outside_after != outside_before {
            violations.push(format!(
                "entries outside the root changed: before={outside_before:?} after={outside_after:?}"
            ));
        }

        // Inside the root, everything the call may have created must sit under
        // .rip/checkpoints/<session>/<id>/{checkpoint.json,files/...}.
        for entry in walk(&root) {
            let ok = entry == ".rip/" || entry == ".rip/checkpoints/" || {
                let parts: Vec<&str> = entry.trim_end_matches('/').split('/').collect();
                parts.len() >= 3
                    && parts[0] == ".rip"
                    && parts[1] == "checkpoints"
                    && (parts.len() <= 4
                        || parts[4] == "files"
                        || (parts.len() == 5 && parts[4] == "checkpoint.json"))
            };
            if !ok {
                violations.push(format!("unexpected entry created under the root: {entry}"));
            }
        }

        assert!(
            violations.is_empty(),
            "F-C13 violated:\n  - {}",
            violations.join("\n  - ")
        );
        assert!(result.is_err());
    }

    #[test]
    fn demo_f_c14_two_bases() {
        let tmp = tempdir().expect("tmp");
        let root = tmp.path().join("ws");
        fs::create_dir_all(&root).expect("root");
        let workspace = Workspace::new(&root).expect("workspace");

        let file_a = root.join("a.txt");
        fs::write(&file_a, b"original bytes").expect("write a.txt");

        // Precondition of the construction: the process cwd is not the workspace root and
        // has no `a.txt` of its own (true under `cargo test`, where cwd is the crate dir).
        let cwd = std::env::current_dir().expect("cwd");
        assert_ne!(cwd, root);
        assert!(
            !cwd.join("a.txt").exists(),
            "precondition: no a.txt in cwd {}",
            cwd.display()
        );

        let checkpoint = workspace
            .create_checkpoint("s", "l", &[PathBuf::from("a.txt")])
            .expect("relative path inside the root must be accepted");

        // Nothing is modified between create and rewind, so rewind must be a no-op.
        let rewind = workspace.rewind_to_checkpoint("s", &checkpoint.id);

        let now = fs::read(&file_a).ok();
        assert_eq!(
            now.as_deref(),
            Some(&b"original bytes"[..]),
            "<root>/a.txt must survive create+rewind unchanged; checkpoint recorded {:?}, rewind -> {:?}",
            checkpoint.files,
            rewind
        );
        assert!(
            checkpoint.files.len() == 1 && checkpoint.files[0].exists,
            "checkpoint must record the existing <root>/a.txt as exists=true, got {:?}",
            checkpoint.files
        );
    }

    #[test]
    fn demo_f_c13_refused_leaves_nothing() {
        let tmp = tempdir().expect("tmp");
        let root = tmp.path().join("ws");
        fs::create_dir_all(&root).expect("root");
        let workspace = Workspace::new(&root).expect("workspace");

        let outside_abs = tmp.path().join("elsewhere").join("x.txt");
        assert!(outside_abs.is_absolute());

        let err = workspace
            .create_checkpoint("s", "l", &[outside_abs])
            .expect_err("absolute path outside the root must be refused");
        assert_eq!(err.kind(), io::ErrorKind::InvalidInput);

        let leftovers = walk(&root.join(".rip").join("checkpoints"));
        assert!(
            leftovers.is_empty(),
            "a refused create_checkpoint left entries in .rip/checkpoints: {leftovers:?}"
        );
    }
}
