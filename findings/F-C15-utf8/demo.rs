// F-C15-utf8 demonstration.
// Placed at: appended to the end of /tmp/wt_demo3/crates/ripd/src/session.rs as a new
// `#[cfg(test)] mod demo_f_c15_utf8` (child of `session`, so it reaches the private
// `OpenResponsesSsePipe`, `EventSink`, `push_bytes`).
// Run: cargo test --offline -p ripd demo_f_c15
// Repair patch: /tmp/fixes/6_utf8.diff

#[cfg(test)]
mod demo_f_c15_utf8 {
    //! Demonstration for F-C15-utf8: what `OpenResponsesSsePipe::push_bytes` emits must depend
    //! only on the byte stream, not on how the network happened to split it into chunks.
    use super::*;
    use tempfile::tempdir;

    /// Feed `chunks` through a fresh pipe via the real `push_bytes` and return the emitted
    /// frames as JSON with the per-run fields (`id`, `timestamp_ms`) removed.
    async fn run_partition(chunks: &[&[u8]]) -> Vec<Value> {
        let dir = tempdir().expect("tmp");
        let log = EventLog::new(dir.path().join("events.jsonl")).expect("log");
        let buffer = Arc::new(Mutex::new(Vec::new()));
        let (sender, _) = broadcast::channel(64);
        let mut seq = 0;
        let sink = EventSink {
            sender: &sender,
            buffer: &buffer,
            event_log: &log,
        };
        let mut pipe =
            OpenResponsesSsePipe::new("s1", &mut seq, sink, None, ValidationOptions::strict());
        let mut utf8_buf = Vec::new();
        for chunk in chunks {
            let _ = pipe.push_bytes(&mut utf8_buf, chunk).await;
        }
        let _ = pipe.finish().await;
        assert!(utf8_buf.is_empty(), "all bytes consumed");

        let events = buffer.lock().await;
        events
            .iter()
            .map(|event| {
                let mut value = serde_json::to_value(event).expect("event json");
                let obj = value.as_object_mut().expect("object");
                obj.remove("id");
                obj.remove("timestamp_ms");
                value
            })
            .collect()
    }

    fn deltas(frames: &[Value]) -> Vec<String> {
        frames
            .iter()
            .filter(|f| f.get("type").and_then(Value::as_str) == Some("output_text_delta"))
            .filter_map(|f| f.get("delta").and_then(Value::as_str).map(str::to_string))
            .collect()
    }

    #[tokio::test]
    async fn demo_f_c15_utf8_chunking_invariance() {
        // One SSE event whose JSON string payload contains the ill-formed sequence E0 A0
        // followed by '(' (E0 A0 is a truncated 3-byte sequence: error_len() == 2).
        let head: &[u8] = b"data: {\"type\":\"response.output_text.delta\",\"delta\":\"x";
        let bad: &[u8] = b"\xE0\xA0(";
        let tail: &[u8] = b"\"}\n\n";

        let mut whole = Vec::new();
        whole.extend_from_slice(head);
        whole.extend_from_slice(bad);
        whole.extend_from_slice(tail);

        let mut second = Vec::new();
        second.extend_from_slice(bad);
        second.extend_from_slice(tail);

        // Same bytes, two partitions: [whole] vs [..x][E0 A0 ( ...]
        let mut rejoined = head.to_vec();
        rejoined.extend_from_slice(&second);
        assert_eq!(rejoined, whole, "both deliveries carry the same byte stream");

        let one_chunk = run_partition(&[&whole]).await;
        let split = run_partition(&[head, &second]).await;

        assert!(!one_chunk.is_empty(), "the event must be emitted");
        assert_eq!(
            deltas(&one_chunk),
            deltas(&split),
            "decoded delta text differs between one-chunk and split delivery of the same bytes"
        );
        assert_eq!(
            one_chunk, split,
            "emitted frames differ between one-chunk and split delivery of the same bytes"
        );
    }
}
