"""Effect leaves (frozen table of std / tokio / third-party APIs) and reachability of an
effect from a set of root functions over the workspace call graph."""
import re

LEAVES = {
    'TruthAppend': [r'^rip_log::EventLog::append$'],
    'FsWrite': [
        r'^std::fs::(write|rename|remove_file|remove_dir|remove_dir_all|create_dir|create_dir_all|copy|hard_link|set_permissions|soft_link)$',
        r'^std::fs::File::(create|create_new|set_len|set_permissions)$',
        r'^std::os::unix::fs::symlink$',
        r'^tokio::fs::(write|rename|remove_file|remove_dir|remove_dir_all|create_dir|create_dir_all|copy|hard_link)',
        r'^tokio::fs::file::File::(create|create_new|set_len)',
        r'^std::fs::OpenOptions::(write|append|create|create_new|truncate)$',
        r'^tokio::fs::open_options::OpenOptions::(write|append|create|create_new|truncate)$',
    ],
    'FsRead': [
        r'^std::fs::(read|read_to_string|read_dir|metadata|symlink_metadata|canonicalize|read_link|exists)$',
        r'^std::fs::File::open$', r'^std::fs::OpenOptions::open$', r'^std::path::Path::(exists|is_file|is_dir|metadata|read_dir|canonicalize|try_exists|symlink_metadata)$',
        r'^tokio::fs::(read|read_to_string|read_dir|metadata|canonicalize|try_exists)', r'^tokio::fs::file::File::open',
        r'^ignore::walk::WalkBuilder::new$', r'^ignore::walk::WalkBuilder::build$',
    ],
    'ProcSpawn': [
        r'^std::process::Command::(spawn|output|status)$', r'^tokio::process::Command::(spawn|output|status)$',
        r'portable_pty::.*::spawn_command$', r'^portable_pty::.*openpty$', r'^libc::.*::kill$', r'^nix::sys::signal::kill',
    ],
    'Clock': [r'^std::time::SystemTime::now$', r'^std::time::Instant::now$', r'^tokio::time::instant::Instant::now$', r'^chrono::'],
    'Random': [r'^uuid::.*new_v4$', r'^rand::', r'^fastrand::', r'^getrandom::'],
    'Env': [r'^std::env::(var|var_os|vars|vars_os|current_dir|args|temp_dir|home_dir|current_exe)$'],
    'HashOrder': [
        r'^std::collections::hash::map::HashMap::<K, V, S, A>::(iter|iter_mut|keys|values|values_mut|into_keys|into_values|drain|retain|extract_if)$',
        r'^std::collections::hash::set::HashSet::<T, S, A>::(iter|drain|retain|difference|intersection|union|symmetric_difference)$',
        r'IntoIterator>::into_iter$',   # refined by receiver type below
    ],
}
_COMP = {k: [re.compile(p) for p in v] for k, v in LEAVES.items()}


def site_effects(site):
    out = set()
    c = site.callee
    for eff, rxs in _COMP.items():
        for rx in rxs:
            if rx.search(c):
                if eff == 'HashOrder' and c.endswith('into_iter'):
                    if not re.search(r'hash::(map::HashMap|set::HashSet)<', site.full):
                        continue
                out.add(eff)
                break
    return out


def fn_direct_effects(fn):
    """{effect: [Site]} of the body's own call sites."""
    out = {}
    for s in fn.sites():
        for e in site_effects(s):
            out.setdefault(e, []).append(s)
    return out


class Effects:
    def __init__(self, prog):
        self.prog = prog
        self._direct = {}

    def direct(self, path):
        if path not in self._direct:
            f = self.prog.fns.get(path)
            self._direct[path] = fn_direct_effects(f) if f is not None else {}
        return self._direct[path]

    def find(self, roots, effect, stop_rx=None):
        """[(chain of fn paths, Site)] one witness per function that directly has `effect`
        and is reachable from `roots` over the call graph."""
        par = self.prog.reach_fns(roots, stop_rx=stop_rx)
        out = []
        for p in par:
            d = self.direct(p)
            if effect in d:
                out.append((self.prog.chain(par, p), d[effect][0]))
        return out, par

    def havers(self, effect):
        """set of function paths that can (transitively) reach a call with `effect`."""
        key = ('havers', effect)
        if key in self._direct:
            return self._direct[key]
        cg = self.prog.callgraph()
        rev = {}
        for a, outs in cg.items():
            for b in outs:
                rev.setdefault(b, set()).add(a)
        seeds = [p for p in self.prog.fns if effect in self.direct(p)]
        seen = set(seeds)
        st = list(seeds)
        while st:
            x = st.pop()
            for y in rev.get(x, ()):
                if y not in seen:
                    seen.add(y)
                    st.append(y)
        self._direct[key] = seen
        return seen

    def sites_with(self, fn, effect):
        """call sites of `fn` that have `effect` directly or through their callee."""
        hv = self.havers(effect)
        out = []
        for s in fn.sites():
            if effect in site_effects(s) or s.callee in hv or (s.rk in ('virtual', '') and any(i in hv for i in self.prog.trait_impl_items(s.declared))):
                out.append(s)
        return out
