"""Virtual inlining over the exported MIR.

A rule that reads one function body (dominance, typestate, guard live ranges) goes blind when a
block of that body is moved into a private helper. `inline_calls` rebuilds the body with selected
workspace callees spliced in at their call sites, so the rule reads what actually runs:

  * sync callee:   `dest = h(a1..an) -> bbN`   becomes   `p1 = a1; ..; goto h.entry`, every
    `return` of h becomes `dest = h._0; goto bbN`.
  * async callee awaited on the spot (`h(a..).await`): the coroutine body is spliced in at the
    call that creates the future (captured upvar i = argument i), its yields fall through, and the
    poll of that future in the caller becomes `poll_result = Poll::Ready(h._0)`.

Which callees are inlined is the rule's decision (`want(body_fn, callee_path)`): typically "the
callee directly contains one of the constructs the rule is about and is not itself a function the
rule analyses on its own". Inlining is bounded (depth, block budget), never recursive, and only
crosses into functions of the same crate. The result is an ordinary `Fn` with the path, file and
line of the outer function, so obligations keep their keys.
"""
import copy
import re

from .core import Fn, op_place

AWAIT_GLUE = r'IntoFuture>::into_future$|IntoFuture::into_future$|Pin::<Ptr>::new_unchecked$|core::future::get_context$|Pin::<Ptr>::new$'


class _Map:
    def __init__(self, off_l, off_b, upvars=None):
        self.off_l = off_l
        self.off_b = off_b
        self.upvars = upvars      # {field index: new local} for a coroutine body, else None

    def place(self, pl):
        l = pl['l']
        pr = pl.get('p')
        if self.upvars is not None and l == 1 and pr:
            # (_1.i ...) / ((*_1).i ...) -> U_i ...
            rest = list(pr)
            if rest and rest[0] == '*':
                rest = rest[1:]
            if rest and isinstance(rest[0], dict) and 'f' in rest[0] and rest[0]['f'] in self.upvars:
                out = {'l': self.upvars[rest[0]['f']]}
                if rest[1:]:
                    out['p'] = [self.proj(x) for x in rest[1:]]
                return out
        out = {'l': l + self.off_l}
        if pr:
            out['p'] = [self.proj(x) for x in pr]
        return out

    def proj(self, x):
        if isinstance(x, dict) and 'ix' in x:
            y = dict(x)
            y['ix'] = x['ix'] + self.off_l
            return y
        return x

    def operand(self, o):
        if 'c' in o:
            return {'c': self.place(o['c'])}
        if 'm' in o:
            return {'m': self.place(o['m'])}
        return o

    def rv(self, rv):
        out = dict(rv)
        if 'a' in rv:
            out['a'] = [self.operand(o) for o in rv['a']]
        if 'pl' in rv:
            out['pl'] = self.place(rv['pl'])
        return out

    def stmt(self, st):
        if 'rv' in st:
            out = dict(st)
            out['d'] = self.place(st['d'])
            out['rv'] = self.rv(st['rv'])
            return out
        if 'sd' in st:
            return {'sd': st['sd'] + self.off_l}
        if 'sl' in st:
            return {'sl': st['sl'] + self.off_l}
        if 'setd' in st:
            out = dict(st)
            out['setd'] = self.place(st['setd'])
            return out
        return st

    def block_id(self, b):
        return b + self.off_b if isinstance(b, int) and b >= 0 else b

    def term(self, t):
        out = dict(t)
        k = t['k']
        if 'to' in t:
            out['to'] = [self.block_id(x) for x in t['to'] if x != '']
        if k == 'switch':
            out['on'] = self.operand(t['on'])
            out['ts'] = [[v, self.block_id(b)] for (v, b) in t['ts']]
            out['else'] = self.block_id(t['else'])
        elif k == 'call':
            out['a'] = [self.operand(o) for o in t['a']]
            out['d'] = self.place(t['d'])
            f = t['f']
            if 'ind' in f:
                out['f'] = {'ind': self.operand(f['ind'])}
        elif k == 'drop':
            out['pl'] = self.place(t['pl'])
        elif k == 'assert':
            out['c'] = self.operand(t['c'])
        elif k == 'yield':
            if isinstance(t.get('dropto'), int) and t['dropto'] >= 0:
                out['dropto'] = self.block_id(t['dropto'])
        return out


def _callee_of(t):
    f = t.get('f') or {}
    return f.get('r') or f.get('p') or ''


def _poll_sites_of(P, blocks, locals_, fut_local, co_path):
    """blocks whose terminator polls the coroutine `co_path` through a pin of a future that was
    made from `fut_local` (the `.await` of the call that created it)."""
    # forward closure of locals the future flows into through the await glue
    flow = {fut_local}
    changed = True
    while changed:
        changed = False
        for b in blocks:
            for st in b['s']:
                rv = st.get('rv')
                if not rv or 'p' in st['d']:
                    continue
                srcs = [op_place(o) for o in rv.get('a', [])] + ([rv['pl']] if 'pl' in rv else [])
                if any(s is not None and s['l'] in flow for s in srcs) and rv['k'] in ('use', 'ref', 'cast') and st['d']['l'] not in flow:
                    flow.add(st['d']['l'])
                    changed = True
            t = b['t']
            if t['k'] == 'call' and re.search(AWAIT_GLUE, _callee_of(t)):
                if any((op_place(a) or {}).get('l') in flow for a in t['a']) and 'p' not in t['d'] and t['d']['l'] not in flow:
                    flow.add(t['d']['l'])
                    changed = True
    out = []
    for bi, b in enumerate(blocks):
        t = b['t']
        if t['k'] == 'call' and _callee_of(t) == co_path and (t['f'].get('p') or '').endswith('Future::poll'):
            if any((op_place(a) or {}).get('l') in flow for a in t['a']):
                out.append(bi)
    return out


def _succs_of(b):
    t = b['t']
    if t['k'] == 'switch':
        return [x[1] for x in t['ts']] + [t['else']]
    return [x for x in t.get('to', []) if x != '']


def _ret_variant(block, ret_val, locals_):
    """variant index of the value a predecessor of the callee's return block leaves in _0, when
    it is evident: `_0 = Enum::Variant(..)` as the last definition, or `_0 = from_residual(..)`."""
    t = block['t']
    if t['k'] == 'call' and 'p' not in t['d'] and t['d']['l'] == ret_val:
        if re.search(r'FromResidual<.*>>::from_residual$', _callee_of(t)):
            ty = locals_[ret_val]['ty']
            if ty.startswith('core::result::Result<'):
                return 1
            if ty.startswith('core::option::Option<'):
                return 0
        return None
    vi = None
    for st in block['s']:
        if 'rv' in st and st['d']['l'] == ret_val:
            rv = st['rv']
            vi = rv.get('vi') if ('p' not in st['d'] and rv['k'] == 'agg' and rv.get('ak') == 'adt') else None
    return vi


def _specialise_returns(blocks, locals_, lo, hi, ret_val, cap=90):
    """give each return path of a spliced callee whose result variant is evident (return Err(..) / Ok(..) /
    `?`) its own copy of the caller's decision chain, with the switches on that variant resolved: the
    caller's `match helper() { Ok => .., Err => .. }` (or `?`) no longer merges the callee's error and
    success exits, so dominance and reachability questions keep their meaning across the call."""
    # start right after each block of the callee that leaves an evident variant in _0 (the scope-exit drop chain
    # between a `return Err(..)` and the return block is cloned along with the caller's decision chain)
    starts = []
    for pi in range(lo, hi):
        if blocks[pi]['cl']:
            continue
        vi = _ret_variant(blocks[pi], ret_val, locals_)
        if vi is None:
            continue
        sc = _succs_of(blocks[pi])
        if len(sc) == 1 and blocks[pi]['t']['k'] in ('goto', 'drop', 'call'):
            starts.append((pi, sc[0], vi))
    for (pi, rbi, vi) in starts:
        if True:
            known = {ret_val: vi}
            derived = {ret_val}
            wrap = {}
            disc = {}
            cur = rbi
            first = None
            prev = None
            for _step in range(cap):
                ob = blocks[cur]
                if ob['cl']:
                    break
                nb = {'cl': False, 's': list(ob['s']), 't': copy.deepcopy(ob['t'])}
                for st in nb['s']:
                    rv = st.get('rv')
                    if not rv or 'p' in st['d']:
                        if rv and 'p' in st['d']:
                            known.pop(st['d']['l'], None)
                        continue
                    d = st['d']['l']
                    known.pop(d, None)
                    wrap.pop(d, None)
                    disc.pop(d, None)
                    derived.discard(d)
                    if rv['k'] == 'use':
                        q = op_place(rv['a'][0])
                        if q is None:
                            continue
                        if 'p' not in q:
                            if q['l'] in known:
                                known[d] = known[q['l']]
                            if q['l'] in wrap:
                                wrap[d] = wrap[q['l']]
                            if q['l'] in derived:
                                derived.add(d)
                        else:
                            pr = [x for x in q['p'] if not (isinstance(x, dict) and 'dc' in x)]
                            if len(pr) == 1 and isinstance(pr[0], dict) and pr[0].get('f') == 0 and q['l'] in wrap:
                                inner = wrap[q['l']][1]
                                if inner in known:
                                    known[d] = known[inner]
                                if inner in derived:
                                    derived.add(d)
                    elif rv['k'] == 'agg' and rv.get('ak') == 'adt' and 'vi' in rv:
                        known[d] = rv['vi']
                        if len(rv['a']) == 1:
                            q = op_place(rv['a'][0])
                            if q is not None and 'p' not in q:
                                wrap[d] = (rv['vi'], q['l'])
                    elif rv['k'] == 'discr' and 'p' not in rv['pl']:
                        disc[d] = rv['pl']['l']
                idx = len(blocks)
                blocks.append(nb)
                if prev is not None:
                    prev['t']['to'] = [idx]
                else:
                    first = idx
                t = nb['t']
                nxtb = None
                if t['k'] in ('goto', 'drop') and t.get('to'):
                    nxtb = t['to'][0]
                elif t['k'] == 'call' and t.get('to'):
                    cal = _callee_of(t)
                    if 'p' not in t['d']:
                        d = t['d']['l']
                        known.pop(d, None)
                        wrap.pop(d, None)
                        derived.discard(d)
                        a0 = op_place(t['a'][0]) if t['a'] else None
                        if a0 is not None and 'p' not in a0 and a0['l'] in known:
                            ty = locals_[a0['l']]['ty']
                            if re.search(r'Try>::branch$', cal):
                                if ty.startswith('core::result::Result<'):
                                    known[d] = 0 if known[a0['l']] == 0 else 1
                                elif ty.startswith('core::option::Option<'):
                                    known[d] = 0 if known[a0['l']] == 1 else 1
                                if d in known and a0['l'] in derived:
                                    derived.add(d)
                            elif re.search(r'Result::<T, E>::map_err$|Option::<T>::ok_or(_else)?$', cal):
                                if cal.endswith('map_err'):
                                    known[d] = known[a0['l']]
                                else:
                                    known[d] = 0 if known[a0['l']] == 1 else 1     # Some -> Ok, None -> Err
                                if a0['l'] in derived:
                                    derived.add(d)
                    nxtb = t['to'][0]
                elif t['k'] == 'switch':
                    o = op_place(t['on'])
                    src = disc.get(o['l']) if o is not None and 'p' not in o else None
                    if src is not None and src in known:
                        v = known[src]
                        tgt = next((bb for (val, bb) in t['ts'] if str(val) == str(v)), t['else'])
                        nb['t'] = {'k': 'goto', 'to': [tgt]}
                        if src in derived:
                            break
                        nxtb = tgt
                    else:
                        break
                else:
                    break
                prev = nb
                cur = nxtb
            if first is None:
                continue
            pt = blocks[pi]['t']
            if pt['k'] == 'switch':
                pt['ts'] = [[v, (first if bb == rbi else bb)] for (v, bb) in pt['ts']]
                if pt['else'] == rbi:
                    pt['else'] = first
            elif pt.get('to'):
                pt['to'] = [first if x == rbi else x for x in pt['to']]


def inline_calls(P, F, want, depth=2, max_blocks=6000, note=None):
    """F with the wanted same-crate callees spliced in (see module doc). Returns F itself when
    nothing was inlined."""
    locals_ = list(F.locals)
    blocks = [dict(b, s=list(b['s'])) for b in F.blocks]
    inlined = []
    bodies = set()
    origin = [frozenset([F.path])] * len(blocks)     # per block: the callee bodies it was copied from (recursion guard)
    for _round in range(depth):
        progress = False
        for bi in range(len(blocks)):
            b = blocks[bi]
            t = b['t']
            if t['k'] != 'call' or b['cl'] or not t.get('to'):
                continue
            callee = _callee_of(t)
            H = P.fns.get(callee)
            if H is None or H.crate != F.crate or callee in origin[bi]:
                continue
            co = P.async_body(callee)
            body = co if co is not None else H
            if '{closure' in callee and co is None:
                continue
            if body.path in origin[bi] or not want(body, callee):
                continue
            if len(blocks) + len(body.blocks) > max_blocks:
                continue
            nxt = t['to'][0]
            off_l = len(locals_)
            off_b = len(blocks)
            if co is None:
                if len(t['a']) != H.argc:
                    continue
                m = _Map(off_l, off_b)
                locals_.extend(dict(l) for l in body.locals)
                for i, a in enumerate(t['a']):
                    # parameter locals become plain temporaries of the outer body (no name: provenance looks through them)
                    locals_[off_l + 1 + i]['pn'] = locals_[off_l + 1 + i].get('n')
                    locals_[off_l + 1 + i]['n'] = None
                    b['s'].append({'d': {'l': off_l + 1 + i}, 'rv': {'k': 'use', 'a': [a]}, 'ln': t.get('ln', 0)})
                ret_val = off_l + 0
                dest = t['d']
                polls = []
            else:
                # async: the call only builds the coroutine; splice the body here when the future is awaited in this function
                if 'p' in t['d']:
                    continue
                polls = _poll_sites_of(P, blocks, locals_, t['d']['l'], co.path)
                if len(polls) != 1:
                    continue
                # outer fn: `_0 = coroutine(def, [operands built from its params])`
                agg = None
                for ob in H.blocks:
                    for st in ob['s']:
                        rv = st.get('rv')
                        if rv and rv.get('ak') == 'coroutine' and rv.get('def') == co.path:
                            agg = rv
                if agg is None:
                    continue
                locals_.extend(dict(l) for l in body.locals)
                base = len(locals_)
                upvars = {}
                ok = True
                for i, o in enumerate(agg['a']):
                    pl = op_place(o)
                    if pl is None or 'p' in pl or not (1 <= pl['l'] <= H.argc):
                        ok = False
                        break
                    upvars[i] = base + i
                    locals_.append({'ty': H.locals[pl['l']]['ty'], 'n': None, 'pn': H.locals[pl['l']].get('n')})
                    b['s'].append({'d': {'l': base + i}, 'rv': {'k': 'use', 'a': [t['a'][pl['l'] - 1]]}, 'ln': t.get('ln', 0)})
                if not ok:
                    del locals_[off_l:]
                    # remove the binding statements appended so far
                    b['s'] = [s_ for s_ in b['s'] if not (s_.get('d', {}).get('l', -1) >= base)]
                    continue
                m = _Map(off_l, off_b, upvars)
                ret_val = off_l + 0
                dest = None
            ret_blocks = []
            for hb in body.blocks:
                nb = {'cl': hb['cl'], 's': [m.stmt(st) for st in hb['s']], 't': m.term(hb['t'])}
                tk = nb['t']['k']
                if tk == 'ret' and not hb['cl']:
                    ret_blocks.append(len(blocks))
                    if dest is not None:
                        nb['s'].append({'d': dest, 'rv': {'k': 'use', 'a': [{'m': {'l': ret_val}}]}, 'ln': hb['t'].get('ln', 0)})
                    nb['t'] = {'k': 'goto', 'to': [nxt]}
                elif tk == 'yield':
                    nb['t'] = {'k': 'goto', 'to': nb['t']['to'][:1]}
                elif tk == 'cdrop':
                    nb['t'] = {'k': 'unreachable', 'to': []}
                blocks.append(nb)
                origin.append(origin[bi] | {callee, body.path})
            # named re-bindings of the parameters inside the callee (`let buffer = <param>`; every upvar of a
            # coroutine body is re-bound like this) become transparent as well: provenance in the outer body
            # then reaches the caller's own locals
            binders = set(range(off_l + 1, off_l + 1 + H.argc)) if co is None else set(upvars.values())
            first_defs = {}
            for nb in blocks[off_b:]:
                for st in nb['s']:
                    if 'rv' in st and 'p' not in st['d']:
                        first_defs.setdefault(st['d']['l'], []).append(st['rv'])
            for L, rvs in first_defs.items():
                if len(rvs) == 1 and rvs[0]['k'] == 'use' and L >= off_l and locals_[L].get('n'):
                    pl0 = op_place(rvs[0]['a'][0])
                    if pl0 is not None and 'p' not in pl0 and pl0['l'] in binders:
                        locals_[L]['pn'] = locals_[L].get('n')
                        locals_[L]['n'] = None
                        locals_[L]['u'] = False
            if co is not None:
                # the creating call leaves a placeholder future; the poll yields Ready(result)
                b['s'].append({'d': t['d'], 'rv': {'k': 'agg', 'ak': 'coroutine', 'def': co.path + '#inlined', 'a': []}, 'ln': t.get('ln', 0)})
                pb = blocks[polls[0]]
                pt = pb['t']
                pb['s'].append({'d': pt['d'], 'rv': {'k': 'agg', 'ak': 'adt', 'adt': 'core::task::poll::Poll', 'variant': 'Ready', 'vi': 0, 'fields': ['0'], 'a': [{'m': {'l': ret_val}}]}, 'ln': pt.get('ln', 0)})
                pb['t'] = {'k': 'goto', 'to': pt['to'][:1]}
            b['t'] = {'k': 'goto', 'to': [off_b]}
            _specialise_returns(blocks, locals_, off_b, off_b + len(body.blocks), ret_val)
            while len(origin) < len(blocks):
                origin.append(origin[bi] | {callee, body.path})
            inlined.append(callee)
            bodies.add(body.path)
            bodies.add(callee)
            progress = True
        if not progress:
            break
    if not inlined:
        return F
    d = dict(F.d)
    d['locals'] = locals_
    d['blocks'] = blocks
    G = Fn(d, F.crate)
    G.inlined = inlined
    G.inlined_bodies = bodies
    if note is not None:
        note('%s analysed with %s spliced in at the call site(s)' % (F.path, ', '.join(sorted(set(x.rsplit('::', 1)[-1] for x in inlined)))))
    return G


def contains(rx_calls=None, rx_aggs=None):
    """`want` predicate: the callee body directly holds a call / aggregate the rule is about."""
    rc = re.compile(rx_calls) if rx_calls else None
    ra = re.compile(rx_aggs) if rx_aggs else None

    def want(body, callee):
        if rc is not None:
            for s in body.sites():
                if rc.search(s.callee) or rc.search(s.declared) or rc.search(s.base):
                    return True
        if ra is not None:
            for bi in body.reachable():
                for st in body.blocks[bi]['s']:
                    rv = st.get('rv')
                    if rv and rv['k'] == 'agg' and ra.search((rv.get('adt') or '') + '::' + str(rv.get('variant') or '')):
                        return True
        return False
    return want
