"""Backward value provenance inside one body (flow-insensitive over all definitions of a
local; through moves, copies, refs, casts, field/downcast projections and a table of
transparent calls). Used for "where does this operand come from" questions."""
import re

from .core import Site, op_const, op_place

# calls whose result carries (a view / copy / unwrapped form of) their first argument
TRANSPARENT = [
    r'::clone::Clone::clone$', r'Clone>::clone$', r'::cloned$', r'::copied$', r'::as_ref$', r'::as_mut$', r'::as_deref$',
    r'::as_deref_mut$', r'::deref$', r'::deref_mut$', r'::borrow$', r'::borrow_mut$', r'Try>::branch$', r'::map_err$',
    r'::to_string$', r'::to_owned$', r'::to_path_buf$', r'::as_path$', r'::as_str$', r'::as_bytes$', r'::as_slice$',
    r'::into$', r'::from$', r'::unwrap$', r'::expect$', r'::unwrap_or$', r'::unwrap_or_default$', r'::ok$', r'::flatten$',
    r'::into_future$', r'::into_iter$', r'::iter$', r'::as_os_str$', r'::to_str$', r'::to_string_lossy$', r'::into_owned$',
    r'::to_vec$', r'::into_inner$', r'::get_mut$', r'::trim$', r'::into_boxed_str$', r'::take$', r'::as_u64$',
    r'::unwrap_or_else$', r'::ok_or_else$', r'::ok_or$', r'::new_unchecked$', r'::from_residual$', r'::rev$', r'::next$',
    r'::peekable$', r'::enumerate$', r'::last$', r'::first$', r'::last_mut$',
]
_TR = [re.compile(p) for p in TRANSPARENT]
# calls whose result is built from ALL their arguments
ALL_ARGS = [re.compile(p) for p in (r'^std::path::Path::join$', r'^std::path::Path::with_extension$', r'^std::path::Path::with_file_name$',
                                    r'::unwrap_or$', r'::from_residual$', r'^std::path::Path::strip_prefix$', r'::or$', r'::min$', r'::max$',
                                    r'::(saturating|wrapping|checked)_(add|sub|mul)$')]


def is_transparent(callee, extra=()):
    return any(r.search(callee) for r in _TR) or any(re.search(p, callee) for p in extra)


def sources(fn, op, extra_transparent=(), opaque=(), max_nodes=4000):
    """set of terminal origins of an operand:
       ('const', value, def_path_or_None) ('param', idx) ('call', callee, bb) ('bin', op, bb) ('agg', name, bb)
       ('other', kind, bb). Locals are expanded through ALL their definitions."""
    out = set()
    seen = set()
    work = []

    def push_op(o):
        k = op_const(o)
        if k is not None:
            out.add(('const', k.get('v', k.get('str', k.get('fn', k.get('ty') if 'def' not in k else None))), k.get('def')))
            return
        pl = op_place(o)
        if pl is None:
            out.add(('other', 'unknown-operand', -1))
            return
        # tuple precision: `_t.i` where every definition of _t is a tuple aggregate
        pr = pl.get('p', [])
        if pr and isinstance(pr[0], dict) and 'f' in pr[0]:
            ds = fn.defs(pl['l'])
            if ds and all(d[2] == 'rv' and d[3]['k'] == 'agg' and d[3].get('ak') == 'tuple' and len(d[3]['a']) > pr[0]['f'] for d in ds):
                for d in ds:
                    push_op(d[3]['a'][pr[0]['f']])
                return
        work.append(pl['l'])

    push_op(op)
    n = 0
    while work:
        l = work.pop()
        if l in seen:
            continue
        seen.add(l)
        n += 1
        if n > max_nodes:
            out.add(('other', 'slice-too-large', -1))
            break
        if 1 <= l <= fn.argc:
            out.add(('param', l))
        ds = list(fn.defs(l)) + [d[:5] for d in fn.proj_defs(l)]
        if not ds and not (1 <= l <= fn.argc):
            out.add(('other', 'undefined', l))
        for (bi, si, kind, payload, _ln) in ds:
            if kind == 'call':
                s = Site(fn, bi, payload)
                if s.callee and any(re.search(p, s.callee) for p in opaque):
                    out.add(('call', s.callee, bi))
                elif s.callee and any(r.search(s.callee) for r in ALL_ARGS) and s.args:
                    for a in s.args:
                        push_op(a)
                elif s.callee and is_transparent(s.callee, extra_transparent) and s.args:
                    push_op(s.args[0])
                else:
                    out.add(('call', s.callee or '<indirect>', bi))
            else:
                rv = payload
                k = rv['k']
                if k in ('use', 'cast', 'repeat'):
                    push_op(rv['a'][0])
                elif k in ('ref', 'raw'):
                    work.append(rv['pl']['l'])
                elif k == 'discr':
                    work.append(rv['pl']['l'])
                elif k == 'bin':
                    out.add(('bin', rv['op'], bi))
                elif k == 'un':
                    push_op(rv['a'][0])
                elif k == 'agg':
                    if rv.get('ak') == 'adt' and rv['adt'].startswith('core::ops::range::'):
                        for a in rv['a']:
                            push_op(a)
                    elif rv.get('ak') == 'adt':
                        out.add(('agg', rv['adt'] + '::' + rv.get('variant', ''), bi))
                    elif rv.get('ak') in ('tuple', 'array'):
                        for a in rv['a']:
                            push_op(a)
                    else:
                        out.add(('agg', rv.get('def', rv.get('ak')), bi))
                else:
                    out.add(('other', k, bi))
    return out


def derives_from_local(fn, op, target_local, extra_transparent=(), depth=4000):
    """does the operand (transitively, through any definition) read `target_local`?"""
    seen = set()
    work = []
    pl = op_place(op)
    if pl is None:
        return False
    work.append(pl['l'])
    while work:
        l = work.pop()
        if l == target_local:
            return True
        if l in seen:
            continue
        seen.add(l)
        if len(seen) > depth:
            return False
        for (bi, si, kind, payload, _ln) in list(fn.defs(l)) + [d[:5] for d in fn.proj_defs(l)]:
            if kind == 'call':
                for a in payload['a']:
                    p = op_place(a)
                    if p is not None:
                        work.append(p['l'])
            else:
                rv = payload
                for a in rv.get('a', []):
                    p = op_place(a)
                    if p is not None:
                        work.append(p['l'])
                if 'pl' in rv:
                    work.append(rv['pl']['l'])
    return False


def narrow(fn, pl, depth=10):
    """follow a projected place `(l.p0.p1..)` back through single-definition copies and tuple /
    enum-variant aggregates to the operand that was stored in that slot. returns a place without
    the resolved projections, or None when the slot cannot be singled out."""
    l = pl['l']
    pr = list(pl.get('p', []))
    for _ in range(depth):
        if not pr:
            return {'l': l}
        ds = fn.defs(l)
        if len(ds) != 1 or ds[0][2] != 'rv' or fn.proj_defs(l):
            return None
        rv = ds[0][3]
        if rv['k'] == 'use':
            q = op_place(rv['a'][0])
            if q is None:
                return None
            l = q['l']
            pr = list(q.get('p', [])) + pr
            continue
        if rv['k'] == 'agg' and rv.get('ak') in ('tuple', 'adt'):
            p0 = pr[0]
            if isinstance(p0, dict) and 'dc' in p0:
                pr = pr[1:]
                if not pr:
                    return None
                p0 = pr[0]
            if isinstance(p0, dict) and 'f' in p0 and p0['f'] < len(rv['a']):
                q = op_place(rv['a'][p0['f']])
                if q is None:
                    return {'l': None}       # a constant sits in the slot
                l = q['l']
                pr = list(q.get('p', [])) + pr[1:]
                continue
        return None
    return None


def reads_locals(fn, op, depth=4000):
    """all locals an operand transitively derives from (through every def, every call arg).
    Field-precise for tuples / single-variant wrappers built in the same body: reading `(t.1)`
    of `t = (a, b)` derives from b only."""
    seen = set()
    work = []
    pl = op_place(op)
    if pl is None:
        return seen

    def push(p):
        if p is None:
            return
        if p.get('p'):
            n = narrow(fn, p)
            if n is not None:
                if n['l'] is not None:
                    work.append(n['l'])
                return
        work.append(p['l'])
    push(pl)
    while work:
        l = work.pop()
        if l in seen:
            continue
        seen.add(l)
        if len(seen) > depth:
            break
        for (bi, si, kind, payload, _ln) in list(fn.defs(l)) + [d[:5] for d in fn.proj_defs(l)]:
            ops = payload['a'] if kind == 'call' else payload.get('a', [])
            for a in ops:
                push(op_place(a))
            if kind != 'call' and 'pl' in payload:
                push(payload['pl'])
    return seen


def fields_read(fn, op, owner, depth=400):
    """names of the fields of ADT `owner` that the value of an operand is built from
    (through moves, refs, clones, Option/tuple wrapping; tuple projections are precise)."""
    out = set()
    seen = set()
    work = [op]
    n = 0
    while work:
        o = work.pop()
        n += 1
        if n > depth:
            break
        pl = op_place(o)
        if pl is None:
            continue
        for pp in pl.get('p', []):
            if isinstance(pp, dict) and pp.get('o') == owner:
                out.add(pp['n'])
        pr = pl.get('p', [])
        ds = fn.defs(pl['l'])
        if pr and isinstance(pr[0], dict) and 'f' in pr[0] and ds and all(
                d[2] == 'rv' and d[3]['k'] == 'agg' and d[3].get('ak') == 'tuple' and len(d[3]['a']) > pr[0]['f'] for d in ds):
            for d in ds:
                work.append(d[3]['a'][pr[0]['f']])
            continue
        if pl['l'] in seen:
            continue
        seen.add(pl['l'])
        for (bi, si, kind, payload, _ln) in ds:
            if kind == 'call':
                for a in payload['a'][:1]:
                    work.append(a)
            else:
                for a in payload.get('a', []):
                    work.append(a)
                if 'pl' in payload:
                    work.append({'c': payload['pl']})
    return out
