"""Rule context, obligations, known-findings partition, evidence writer, exit-code contract."""
import importlib
import json
import os
import sys
import time
import traceback

from . import driver
from .core import CheckError, Program

VERIF = driver.VERIF

ASSUMPTIONS = [
    "A1 rustc's name resolution, type checking and MIR construction are trusted; so are serde/serde_json derive semantics and the std/tokio API contracts summarised in the effect tables of the checker.",
    "A2 'all paths' excludes unwinding (cleanup blocks): a panic inside a critical section is outside every property's quantifier.",
    "A3 dyn / unresolved trait calls fan out to every workspace impl; external callees are leaves classified by name tables printed in the rules.",
    "A4 provenance is intra-procedural through single-definition temporaries plus named transparent calls; where a rule meets an idiom outside its tables it fails closed (CHECK-ERROR) instead of guessing.",
    "The check decides the structural clauses named in coverage.explanation, which are necessary conditions of the property; it does not decide the value-level remainder listed under 'not decided'.",
]


class Ob:
    __slots__ = ('rule', 'key', 'fn', 'file', 'line', 'ok', 'msg', 'what')

    def __init__(self, rule, key, fn, file, line, ok, msg, what):
        self.rule, self.key, self.fn, self.file, self.line, self.ok, self.msg, self.what = rule, key, fn, file, line, ok, msg, what

    def as_dict(self):
        return {'rule': self.rule, 'key': self.key, 'fn': self.fn, 'at': '%s:%s' % (self.file, self.line),
                'verdict': 'holds' if self.ok else 'FAILS', 'detail': self.msg}


class Ctx:
    def __init__(self, prog, prop, tier):
        self.prog = prog
        self.prop = prop
        self.tier = tier
        self.obs = []
        self._ord = {}
        self.notes = []
        self.floors = []
        self.rules = {}      # rule id -> description
        self.not_decided = ''
        self.fns_analysed = set()
        self.sites_scanned = 0

    def rule(self, rid, text):
        self.rules[rid] = text

    def note(self, s):
        self.notes.append(s)

    def touch(self, fn):
        if fn is not None and fn.path not in self.fns_analysed:
            self.fns_analysed.add(fn.path)
            self.sites_scanned += len(fn.sites())

    def ob(self, rule, fn, what, ok, msg, line=None, site=None):
        """record one obligation. key = rule|fn|what|ordinal (no line numbers)."""
        if site is not None:
            fn = site.fn
            line = site.line
        fpath = fn.path if hasattr(fn, 'path') else str(fn)
        ffile = fn.file if hasattr(fn, 'file') else ''
        if hasattr(fn, 'path'):
            self.touch(fn)
        base = '%s|%s|%s' % (rule, fpath, what)
        n = self._ord.get(base, 0)
        self._ord[base] = n + 1
        o = Ob(rule, '%s|%d' % (base, n), fpath, ffile, line if line is not None else getattr(fn, 'line', 0), bool(ok), msg, what)
        self.obs.append(o)
        return o

    def floor(self, rule, what, count, minimum):
        """vacuity guard. `minimum` is the number of trigger instances confirmed by hand on the
        pinned tree. A rule that matches (almost) nothing must not pass, so the check fails closed
        when fewer than half of them (at least one) are found. Between half and the confirmed
        count the rule still decides every instance it found — a refactor that merges call sites
        into a helper lowers the count without changing behaviour — and the shortfall is recorded
        in the evidence."""
        hard = max(1, (minimum + 1) // 2)
        self.floors.append({'rule': rule, 'what': what, 'found': count, 'confirmed_on_pinned_tree': minimum, 'fail_closed_below': hard})
        if count < hard:
            raise CheckError('%s: %s: found %d instance(s), %d were confirmed on the pinned tree and fewer than %d is treated as a lost anchor (a rule that matches nothing must not pass)'
                             % (rule, what, count, minimum, hard))
        if count < minimum:
            self.note('%s: %s: found %d, %d were confirmed on the pinned tree — every instance found was decided; sites may have been merged or removed' % (rule, what, count, minimum))


def load_known():
    p = os.path.join(VERIF, 'known_findings.json')
    if not os.path.exists(p):
        return {'known': [], 'fixed': []}
    return json.load(open(p))


def write_evidence(prop, tier, level, coverage, assumptions, wall, violations, extra=None):
    os.makedirs(os.path.join(VERIF, 'evidence'), exist_ok=True)
    ev = {
        'property_id': prop,
        'tier': tier,
        'seed': int(os.environ.get('VERIF_SEED', '0') or 0),
        'level': level,
        'coverage': coverage,
        'assumptions': assumptions,
        'wall_s': round(wall, 2),
        'violations': violations,
    }
    if extra:
        ev.update(extra)
    tmp = os.path.join(VERIF, 'evidence', '%s.json.tmp%d' % (prop, os.getpid()))
    with open(tmp, 'w') as fh:
        json.dump(ev, fh, indent=1, sort_keys=False)
    os.replace(tmp, os.path.join(VERIF, 'evidence', '%s.json' % prop))


def evaluate(prop, facts_dir, tier='quick'):
    """run the rules of one property over a given fact set; returns the rule context."""
    prog = Program(facts_dir)
    mod = importlib.import_module('ripcheck.rules.%s' % prop.lower())
    ctx = Ctx(prog, prop, tier)
    try:
        mod.run(ctx)
    except CheckError as e:
        # same policy as run_property: a rule that failed closed does not erase the violations the rules before it found
        if not [o for o in ctx.obs if not o.ok]:
            raise
        ctx.partial_error = str(e)
    return ctx


def run_property(prop, tier='quick', facts_dir=None, quiet=False, write=True):
    """returns exit code. 0 held, 1 violation, 2 check error (fail closed)."""
    t0 = time.time()
    out = []

    def say(s):
        out.append(s)
        if not quiet:
            print(s, flush=True)

    info = {}
    try:
        if facts_dir is None:
            facts_dir, info = driver.facts_for_current_tree()
        prog = Program(facts_dir)
        if prog.unavailable:
            info['unavailable_bodies'] = prog.unavailable
        mod = importlib.import_module('ripcheck.rules.%s' % prop.lower())
        ctx = Ctx(prog, prop, tier)
        partial_error = None
        try:
            mod.run(ctx)
        except CheckError as e:
            # a rule failed closed: keep the verdicts of the rules that ran before it (a violation
            # they found is still a violation), report the error, and never claim "held"
            partial_error = str(e)
            if not [o for o in ctx.obs if not o.ok]:
                raise
        extra_thorough = None
        if tier == 'thorough' and partial_error is None:
            from . import thorough as _th
            extra_thorough = _th.run(prop, ctx, say)
    except CheckError as e:
        say('CHECK-ERROR property=%s %s' % (prop, str(e).replace('\n', '\n    ')))
        if write:
            write_evidence(prop, tier, 'other', {
                'explanation': 'the check could not reach a verdict and failed closed: %s' % e,
                'obligations': 0, 'discharged': 0, 'evaluations': 0, 'distinct_nontrivial': 0, 'samples': []},
                ASSUMPTIONS, time.time() - t0, 0, {'check_error': str(e), **info})
        return 2
    except Exception:
        tb = traceback.format_exc()
        say('CHECK-ERROR property=%s internal error in the checker\n%s' % (prop, tb))
        if write:
            write_evidence(prop, tier, 'other', {
                'explanation': 'internal checker error (fail closed)', 'obligations': 0, 'discharged': 0,
                'evaluations': 0, 'distinct_nontrivial': 0, 'samples': []},
                ASSUMPTIONS, time.time() - t0, 0, {'check_error': tb[-1500:], **info})
        return 2

    if os.environ.get('RIPCHECK_LIST') == '1':
        for o in ctx.obs:
            say('  [%s] %s  (%s:%s) %s' % ('ok' if o.ok else 'FAIL', o.key, o.file, o.line, o.msg[:160]))
    known = load_known()
    known_keys = {k['key']: k for k in known.get('known', []) if k.get('property') == prop}
    failed = [o for o in ctx.obs if not o.ok]
    hits, fresh = [], []
    for o in failed:
        (hits if o.key in known_keys else fresh).append(o)
    for o in hits:
        say('KNOWN-FINDING: property=%s %s %s (%s) — %s' % (prop, known_keys[o.key].get('id', ''), o.key, '%s:%s' % (o.file, o.line), known_keys[o.key].get('what', o.msg)))
    vdir = os.path.join(VERIF, 'evidence', 'violations')
    nviol = 0
    if fresh and write:
        os.makedirs(vdir, exist_ok=True)
    for i, o in enumerate(fresh):
        nviol += 1
        path = os.path.join(vdir, '%s-%d.json' % (prop, i))
        if write:
            with open(path, 'w') as fh:
                json.dump({'property': prop, 'rule': o.rule, 'rule_text': ctx.rules.get(o.rule, ''), 'key': o.key,
                           'function': o.fn, 'at': '%s:%s' % (o.file, o.line), 'detail': o.msg,
                           'tree_hash': info.get('tree_hash')}, fh, indent=1)
        say('  %s %s:%s %s — %s' % (o.rule, o.file, o.line, o.fn, o.msg))
        say('VIOLATION property=%s replay=%s' % (prop, path))

    nontrivial = {o.key for o in ctx.obs}
    by_rule = {}
    for o in ctx.obs:
        r = by_rule.setdefault(o.rule, {'obligations': 0, 'holds': 0})
        r['obligations'] += 1
        r['holds'] += 1 if o.ok else 0
    samples = []
    seen_rules = set()
    for o in ctx.obs:           # one sample per rule first, then failing ones
        if o.rule not in seen_rules:
            seen_rules.add(o.rule)
            samples.append(o.as_dict())
    for o in failed[:20]:
        d = o.as_dict()
        if d not in samples:
            samples.append(d)
    explanation = ('Static analysis of the resolved program (rustc MIR exported by /verif/ripfacts from the '
                   "current working tree of /repo; nothing is executed). Rules applied: "
                   + ' '.join('[%s] %s' % (k, v) for k, v in ctx.rules.items())
                   + (' NOT DECIDED by this check: ' + ctx.not_decided if ctx.not_decided else ''))
    coverage = {
        'explanation': explanation,
        'obligations': len(ctx.obs),
        'discharged': len(ctx.obs) - len(failed),
        'evaluations': len(ctx.obs),
        'distinct_nontrivial': len(nontrivial),
        'rule': 'one obligation per (rule, function, construct, ordinal) discovered in the exported MIR; all are distinct by key; an obligation is non-trivial when a concrete construct (call site, aggregate, loop, field) was found and tested against the rule — obligations with no construct are not emitted at all, a rule that finds fewer than half of the constructs confirmed by hand on the pinned tree (coverage.floors) fails closed',
        'samples': samples,
        'per_rule': by_rule,
        'functions_analysed': len(ctx.fns_analysed),
        'call_sites_scanned': ctx.sites_scanned,
        'bodies_in_program': prog.n_bodies,
        'crates': prog.crates,
        'exhaustive': True,
        'known_findings_hit': [o.key for o in hits],
        'notes': ctx.notes,
        'floors': ctx.floors,
    }
    if tier == 'thorough' and extra_thorough:
        coverage['thorough'] = extra_thorough
        if extra_thorough.get('broken'):
            say('CHECK-ERROR property=%s thorough tier: %s' % (prop, extra_thorough['broken']))
            if write:
                write_evidence(prop, tier, 'other', coverage, ASSUMPTIONS, time.time() - t0, nviol, dict(info, check_error=extra_thorough['broken']))
            return 2
        if extra_thorough.get('violations'):
            for v in extra_thorough['violations']:
                nviol += 1
                say('  %s' % v['detail'])
                say('VIOLATION property=%s replay=%s' % (prop, v['replay']))
    if partial_error:
        say('CHECK-ERROR property=%s (after the verdicts above) %s' % (prop, partial_error.replace('\n', ' ')))
        info = dict(info, check_error=partial_error)
    if write:
        write_evidence(prop, tier, 'other', coverage, ASSUMPTIONS, time.time() - t0, nviol, info)
    if not quiet:
        print('%s: %d obligations, %d hold, %d known finding(s), %d violation(s); %d functions, facts %s (%s), %.1fs'
              % (prop, len(ctx.obs), len(ctx.obs) - len(failed), len(hits), nviol, len(ctx.fns_analysed),
                 info.get('facts_cache', 'given'), info.get('tree_hash', '-'), time.time() - t0), flush=True)
    return 1 if nviol else (2 if partial_error else 0)
