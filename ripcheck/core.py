"""ripcheck.core — the exported resolved program (ripfacts JSON) as python objects plus the
CFG primitives every rule is written in: dominance, edge dominance, reachability, natural
loops, guard live ranges, def/use chains and a workspace call graph.

Nothing here knows about a property. All matching is on resolved callee paths / types as
rustc printed them (one canonical spelling per item, see ripfacts/src/main.rs::cpath)."""
import glob
import json
import os
import re
from collections import defaultdict


class CheckError(Exception):
    """Fail closed: the analysis cannot give a verdict (missing anchor, unknown idiom...)."""


# --------------------------------------------------------------------------- operands
def op_place(op):
    if not isinstance(op, dict):
        return None
    return op.get('c') or op.get('m')


def op_local(op):
    """local index when the operand is a bare local (no projection)."""
    pl = op_place(op)
    if pl is not None and 'p' not in pl:
        return pl['l']
    return None


def op_base(op):
    pl = op_place(op)
    return pl['l'] if pl is not None else None


def op_const(op):
    if isinstance(op, dict) and isinstance(op.get('k'), dict):
        return op['k']
    return None


def place_fields(pl):
    """[(owner, name)] for every Field projection of a place."""
    return [(p.get('o', ''), p.get('n', '')) for p in pl.get('p', []) if isinstance(p, dict) and 'f' in p]


def place_str(fn, pl):
    s = fn.lname(pl['l'])
    for p in pl.get('p', []):
        if p == '*':
            s = '(*%s)' % s
        elif isinstance(p, dict) and 'f' in p:
            s += '.' + (p.get('n') or str(p['f']))
        elif isinstance(p, dict) and 'dc' in p:
            s += ' as ' + p['dc']
        elif isinstance(p, dict) and 'ix' in p:
            s += '[_%d]' % p['ix']
        else:
            s += '[?]'
    return s


def strip_generics(s):
    """`a::B::<T, U>::f` -> `a::B::f` (only `::<..>` turbofish groups are removed)."""
    if '::<' not in s:
        return s
    out = []
    i = 0
    n = len(s)
    while i < n:
        if s.startswith('::<', i):
            depth = 0
            j = i + 2
            while j < n:
                if s[j] == '<':
                    depth += 1
                elif s[j] == '>' and s[j - 1] != '-':
                    depth -= 1
                    if depth == 0:
                        break
                j += 1
            i = j + 1
            continue
        out.append(s[i])
        i += 1
    return ''.join(out)


class Site:
    """A call terminator."""
    __slots__ = ('fn', 'bb', 't', 'callee', 'declared', 'full', 'args', 'dest', 'line', 'ga', 'rk', 'expn', 'base')

    def __init__(self, fn, bb, t):
        self.fn = fn
        self.bb = bb
        self.t = t
        f = t['f']
        self.declared = f.get('p', '')
        self.callee = f.get('r') or f.get('p') or ''
        self.full = f.get('full', '')
        self.base = strip_generics(self.callee)
        self.ga = f.get('ga', [])
        self.rk = f.get('rk', '')
        self.args = t['a']
        self.dest = t['d']
        self.line = t.get('ln', 0)
        self.expn = t.get('x', False)

    @property
    def name(self):
        return self.callee.rsplit('::', 1)[-1]

    def loc(self):
        return '%s:%d' % (self.fn.file, self.line)

    def __repr__(self):
        return '<call %s @%s bb%d>' % (self.callee, self.loc(), self.bb)


class Fn:
    def __init__(self, d, crate):
        self.d = d
        self.crate = crate
        self.path = d['path']
        self.kind = d['kind']
        self.parent = d['parent']
        self.file = d['file']
        self.line = d['line']
        self.end = d['end']
        self.locals = d['locals']
        self.blocks = d['blocks']
        self.argc = d['argc']
        self.vis = d.get('vis', '')
        self.n = len(self.blocks)
        self._succ = None
        self._pred = None
        self._idom = None
        self._rpo = None
        self._sites = None
        self._defs = None
        self._uses = None
        self._loops = None
        self._reach0 = None

    # ---------------------------------------------------------------- basic graph
    def lname(self, l):
        d = self.locals[l]
        return d.get('n') or '_%d' % l

    def lty(self, l):
        return self.locals[l]['ty']

    def is_cleanup(self, b):
        return self.blocks[b]['cl']

    def succs(self, b):
        if self._succ is None:
            S = []
            for bl in self.blocks:
                t = bl['t']
                if bl['cl']:
                    S.append(())
                    continue
                if t['k'] == 'switch':
                    out = [x[1] for x in t['ts']] + [t['else']]
                else:
                    out = [x for x in t.get('to', []) if x != '']
                # de-duplicate, drop cleanup successors (unwinding is out of scope, A2)
                seen = []
                for s in out:
                    if s not in seen and not self.blocks[s]['cl']:
                        seen.append(s)
                S.append(tuple(seen))
            self._succ = S
        return self._succ[b]

    def preds(self, b):
        if self._pred is None:
            P = [[] for _ in range(self.n)]
            for a in range(self.n):
                for s in self.succs(a):
                    P[s].append(a)
            self._pred = P
        return self._pred[b]

    def reach(self, starts, stop=(), skip_edges=()):
        """blocks reachable from `starts` (inclusive); `stop` blocks are entered but not left;
        edges in skip_edges are not taken."""
        if isinstance(starts, int):
            starts = [starts]
        stop = set(stop) if not isinstance(stop, (set, frozenset)) else stop
        skip = set(skip_edges)
        seen = set()
        st = list(starts)
        while st:
            b = st.pop()
            if b in seen:
                continue
            seen.add(b)
            if b in stop:
                continue
            for s in self.succs(b):
                if (b, s) in skip:
                    continue
                if s not in seen:
                    st.append(s)
        return seen

    def reachable(self):
        if self._reach0 is None:
            self._reach0 = self.reach(0)
        return self._reach0

    def reach_from_after(self, b, stop=(), skip_edges=()):
        """blocks reachable by leaving block b (b itself only if on a cycle)."""
        return self.reach(list(self.succs(b)), stop=stop, skip_edges=skip_edges)

    def returns(self):
        return [i for i in self.reachable() if self.blocks[i]['t']['k'] == 'ret']

    # ---------------------------------------------------------------- dominators (Cooper-Harvey-Kennedy)
    def _compute_dom(self):
        order = []
        seen = set()
        stack = [(0, iter(self.succs(0)))]
        seen.add(0)
        while stack:
            b, it = stack[-1]
            adv = False
            for s in it:
                if s not in seen:
                    seen.add(s)
                    stack.append((s, iter(self.succs(s))))
                    adv = True
                    break
            if not adv:
                order.append(b)
                stack.pop()
        rpo = list(reversed(order))
        num = {b: i for i, b in enumerate(rpo)}
        idom = {0: 0}
        changed = True
        while changed:
            changed = False
            for b in rpo[1:]:
                new = None
                for p in self.preds(b):
                    if p in idom:
                        if new is None:
                            new = p
                        else:
                            x, y = p, new
                            while x != y:
                                while num[x] > num[y]:
                                    x = idom[x]
                                while num[y] > num[x]:
                                    y = idom[y]
                            new = x
                if idom.get(b) != new:
                    idom[b] = new
                    changed = True
        self._idom = idom
        self._rpo = rpo

    def idom(self):
        if self._idom is None:
            self._compute_dom()
        return self._idom

    def dom(self, a, b):
        """block a dominates block b (reflexive)."""
        idom = self.idom()
        if b not in idom or a not in idom:
            return False
        while True:
            if a == b:
                return True
            if b == 0:
                return False
            b = idom[b]

    def edge_dom(self, a, tgt, b):
        """every path entry->b takes the edge a->tgt."""
        if b not in self.reachable():
            return False
        if tgt not in self.succs(a):
            return False
        return b not in self.reach(0, skip_edges=[(a, tgt)])

    def must_pass(self, via, frm, to_blocks):
        """every path from block `frm` to any of `to_blocks` passes through one of `via`."""
        via = set([via]) if isinstance(via, int) else set(via)
        if frm in via:
            return True
        r = self.reach(frm, stop=via)
        return not any(t in r and t not in via for t in to_blocks)

    def can_reach(self, a, b):
        """a path with at least one edge leads from block a to block b."""
        return b in self.reach_from_after(a)

    # ---------------------------------------------------------------- loops
    def loops(self):
        """{header: set(body blocks)} natural loops (merged per header)."""
        if self._loops is None:
            L = {}
            idom = self.idom()
            for a in idom:
                for h in self.succs(a):
                    if h in idom and self.dom(h, a):
                        body = {h}
                        st = [a]
                        while st:
                            x = st.pop()
                            if x in body:
                                continue
                            body.add(x)
                            st.extend(p for p in self.preds(x) if p in idom)
                        L.setdefault(h, set()).update(body)
            self._loops = L
        return self._loops

    def innermost_loop(self, b):
        best = None
        for h, body in self.loops().items():
            if b in body and (best is None or len(body) < len(self.loops()[best])):
                best = h
        return best

    def in_loop(self, b):
        return self.innermost_loop(b) is not None

    # ---------------------------------------------------------------- call sites
    def sites(self):
        if self._sites is None:
            out = []
            for i in sorted(self.reachable()):
                t = self.blocks[i]['t']
                if t['k'] == 'call' and 'f' in t and ('p' in t['f'] or 'ind' in t['f']):
                    out.append(Site(self, i, t))
            self._sites = out
        return self._sites

    def calls(self, pat=None, pred=None, full=None):
        """call sites whose resolved (or declared) callee matches regex `pat` (search);
        `full` additionally filters on the instantiated path (generic args spelled out)."""
        rx = re.compile(pat) if isinstance(pat, str) else pat
        fx = re.compile(full) if isinstance(full, str) else full
        out = []
        for s in self.sites():
            if rx is not None and not (rx.search(s.callee) or rx.search(s.declared) or rx.search(s.base)):
                continue
            if fx is not None and not fx.search(s.full):
                continue
            if pred is not None and not pred(s):
                continue
            out.append(s)
        return out

    # ---------------------------------------------------------------- def / use
    def defs(self, l):
        """[(bb, idx, kind, payload)] assignments whose destination is exactly local l.
        kind 'rv' -> payload rvalue; kind 'call' -> payload Site-ish terminator."""
        if self._defs is None:
            D = defaultdict(list)
            PD = defaultdict(list)
            for bi in sorted(self.reachable()):
                bl = self.blocks[bi]
                for si, s in enumerate(bl['s']):
                    if 'rv' in s:
                        if 'p' not in s['d']:
                            D[s['d']['l']].append((bi, si, 'rv', s['rv'], s.get('ln', 0)))
                        else:
                            PD[s['d']['l']].append((bi, si, 'rv', s['rv'], s.get('ln', 0), s['d']))
                t = bl['t']
                if t['k'] == 'call':
                    if 'p' not in t['d']:
                        D[t['d']['l']].append((bi, 't', 'call', t, t.get('ln', 0)))
                    else:
                        PD[t['d']['l']].append((bi, 't', 'call', t, t.get('ln', 0), t['d']))
            self._defs = (D, PD)
        return self._defs[0].get(l, [])

    def proj_defs(self, l):
        self.defs(0)
        return self._defs[1].get(l, [])

    def uses(self, l):
        """[(bb, idx, how, payload)] every read of local l (as operand base or ref/discr place)."""
        if self._uses is None:
            U = defaultdict(list)
            for bi in sorted(self.reachable()):
                bl = self.blocks[bi]
                for si, s in enumerate(bl['s']):
                    rv = s.get('rv')
                    if not rv:
                        continue
                    for o in rv.get('a', []):
                        b = op_base(o)
                        if b is not None:
                            U[b].append((bi, si, 'stmt', s))
                    if 'pl' in rv:
                        U[rv['pl']['l']].append((bi, si, 'stmt', s))
                    # writes through a projection read the base too
                    if 'p' in s['d']:
                        U[s['d']['l']].append((bi, si, 'projwrite', s))
                t = bl['t']
                if t['k'] == 'call':
                    for ai, o in enumerate(t['a']):
                        b = op_base(o)
                        if b is not None:
                            U[b].append((bi, 't', 'arg%d' % ai, t))
                    if 'ind' in t.get('f', {}):
                        b = op_base(t['f']['ind'])
                        if b is not None:
                            U[b].append((bi, 't', 'callee', t))
                elif t['k'] == 'switch':
                    b = op_base(t['on'])
                    if b is not None:
                        U[b].append((bi, 't', 'switch', t))
                elif t['k'] == 'drop':
                    U[t['pl']['l']].append((bi, 't', 'drop', t))
                elif t['k'] == 'assert':
                    b = op_base(t['c'])
                    if b is not None:
                        U[b].append((bi, 't', 'assert', t))
            self._uses = U
        return self._uses.get(l, [])

    def single_def(self, l):
        d = self.defs(l)
        return d[0] if len(d) == 1 else None

    def origin(self, op, through_calls=(), depth=24):
        """Follow an operand backwards through single-definition temporaries
        (use / ref / deref / cast / listed transparent calls) and return a description of
        where the value comes from:
          ('const', constdict) | ('local', l, place) user-named or multiply-defined local /
          parameter (with the remaining projection) | ('call', Site) | ('rv', rvalue, bb)."""
        cur = op
        projs = []
        for _ in range(depth):
            k = op_const(cur)
            if k is not None:
                return ('const', k)
            pl = op_place(cur)
            if pl is None:
                return ('unknown', cur)
            l = pl['l']
            projs = list(pl.get('p', [])) + projs
            if l <= self.argc and l != 0:
                return ('local', l, projs)
            ds = self.defs(l)
            if len(ds) != 1 or self.locals[l].get('n'):
                if len(ds) == 1 and self.locals[l].get('n') and ds[0][2] == 'rv' and ds[0][3]['k'] in ('use',) and False:
                    pass
                return ('local', l, projs)
            bi, si, kind, payload, _ln = ds[0]
            if kind == 'call':
                site = Site(self, bi, payload)
                if through_calls and any(re.search(p, site.callee) for p in through_calls) and site.args:
                    cur = site.args[0]
                    continue
                return ('call', site, projs)
            rv = payload
            if rv['k'] in ('use', 'cast'):
                cur = rv['a'][0]
                continue
            if rv['k'] in ('ref', 'raw'):
                cur = {'c': rv['pl']}
                # a ref then deref cancel
                if projs and projs[0] == '*':
                    projs = projs[1:]
                continue
            return ('rv', rv, bi, projs)
        return ('unknown', cur)

    def root_local(self, op, through_calls=()):
        """the user-visible local / parameter an operand derives from, or None."""
        o = self.origin(op, through_calls)
        if o[0] == 'local':
            return o[1]
        return None

    # ---------------------------------------------------------------- guards
    def guard_ranges(self, ty_rx):
        """{local: (def_blocks, release_blocks, live_blocks)} for locals whose type matches
        ty_rx exactly as a guard value (not a reference / Result / Option / future of it).
        live = blocks strictly after a defining block, reached without crossing a release
        (Drop terminator or move of the whole local)."""
        rx = re.compile(ty_rx)
        out = {}
        for g, l in enumerate(self.locals):
            ty = l['ty']
            if not rx.match(ty):
                continue
            defs = [d[0] for d in self.defs(g)]
            if not defs:
                continue
            rel = set()
            for (bi, si, how, payload) in self.uses(g):
                if how == 'drop' and 'p' not in payload['pl']:
                    rel.add(bi)
                elif how.startswith('arg'):
                    ai = int(how[3:])
                    o = payload['a'][ai]
                    if 'm' in o and 'p' not in o['m']:
                        rel.add(bi)   # moved into a call (mem::drop, into another owner)
                elif how == 'stmt':
                    rv = payload['rv']
                    for o in rv.get('a', []):
                        if 'm' in o and 'p' not in o['m'] and o['m']['l'] == g:
                            rel.add(bi)
            live = set()
            for d in defs:
                live |= self.reach(list(self.succs(d)), stop=rel)
            # a release block itself is still "inside" up to its terminator: statements of
            # a Drop block precede the drop, and calls are terminators of their own block.
            live_strict = {b for b in live if b not in rel or self.blocks[b]['t']['k'] == 'drop'}
            # a call block that *moves* the guard is not protected by it
            out[g] = (defs, rel, live_strict)
        return out

    def held_at(self, bb, ty_rx):
        """guard locals (by type regex) that are certainly live at block bb: bb is in the
        live range and a defining block dominates bb and no release can precede bb on a
        path from the definition."""
        res = []
        for g, (defs, rel, live) in self.guard_ranges(ty_rx).items():
            if bb in live and any(self.dom(d, bb) and d != bb for d in defs):
                # every path def->bb must avoid release blocks: check bb not reachable from a release
                # without passing a def again
                bad = False
                for r in rel:
                    if r == bb:
                        continue
                    if bb in self.reach(list(self.succs(r)), stop=set(defs)) and any(self.dom(d, r) for d in defs):
                        bad = True
                        break
                if not bad:
                    res.append(g)
        return res

    # ---------------------------------------------------------------- aggregates
    def aggregates(self, adt_rx=None, variant=None):
        """[(bb, idx, stmt)] Aggregate(Adt) constructions."""
        rx = re.compile(adt_rx) if adt_rx else None
        out = []
        for bi in sorted(self.reachable()):
            for si, s in enumerate(self.blocks[bi]['s']):
                rv = s.get('rv')
                if rv and rv['k'] == 'agg' and rv.get('ak') == 'adt':
                    if rx and not rx.search(rv['adt']):
                        continue
                    if variant and rv.get('variant') != variant:
                        continue
                    out.append((bi, si, s))
        return out

    def switch_on_call(self, site):
        """If the boolean / discriminant result of `site` is branched on, return
        (switch_block, {value: target}, else_target)."""
        l = site.dest['l']
        cur = {l}
        # follow copies / discriminant reads in successor chain
        frontier = [site.t['to'][0]] if site.t.get('to') else []
        seen = set()
        while frontier:
            b = frontier.pop()
            if b in seen:
                continue
            seen.add(b)
            bl = self.blocks[b]
            for s in bl['s']:
                rv = s.get('rv')
                if not rv:
                    continue
                if rv['k'] == 'discr' and rv['pl']['l'] in cur:
                    cur.add(s['d']['l'])
                elif rv['k'] in ('use', 'cast', 'un') and any(op_base(o) in cur for o in rv.get('a', [])):
                    cur.add(s['d']['l'])
            t = bl['t']
            if t['k'] == 'switch' and op_base(t['on']) in cur:
                neg = self._negations(cur)
                return (b, {v: tb for v, tb in t['ts']}, t['else'], op_base(t['on']) in neg)
            if t['k'] in ('goto', 'drop') and len(self.succs(b)) == 1:
                frontier.append(self.succs(b)[0])
            elif t['k'] == 'call' and any(op_base(o) in cur for o in t['a']):
                # passes through e.g. Not::not / bool ops: stop, unknown
                return None
        return None

    def _negations(self, locals_):
        neg = set()
        for l in locals_:
            for d in self.defs(l):
                if d[2] == 'rv' and d[3]['k'] == 'un' and d[3]['op'] == 'Not':
                    neg.add(l)
        return neg


class Program:
    def __init__(self, facts_dir):
        self.dir = facts_dir
        rp = os.path.join(facts_dir, 'ROOT')
        self.root = open(rp).read().strip() if os.path.exists(rp) else os.environ.get('RIP_REPO', '/repo')
        self.fns = {}
        self.adts = {}
        self.impls = []
        self.sigs = {}
        self.crates = []
        self.unavailable = []
        self.n_bodies = 0
        files = sorted(glob.glob(os.path.join(facts_dir, '*.json')))
        if not files:
            raise CheckError('no fact files in %s' % facts_dir)
        for f in files:
            d = json.load(open(f))
            cr = d['crate']
            self.crates.append({'crate': cr, 'types': d.get('crate_types'), 'fns': d['n'], 'skipped': d['skipped'],
                                'file': os.path.basename(f), 'nonce': d.get('nonce')})
            self.unavailable += d.get('unavailable', [])
            for fd in d['fns']:
                fn = Fn(fd, cr)
                # lib + bin of the same package share a crate name; paths are distinct in practice
                if fn.path in self.fns and len(self.fns[fn.path].blocks) >= len(fn.blocks):
                    continue
                self.fns[fn.path] = fn
            for a in d['adts']:
                self.adts[a['path']] = a
            for i in d['impls']:
                i['crate'] = cr
                self.impls.append(i)
            for s in d['sigs']:
                self.sigs[s['path']] = s
        self.n_bodies = len(self.fns)
        # `impl<'a> T<'a>` items print as `T::<'a>::f`: accept the spelling without generics too
        self.alias = {}
        for pth in self.fns:
            b = strip_generics(pth)
            if b != pth:
                self.alias.setdefault(b, pth)
        self._callers = None
        self._cg = None
        self._trait_impls = None

    # ------------------------------------------------------------------ lookups
    def fn(self, path, required=True):
        f = self.fns.get(path) or self.fns.get(self.alias.get(path, ''))
        if f is None and required:
            raise CheckError('anchor function missing: %s' % path)
        return f

    def body(self, path, required=True):
        """the code body: for an async fn that is `path::{closure#0}`."""
        path = path if path in self.fns else self.alias.get(path, path)
        f = self.fns.get(path + '::{closure#0}')
        if f is not None and self.fns.get(path) is not None:
            # async fn: the outer body only builds the coroutine
            outer = self.fns[path]
            if any(s.get('rv', {}).get('ak') == 'coroutine' and s['rv'].get('def') == f.path for b in outer.blocks for s in b['s']):
                return f
        return self.fn(path, required)

    def async_body(self, path):
        """the coroutine body of an `async fn`, or None when `path` is not one."""
        if not hasattr(self, '_async'):
            self._async = {}
        if path in self._async:
            return self._async[path]
        outer = self.fns.get(path)
        co = self.fns.get(path + '::{closure#0}')
        res = None
        if outer is not None and co is not None:
            if any(st.get('rv', {}).get('ak') == 'coroutine' and st['rv'].get('def') == co.path for b in outer.blocks for st in b['s']):
                res = co
        self._async[path] = res
        return res

    def coroutines(self):
        """paths of every coroutine body (async fn bodies and async blocks)."""
        if not hasattr(self, '_cor'):
            self._cor = set()
            for f in self.fns.values():
                for b in f.blocks:
                    for st in b['s']:
                        rv = st.get('rv') or {}
                        if rv.get('ak') == 'coroutine' and rv.get('def'):
                            self._cor.add(rv['def'])
        return self._cor

    def find_fns(self, rx):
        r = re.compile(rx)
        return [f for p, f in sorted(self.fns.items()) if r.search(p)]

    def closures_of(self, path):
        pre = path + '::{closure'
        return [f for p, f in sorted(self.fns.items()) if p.startswith(pre)]

    def family(self, path):
        """the function, its async body and every nested closure."""
        out = []
        if path in self.fns:
            out.append(self.fns[path])
        out += self.closures_of(path)
        return out

    def callers(self, callee_rx):
        rx = re.compile(callee_rx)
        out = []
        for p, f in sorted(self.fns.items()):
            for s in f.sites():
                if rx.search(s.callee) or rx.search(s.declared) or rx.search(s.base):
                    out.append(s)
        return out

    def lift_sites(self, sites, has_context, depth=3):
        """call sites seen from the function that holds the context a rule needs: a site inside
        a helper that lacks the context (a block extracted into a private function) is replaced
        by the call sites of that helper, up to `depth` levels. A helper nobody calls keeps its
        own site (the rule then decides it as it stands)."""
        out = []
        for s in sites:
            cur = [s]
            for _ in range(depth):
                nxt = []
                changed = False
                for x in cur:
                    if has_context(x.fn):
                        nxt.append(x)
                        continue
                    # an async fn body is called through its outer fn
                    target = x.fn.path
                    if target.endswith('::{closure#0}') and self.async_body(target[:-len('::{closure#0}')]) is x.fn:
                        target = target[:-len('::{closure#0}')]
                    cs = [c for f in self.fns.values() for c in f.sites() if c.callee == target]
                    if cs:
                        nxt.extend(cs)
                        changed = True
                    else:
                        nxt.append(x)
                cur = nxt
                if not changed:
                    break
            out.extend(cur)
        # de-duplicate by (fn, block)
        seen = set()
        res = []
        for x in out:
            k = (x.fn.path, x.bb)
            if k not in seen:
                seen.add(k)
                res.append(x)
        return res

    def trait_impl_items(self, trait_item):
        if self._trait_impls is None:
            T = defaultdict(list)
            for i in self.impls:
                for it in i['items']:
                    if it['trait_item']:
                        T[it['trait_item']].append(it['path'])
            self._trait_impls = T
        return self._trait_impls.get(trait_item, [])

    # ------------------------------------------------------------------ call graph
    def callgraph(self):
        """{fn path: set(callee paths)}; closure / coroutine constructions and fn-item
        constants are edges; virtual and unresolved trait calls fan out to every workspace
        impl of the trait item."""
        if self._cg is not None:
            return self._cg
        cg = {}
        for p, f in self.fns.items():
            out = set()
            for s in f.sites():
                if s.callee:
                    out.add(s.callee)
                if s.rk in ('virtual', '') and s.declared:
                    for imp in self.trait_impl_items(s.declared):
                        out.add(imp)
            for bi in f.reachable():
                bl = f.blocks[bi]
                for st in bl['s']:
                    rv = st.get('rv')
                    if not rv:
                        continue
                    if rv['k'] == 'agg' and rv.get('ak') in ('closure', 'coroutine', 'coroutine_closure'):
                        out.add(rv['def'])
                    for o in rv.get('a', []):
                        k = op_const(o)
                        if k and 'fn' in k:
                            out.add(k['fn'])
                t = bl['t']
                if t['k'] == 'call':
                    for o in t['a']:
                        k = op_const(o)
                        if k and 'fn' in k:
                            out.add(k['fn'])
            cg[p] = out
        self._cg = cg
        return cg

    def reach_fns(self, roots, stop_rx=None):
        """transitive closure over the call graph from root paths; returns
        {path: parent_path} (BFS tree) including external leaves."""
        cg = self.callgraph()
        stop = re.compile(stop_rx) if stop_rx else None
        par = {}
        q = []
        for r in roots:
            if r not in par:
                par[r] = None
                q.append(r)
        while q:
            x = q.pop(0)
            if stop and stop.search(x) and par[x] is not None:
                continue
            for y in sorted(cg.get(x, ())):
                if y not in par:
                    par[y] = x
                    q.append(y)
        return par

    def chain(self, par, leaf):
        out = [leaf]
        while par.get(out[-1]) is not None:
            out.append(par[out[-1]])
        return list(reversed(out))


def switches(fn):
    """[(bb, operand, {value: target}, else_target)] of every reachable SwitchInt."""
    out = []
    for bi in sorted(fn.reachable()):
        t = fn.blocks[bi]['t']
        if t['k'] == 'switch':
            out.append((bi, t['on'], {v: b for v, b in t['ts']}, t['else']))
    return out


def guarded_by_edges(fn, bb, edges):
    """every path entry -> bb takes one of `edges` [(a, b)]: i.e. bb becomes unreachable once
    every *other* way out of the blocks `a` is kept but ... (precisely: bb is unreachable when
    the complementary edges are the only ones removed is NOT what we want) -- we remove the
    listed edges and ask whether bb is still reachable; if it is, some path avoids them."""
    return bb in fn.reachable() and bb not in fn.reach(0, skip_edges=edges)


def sole_target(ts, els, key):
    """the target of switch value `key` when no other value (and not the otherwise edge) leads to the same block —
    an or-pattern `A | B => X` sends two values over what edge dominance sees as one edge."""
    t = ts.get(key)
    if t is None or t == els or any(v == t for k, v in ts.items() if k != key):
        return None
    return t


def edge_implies(fn, a, tgt, b):
    """block b is reached only if the edge a->tgt was taken — directly (edge dominance) or
    through a materialised boolean (`matches!`, `a && b`): a bool local assigned the constant
    true only in blocks edge-dominated by a->tgt, whose own true edge edge-dominates b."""
    if fn.edge_dom(a, tgt, b):
        return True
    for (bi, on, ts, els) in switches(fn):
        l = op_local(on)
        if l is None or fn.lty(l) != 'bool':
            continue
        if not fn.edge_dom(bi, els, b):
            continue
        ds = fn.defs(l)
        if not ds:
            continue
        ok = True
        any_true = False
        for (dbi, si, kind, payload, ln) in ds:
            if kind != 'rv' or payload['k'] != 'use':
                ok = False
                break
            k = op_const(payload['a'][0])
            if k is None or not isinstance(k.get('v'), bool):
                # a copy of another materialised bool: recurse one level
                src = op_local(payload['a'][0])
                if src is not None and fn.lty(src) == 'bool':
                    sub = True
                    for (d2, s2, k2, p2, l2) in fn.defs(src):
                        kk = op_const(p2['a'][0]) if k2 == 'rv' and p2['k'] == 'use' else None
                        if kk is None or not isinstance(kk.get('v'), bool):
                            sub = False
                        elif kk['v'] is True and not fn.edge_dom(a, tgt, d2):
                            sub = False
                        elif kk['v'] is True:
                            any_true = True
                    if sub and fn.edge_dom(a, tgt, dbi) or sub:
                        continue
                ok = False
                break
            if k['v'] is True:
                any_true = True
                if not fn.edge_dom(a, tgt, dbi):
                    ok = False
                    break
        if ok and any_true:
            return True
    return False
