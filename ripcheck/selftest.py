"""Checker self-test over scratch copies of the current tree."""
import importlib.util
import os
import shutil
import subprocess
import tempfile
import time

from . import driver, engine
from .core import CheckError


def load_mutants():
    p = os.path.join(driver.VERIF, 'selftest', 'mutants.py')
    spec = importlib.util.spec_from_file_location('ripcheck_mutants', p)
    m = importlib.util.module_from_spec(spec)
    spec.loader.exec_module(m)
    return m.MUTANTS


def apply_edit(root, file, old, new):
    p = os.path.join(root, file)
    with open(p) as fh:
        s = fh.read()
    if s.count(old) != 1:
        return False
    with open(p, 'w') as fh:
        fh.write(s.replace(old, new))
    return True


def make_scratch():
    base = tempfile.mkdtemp(prefix='ripcheck-selftest-', dir=os.environ.get('TMPDIR') or '/tmp')
    repo = os.path.join(base, 'repo')
    shutil.copytree(driver.REPO, repo, ignore=shutil.ignore_patterns('target', '.git', 'node_modules'), symlinks=True)
    tgt = os.path.join(base, 'target')
    warm = os.path.join(driver.CACHE, 'target')
    if os.path.isdir(warm):
        r = subprocess.run(['cp', '-al', warm, tgt], capture_output=True)
        if r.returncode != 0:
            shutil.rmtree(tgt, ignore_errors=True)
    return base, repo, tgt


def load_seeded():
    """independently authored breaking changes kept under /verif/seeded/<id>/ that some check
    reported when they were filed: they are replayed as regression mutants of that check."""
    import ast
    import glob
    import json
    out = []
    for mp in sorted(glob.glob(os.path.join(driver.VERIF, 'seeded', '*', 'meta.json'))):
        try:
            d = json.load(open(mp))
            al = d.get('checks_that_alarm')
            al = ast.literal_eval(al) if isinstance(al, str) and al.startswith('{') else {}
        except Exception:
            continue
        for p_, rc in al.items():
            if rc == 1:
                out.append({'id': 'seeded-' + os.path.basename(os.path.dirname(mp)), 'prop': p_, 'rule': None, 'what': d.get('summary', '')[:160],
                            'patch': os.path.join(os.path.dirname(mp), 'patch.diff')})
    return out


def run(prop, say=print, only=None):
    """returns {mutants, detected, skipped, undetected: [ids], results: [...]}"""
    muts = [m for m in load_mutants() + load_seeded() if (prop is None or m['prop'] == prop) and (only is None or m['id'] in only)]
    res = {'mutants': len(muts), 'detected': 0, 'skipped': 0, 'not_compiling': 0, 'undetected': [], 'results': []}
    if not muts:
        return res
    driver.ensure_driver()
    base, repo, tgt = make_scratch()
    known = {k['key'] for k in engine.load_known().get('known', [])}
    try:
        for m in muts:
            t0 = time.time()
            saved = {}
            applied = True
            if 'patch' in m:
                # a seeded patch: remember the files it touches, apply with git apply (works outside a repository)
                touched = []
                for line in open(m['patch']):
                    if line.startswith('+++ b/'):
                        touched.append(line[6:].strip())
                for fpath in touched:
                    pth = os.path.join(repo, fpath)
                    saved[fpath] = open(pth).read() if os.path.exists(pth) else None
                r = subprocess.run(['git', 'apply', '--whitespace=nowarn', m['patch']], cwd=repo, capture_output=True, text=True)
                applied = r.returncode == 0
                edits = []
            else:
                edits = [dict(file=m['file'], old=m['old'], new=m['new'])] + [dict(file=e.get('file', m['file']), old=e['old'], new=e['new']) for e in m.get('also', [])]
            for e in edits:
                p = os.path.join(repo, e['file'])
                if e['file'] not in saved:
                    with open(p) as fh:
                        saved[e['file']] = fh.read()
                if not apply_edit(repo, e['file'], e['old'], e['new']):
                    applied = False
                    break
            entry = {'id': m['id'], 'rule': m['rule'], 'what': m['what']}
            if not applied:
                entry['outcome'] = 'skipped (the edited tree no longer contains the construct this mutant edits)'
                res['skipped'] += 1
            else:
                facts = os.path.join(base, 'facts', m['id'])
                ok, log = driver.export(repo, target_dir=tgt, out_dir=facts, nonce=m['id'])
                if not ok:
                    entry['outcome'] = 'mutant does not compile'
                    entry['log'] = '\n'.join(l for l in log.splitlines() if l.startswith('error'))[:600]
                    res['not_compiling'] += 1
                else:
                    try:
                        ctx = engine.evaluate(m['prop'], facts)
                        hits = [o for o in ctx.obs if not o.ok and o.key not in known and (m['rule'] is None or o.rule == m['rule'])]
                        others = [o for o in ctx.obs if not o.ok and o.key not in known and m['rule'] is not None and o.rule != m['rule']]
                        if hits:
                            entry['outcome'] = 'detected'
                            entry['reported'] = hits[0].key
                            entry['also_reported'] = sorted({o.rule for o in others})
                            res['detected'] += 1
                        else:
                            entry['outcome'] = 'NOT DETECTED'
                            entry['other_reports'] = [o.key for o in others][:5]
                            res['undetected'].append(m['id'])
                    except CheckError as e:
                        # failing closed on a mutant is not a detection
                        entry['outcome'] = 'NOT DETECTED (check error: %s)' % str(e)[:200]
                        res['undetected'].append(m['id'])
                shutil.rmtree(facts, ignore_errors=True)
            for f, s in saved.items():
                if s is None:
                    try:
                        os.remove(os.path.join(repo, f))
                    except OSError:
                        pass
                    continue
                with open(os.path.join(repo, f), 'w') as fh:
                    fh.write(s)
            entry['wall_s'] = round(time.time() - t0, 1)
            res['results'].append(entry)
            say('  selftest %-45s %s' % (m['id'], entry['outcome']))
    finally:
        shutil.rmtree(base, ignore_errors=True)
    return res
