"""Interprocedural, flow-insensitive taint over the exported MIR.
Sources are declared fields (owner ADT, field name), source calls and tainted parameters of
entry points; sanitiser calls return clean values; taint flows through assignments, through
external calls (any tainted argument taints the result and a `&mut` receiver), into workspace
callees (argument -> parameter, return place -> result) and into closures (captured operand ->
closure environment). Sinks are evaluated by the rule that owns the engine."""
import re
from collections import defaultdict

from .core import Site, op_const, op_place


class Taint:
    def __init__(self, prog, source_field, source_call=None, sanitizers=(), declassifiers=(), scope=None,
                 param_sources=None, no_propagate=None, carrier_fields=None, clean_type=None, agg_sink=None):
        self.P = prog
        self.source_field = source_field          # (owner, name) -> label | None
        self.source_call = source_call or (lambda site: None)
        self.san = [re.compile(x) for x in sanitizers]
        self.decl = [re.compile(x) for x in declassifiers]
        self.scope = scope or (lambda fn: True)
        self.no_propagate = no_propagate or (lambda site: False)
        self.carrier = carrier_fields or (lambda adt, field: False)   # declared secret slots: storing there does not taint the whole value
        self.clean_type = clean_type or (lambda ty: False)
        self.agg_sink = agg_sink or (lambda adt: False)   # aggregates that are sinks: reported by the rule, taint stops there
        self.t = defaultdict(dict)                 # fn path -> {local: label}
        self.env = defaultdict(dict)               # closure / coroutine path -> {upvar index: label}
        self.tuple_only = defaultdict(set)         # locals tainted only per tuple field
        self._val = {}                             # fn path -> [(switch block, ok target, validated root local)]
        self._vblk = {}
        self.ret = {}                              # fn path -> label (return place tainted)
        for path, locs in (param_sources or {}).items():
            for l, label in locs.items():
                self.t[path][l] = label

    # ------------------------------------------------------------------ helpers
    def place_label(self, fpath, pl):
        for p in pl.get('p', []):
            if isinstance(p, dict) and 'f' in p:
                lab = self.source_field(p.get('o', ''), p.get('n', ''))
                if lab:
                    return lab
        if pl['l'] == 1 and fpath in self.env:
            # closure / coroutine environment: taint is per captured field
            for p in pl.get('p', []):
                if p == '*':
                    continue
                if isinstance(p, dict) and 'f' in p:
                    lab = self.env[fpath].get(p['f'])
                    if lab:
                        return lab
                break
        pr = pl.get('p', [])
        if pr and isinstance(pr[0], dict) and 'dc' in pr[0] and (pl['l'], 'v:' + pr[0]['dc']) in self.t[fpath]:
            return self.t[fpath][(pl['l'], 'v:' + pr[0]['dc'])]
        if pr and isinstance(pr[0], dict) and 'f' in pr[0] and (pl['l'], pr[0]['f']) in self.t[fpath]:
            return self.t[fpath][(pl['l'], pr[0]['f'])]
        if pr and isinstance(pr[0], dict) and 'f' in pr[0] and pl['l'] in self.tuple_only.get(fpath, ()):
            return None
        if pl['l'] in self.tuple_only.get(fpath, ()):
            # the whole tuple is used (moved into a container, passed to a call): any tainted field taints it
            for key, lb in self.t[fpath].items():
                if isinstance(key, tuple) and key[0] == pl['l'] and not isinstance(key[1], str):
                    return lb
        return self.t[fpath].get(pl['l'])

    def op_label(self, fpath, op, vset=None):
        pl = op_place(op)
        if pl is None:
            return None
        if vset and pl['l'] in vset:
            return None
        return self.place_label(fpath, pl)

    def is_san(self, callee):
        return any(r.search(callee) for r in self.san)

    def is_decl(self, callee):
        return any(r.search(callee) for r in self.decl)

    # ------------------------------------------------------------------ validation by a dominating sanitiser
    def validations(self, f):
        """[(a, tgt, root)] : on the edge a->tgt the `?` of a sanitiser call on a value rooted
        at local `root` succeeded; blocks edge-dominated by it may treat `root` as validated
        (the value is immutable behind a shared reference / moved loop variable)."""
        if f.path in self._val:
            return self._val[f.path]
        out = []
        for s in f.sites():
            if not self.is_san(s.callee):
                continue
            e = _ok_edge(f, s)
            if e is None or e[1] is None:
                continue
            for a in s.args:
                r = f.root_local(a, through_calls=(r'std::path::Path::new$', r'::as_ref$', r'::deref$', r'::as_str$', r'::as_path$'))
                if r is not None and r > 0:
                    out.append((e[0], e[1], r))
        self._val[f.path] = out
        return out

    def validated_at(self, f, bi):
        key = (f.path, bi)
        if key not in self._vblk:
            self._vblk[key] = {r for (a, t, r) in self.validations(f) if f.edge_dom(a, t, bi)}
        return self._vblk[key]

    # ------------------------------------------------------------------ fixpoint
    def run(self, max_rounds=60):
        fns = [f for f in self.P.fns.values() if self.scope(f)]
        changed = True
        rounds = 0
        while changed and rounds < max_rounds:
            changed = False
            rounds += 1
            for f in fns:
                if self._step(f):
                    changed = True
        self.rounds = rounds
        return self

    def _mark(self, fpath, l, label):
        f = self.P.fns.get(fpath)
        base = l[0] if isinstance(l, tuple) else l
        if f is not None and not isinstance(l, tuple) and base < len(f.locals) and self.clean_type(f.locals[base]['ty']):
            return False
        if l not in self.t[fpath]:
            self.t[fpath][l] = label
            if isinstance(l, tuple):
                if base not in self.t[fpath] and not isinstance(l[1], str):
                    self.tuple_only[fpath].add(base)
            else:
                self.tuple_only[fpath].discard(base)
            return True
        return False

    def _step(self, f):
        ch = False
        fp = f.path
        for bi in f.reachable():
            bl = f.blocks[bi]
            vset = self.validated_at(f, bi) if self.san else None
            for st in bl['s']:
                rv = st.get('rv')
                if not rv:
                    continue
                lab = None
                for o in rv.get('a', []):
                    lab = lab or self.op_label(fp, o, vset)
                if 'pl' in rv and not (vset and rv['pl']['l'] in vset):
                    lab = lab or self.place_label(fp, rv['pl'])
                if rv['k'] == 'agg' and rv.get('ak') in ('closure', 'coroutine', 'coroutine_closure'):
                    # capture: operand i becomes upvar field i of the body's environment
                    if rv.get('def') in self.P.fns:
                        for i, o in enumerate(rv['a']):
                            l2 = self.op_label(fp, o)
                            if l2 and i not in self.env[rv['def']]:
                                self.env[rv['def']][i] = l2
                                ch = True
                    continue
                if rv['k'] == 'use' and 'p' not in st['d']:
                    pl0 = op_place(rv['a'][0])
                    if pl0 is not None and 'p' not in pl0:
                        for key, lb in list(self.t[fp].items()):
                            if isinstance(key, tuple) and key[0] == pl0['l']:
                                if isinstance(key[1], str):
                                    k2 = (st['d']['l'], key[1])
                                    if k2 not in self.t[fp]:
                                        self.t[fp][k2] = lb
                                        ch = True
                                else:
                                    ch |= self._mark(fp, (st['d']['l'], key[1]), lb)
                if rv['k'] == 'agg' and rv.get('ak') == 'tuple' and 'p' not in st['d']:
                    for i, o in enumerate(rv['a']):
                        l2 = self.op_label(fp, o)
                        if l2:
                            ch |= self._mark(fp, (st['d']['l'], i), l2)
                    continue
                if rv['k'] == 'agg' and rv.get('ak') == 'adt':
                    lab = None
                    if self.agg_sink(rv['adt']):
                        continue
                    for fname, o in zip(rv.get('fields', []), rv['a']):
                        if self.carrier(rv['adt'], fname):
                            continue
                        lab = lab or self.op_label(fp, o)
                if lab:
                    ch |= self._mark(fp, st['d']['l'], lab)
            t = bl['t']
            if t['k'] != 'call' or 'p' not in t.get('f', {}):
                continue
            s = Site(f, bi, t)
            labs = [self.op_label(fp, a, vset) for a in s.args]
            lab = next((x for x in labs if x), None)
            src = self.source_call(s)
            if src:
                if isinstance(src, tuple) and src[0] == 'variant':
                    # only one variant of the result carries the taint (e.g. the Err of a typed parse)
                    key = (s.dest['l'], 'v:' + src[1])
                    if key not in self.t[fp]:
                        self.t[fp][key] = src[2]
                        ch = True
                else:
                    ch |= self._mark(fp, s.dest['l'], src)
                continue
            # combinators that expose the Err of a variant-tainted Result
            if s.args and re.search(r'core::result::Result::<T, E>::(map_err|err|unwrap_err|expect_err|unwrap_or_else|or_else)$', s.callee):
                pl0 = op_place(s.args[0])
                if pl0 is not None and 'p' not in pl0 and (pl0['l'], 'v:Err') in self.t[fp]:
                    lbv = self.t[fp][(pl0['l'], 'v:Err')]
                    if s.name in ('map_err', 'or_else'):
                        key = (s.dest['l'], 'v:Err')
                        if key not in self.t[fp]:
                            self.t[fp][key] = lbv
                            ch = True
                    else:
                        ch |= self._mark(fp, s.dest['l'], lbv)
                    # the closure receives the error as its argument
                    if len(s.args) > 1:
                        o = f.origin(s.args[1])
                        if o[0] == 'rv' and o[1].get('ak') == 'closure' and o[1].get('def') in self.P.fns:
                            ch |= self._mark(o[1]['def'], 2, lbv)
            if self.is_san(s.callee) or self.is_decl(s.callee) or self.no_propagate(s):
                continue
            callee = self.P.fns.get(s.callee)
            if callee is not None and self.scope(callee):
                # argument -> parameter
                for ai, la in enumerate(labs):
                    if la and ai + 1 <= callee.argc:
                        ch |= self._mark(callee.path, ai + 1, la)
                # closures called through Fn* traits receive their args as a tuple in arg 1
                if callee.kind == 'Closure' and len(s.args) == 2 and labs[1]:
                    for pi in range(2, callee.argc + 1):
                        ch |= self._mark(callee.path, pi, labs[1])
                # async fn: the value is produced by the coroutine body
                co = self.P.async_body(s.callee)
                rl = self.t[callee.path].get(0)
                if co is not None:
                    rl = rl or self.t[co.path].get(0)
                if rl:
                    ch |= self._mark(fp, s.dest['l'], rl)
                for src_path in (callee.path, co.path if co is not None else None):
                    if src_path:
                        for key, lb in list(self.t[src_path].items()):
                            if isinstance(key, tuple) and key[0] == 0 and 'p' not in s.dest:
                                ch |= self._mark(fp, (s.dest['l'], key[1]), lb)
            elif re.search(r'::(map|filter_map|flat_map|and_then|map_while|find_map|scan|then|map_or|map_or_else|unwrap_or_else)$', s.callee) and len(s.args) >= 2 and (lab or any((lambda o_: o_[0] == 'rv' and o_[1].get('ak') == 'closure' and self.t.get(o_[1].get('def'), {}).get(0))(f.origin(a_)) for a_ in s.args[1:])):
                # adaptor with a workspace closure: the elements that come out are what the closure returns, not what
                # went in (`paths.iter().map(|p| self.resolve(p))` yields resolver results); the closure's parameters
                # receive the label of the receiver's elements
                cl = None
                for a in s.args[1:]:
                    o = f.origin(a)
                    if o[0] == 'rv' and o[1].get('ak') == 'closure' and o[1].get('def') in self.P.fns:
                        cl = self.P.fns[o[1]['def']]
                if cl is None or not self.scope(cl):
                    if lab:
                        ch |= self._mark(fp, s.dest['l'], lab)
                else:
                    if labs[0]:
                        for pi in range(2, cl.argc + 1):
                            ch |= self._mark(cl.path, pi, labs[0])
                    rl = self.t[cl.path].get(0)
                    if rl:
                        ch |= self._mark(fp, s.dest['l'], rl)
                    for key, lb in list(self.t[cl.path].items()):
                        if isinstance(key, tuple) and key[0] == 0 and 'p' not in s.dest:
                            ch |= self._mark(fp, (s.dest['l'], key[1]), lb)
            elif lab:
                ch |= self._mark(fp, s.dest['l'], lab)
                if s.args:
                    pl0 = op_place(s.args[0])
                    if pl0 is not None and f.lty(pl0['l']).startswith('&mut') and not labs[0]:
                        r = f.root_local(s.args[0], through_calls=(r'::deref_mut$', r'::as_mut$'))
                        if r is not None:
                            ch |= self._mark(fp, r, lab)
                        ch |= self._mark(fp, pl0['l'], lab)
        return ch

    def tainted(self, f, op, bb=None):
        return self.op_label(f.path, op, self.validated_at(f, bb) if (bb is not None and self.san) else None)


def _ok_edge(f, site):
    """(switch block, Ok target) of the `?` applied to the result of `site` (possibly through map_err)."""
    cur = site
    for _ in range(4):
        l = cur.dest['l']
        nxt = None
        for (bi, si, how, payload) in f.uses(l):
            if how.startswith('arg') and si == 't':
                s2 = Site(f, bi, payload)
                if re.search(r'Try>::branch$', s2.callee):
                    sw = f.switch_on_call(s2)
                    if sw is None:
                        return None
                    return (sw[0], sw[1].get('0'))
                if re.search(r'::map_err$', s2.callee):
                    nxt = s2
        if nxt is None:
            return None
        cur = nxt
    return None
