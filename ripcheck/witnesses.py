"""Type-level witnesses: compile_fail doc-tests (with compiling twins) in /verif/witnesses."""
import os
import re
import shutil
import subprocess

from . import driver

WIT = os.path.join(driver.VERIF, 'witnesses')
# property -> doc-test name fragments that belong to it
BY_PROP = {'C01': ['w_c01'], 'C02': ['w_c02'], 'C16': ['w_c16'], 'C18': ['w_c18'], 'C20': ['w_c20']}


def run(prop, say=print):
    if prop not in BY_PROP or not os.path.isdir(WIT):
        return None
    lock = os.path.join(driver.REPO, 'Cargo.lock')
    if os.path.exists(lock):
        shutil.copy(lock, os.path.join(WIT, 'Cargo.lock'))
    env = dict(os.environ)
    env['CARGO_NET_OFFLINE'] = 'true'
    env['CARGO_TARGET_DIR'] = os.path.join(driver.CACHE, 'witness-target')
    r = subprocess.run(['cargo', '+nightly', 'test', '--doc', '--offline', '--'] + BY_PROP[prop], cwd=WIT, env=env, capture_output=True, text=True)
    out = r.stdout + r.stderr
    tests = re.findall(r'^test (\S.*?) \.\.\. (\w+)', out, re.M)
    res = {'doc_tests': len(tests), 'passed': len([t for t in tests if t[1] == 'ok']), 'results': ['%s: %s' % t for t in tests]}
    if not tests:
        res['broken'] = 'witness doc-tests did not run: ' + out[-600:]
        return res
    failed = [t for t in tests if t[1] != 'ok']
    if failed:
        for name, st in failed:
            if 'compile_fail' in name:
                path = os.path.join(driver.VERIF, 'evidence', 'violations', '%s-witness.txt' % prop)
                os.makedirs(os.path.dirname(path), exist_ok=True)
                with open(path, 'w') as fh:
                    fh.write(out[-4000:])
                res.setdefault('violations', []).append({'detail': 'witness %s failed: a forbidden access now COMPILES' % name, 'replay': path})
            else:
                res['broken'] = 'witness twin %s no longer compiles (stale witness; no verdict)' % name
    for name, st in tests:
        say('  witness %s ... %s' % (name, st))
    return res
