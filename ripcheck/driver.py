"""Build / refresh the fact files for /repo's current working tree."""
import fcntl
import hashlib
import json
import os
import shutil
import subprocess
import time

from .core import CheckError

VERIF = os.path.dirname(os.path.dirname(os.path.abspath(__file__)))
REPO = os.environ.get('RIP_REPO', '/repo')
CACHE = os.path.join(VERIF, '.cache')
RIPFACTS = os.path.join(VERIF, 'ripfacts', 'target', 'release', 'ripfacts')
EXPECTED_CRATES = ['rip', 'rip_bench', 'rip_kernel', 'rip_log', 'rip_openresponses',
                   'rip_provider_openresponses', 'rip_tools', 'rip_tui', 'rip_workspace', 'ripd']


def tree_hash(repo=None):
    """sha256 over every file cargo (or include_str!) can see under the repo."""
    repo = repo or REPO
    h = hashlib.sha256()
    n = 0
    for root, dirs, files in os.walk(repo):
        dirs[:] = sorted(d for d in dirs if d not in ('target', '.git', 'node_modules'))
        for f in sorted(files):
            p = os.path.join(root, f)
            rel = os.path.relpath(p, repo)
            try:
                with open(p, 'rb') as fh:
                    data = fh.read()
            except OSError:
                continue
            h.update(rel.encode() + b'\0' + str(len(data)).encode() + b'\0')
            h.update(data)
            n += 1
    return h.hexdigest()[:24], n


def nightly_sysroot():
    out = subprocess.run(['rustc', '+nightly', '--print', 'sysroot'], capture_output=True, text=True)
    if out.returncode != 0:
        raise CheckError('nightly toolchain not available: ' + out.stderr.strip())
    return out.stdout.strip()


def ensure_driver():
    if os.path.exists(RIPFACTS):
        src = os.path.join(VERIF, 'ripfacts', 'src', 'main.rs')
        if os.path.getmtime(src) <= os.path.getmtime(RIPFACTS):
            return
    r = subprocess.run(['cargo', 'build', '--release', '--offline'], cwd=os.path.join(VERIF, 'ripfacts'),
                       capture_output=True, text=True)
    if r.returncode != 0 or not os.path.exists(RIPFACTS):
        raise CheckError('ripfacts driver failed to build:\n' + r.stderr[-2000:])


def export(repo=None, target_dir=None, out_dir=None, nonce='x'):
    """run the exporter over the whole workspace; returns (ok, log)."""
    repo = repo or REPO
    target_dir = target_dir or default_target_dir(repo)
    os.makedirs(target_dir, exist_ok=True)
    os.makedirs(out_dir, exist_ok=True)
    with open(os.path.join(out_dir, 'ROOT'), 'w') as fh:
        fh.write(os.path.abspath(repo))
    # cargo replays cached output and skips the wrapper on a warm target dir: drop the
    # workspace members' fingerprints so that every member is re-analysed.
    fp = os.path.join(target_dir, 'debug', '.fingerprint')
    if os.path.isdir(fp):
        for d in os.listdir(fp):
            if d.startswith('rip'):
                shutil.rmtree(os.path.join(fp, d), ignore_errors=True)
    env = dict(os.environ)
    sysroot = nightly_sysroot()
    env['LD_LIBRARY_PATH'] = os.path.join(sysroot, 'lib') + ':' + env.get('LD_LIBRARY_PATH', '')
    env['RUSTFLAGS'] = '-Zmir-opt-level=0 -Awarnings'
    env['RUSTC_WORKSPACE_WRAPPER'] = RIPFACTS
    env['CARGO_TARGET_DIR'] = target_dir
    env['RIPFACTS_OUT'] = out_dir
    env['RIPFACTS_NONCE'] = nonce
    env['CARGO_NET_OFFLINE'] = 'true'
    env.pop('RUSTC_WRAPPER', None)
    r = subprocess.run(['cargo', '+nightly', 'check', '--offline', '--workspace'],
                       cwd=repo, env=env, capture_output=True, text=True)
    return r.returncode == 0, r.stderr


def default_target_dir(repo):
    """one warm target directory per analysed tree location: /repo has its own, every scratch tree (RIP_REPO) gets one keyed by its
    path, so that regressions over several scratch worktrees can export side by side"""
    repo = os.path.abspath(repo or REPO)
    if repo == '/repo':
        return os.path.join(CACHE, 'target')
    return os.path.join(CACHE, 'target-alt-' + hashlib.sha256(repo.encode()).hexdigest()[:8])


def facts_for_current_tree(repo=None, use_cache=True):
    """returns (facts_dir, info dict). Fails closed with CheckError when the tree does not
    build under the driver or a fact file is missing / stale."""
    repo = repo or REPO
    os.makedirs(os.path.join(CACHE, 'facts'), exist_ok=True)
    lock = open(os.path.join(CACHE, 'lock-' + os.path.basename(default_target_dir(repo))), 'w')
    fcntl.flock(lock, fcntl.LOCK_EX)
    try:
        t0 = time.time()
        th, nfiles = tree_hash(repo)
        # the exporter is part of the key: new exporter => new facts
        with open(os.path.join(VERIF, 'ripfacts', 'src', 'main.rs'), 'rb') as fh:
            th = hashlib.sha256((th + hashlib.sha256(fh.read()).hexdigest()).encode()).hexdigest()[:24]
        out_dir = os.path.join(CACHE, 'facts', th)
        marker = os.path.join(out_dir, 'COMPLETE')
        info = {'tree_hash': th, 'files_hashed': nfiles, 'facts_cache': 'miss'}
        if use_cache and os.environ.get('VERIF_NO_CACHE') != '1' and os.path.exists(marker):
            info['facts_cache'] = 'hit'
            os.utime(out_dir)
            return out_dir, info
        ensure_driver()
        if os.path.isdir(out_dir):
            shutil.rmtree(out_dir)
        ok, log = export(repo, out_dir=out_dir, nonce=th)
        if not ok:
            shutil.rmtree(out_dir, ignore_errors=True)
            tail = '\n'.join(l for l in log.splitlines() if 'error' in l or l.startswith(' -->'))[-3000:]
            raise CheckError('the tree does not build under `cargo +nightly check` with the exporter:\n' + tail)
        seen = {}
        for f in os.listdir(out_dir):
            if f.endswith('.json'):
                with open(os.path.join(out_dir, f)) as fh:
                    head = fh.read(400)
                if ('"nonce":"%s"' % th) not in head:
                    raise CheckError('stale fact file ' + f)
                seen[f.rsplit('-', 1)[0]] = True
        missing = [c for c in EXPECTED_CRATES if c not in seen]
        if missing:
            shutil.rmtree(out_dir, ignore_errors=True)
            raise CheckError('exporter produced no facts for crates: %s' % ', '.join(missing))
        open(marker, 'w').write(json.dumps({'t': time.time()}))
        info['export_s'] = round(time.time() - t0, 1)
        # keep the forty most recent fact sets (several regressions may run side by side)
        base = os.path.join(CACHE, 'facts')
        ds = sorted((os.path.getmtime(os.path.join(base, d)), d) for d in os.listdir(base))
        for _, d in ds[:-40]:
            shutil.rmtree(os.path.join(base, d), ignore_errors=True)
        return out_dir, info
    finally:
        fcntl.flock(lock, fcntl.LOCK_UN)
        lock.close()
