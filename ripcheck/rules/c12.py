"""C12 — patch application is all-or-nothing (structural clauses)."""
import re

from ..core import CheckError, Site, op_base, op_place, switches
from ..effects import Effects, site_effects
from ..prov import reads_locals
from .c01 import ok_edge_of_try

MUT = r'^std::fs::(write|remove_file|rename|remove_dir|remove_dir_all|copy|hard_link)$|^std::fs::File::create$|^std::fs::OpenOptions::open$'
APPLY = 'rip_workspace::Workspace::apply_patch'


def arg_roots(f, op):
    """root locals of a (possibly tuple-wrapped) closure-call argument."""
    o = f.origin(op)
    out = set()
    if o[0] == 'rv' and o[1]['k'] == 'agg' and o[1].get('ak') == 'tuple':
        for a in o[1]['a']:
            r = f.root_local(a)
            if r is not None:
                out.add(r)
    else:
        r = f.root_local(op)
        if r is not None:
            out.add(r)
    return out


def workspace_helpers11(P):
    from .common import workspace_helpers_of
    return [P.fns[x] for x in workspace_helpers_of(P, 'rip_workspace::Workspace::apply_patch') if x in P.fns]


def run(ctx):
    P = ctx.prog
    ctx.not_decided = 'hunk placement semantics, CRLF/LF and trailing-newline preservation, exactness of the success result (value level).'
    ctx.rule('C12.1', 'undo before mutate: in the operation closure of Workspace::apply_patch every fs mutation (write / remove_file / rename, both ends) of a path is reachable only through the Ok edge of a record_undo call on that same path.')
    ctx.rule('C12.2', 'revert on error: after the operation closure ran, every path to a return passes revert_paths (with the undo entries) or the Ok edge of the result test; revert_paths writes back previous bytes and removes files that did not exist. (The order of the walk is not claimed: with first-seen entries, C12.4, every order restores the same state.)')
    ctx.rule('C12.3', 'parse first: Patch::parse(..)? dominates the operation closure; no fs mutation happens in apply_patch outside the closure and revert_paths.')

    f = P.fn(APPLY)
    fam = P.closures_of(APPLY)
    ctx.touch(f)
    STORE_RX = r'alloc::vec::Vec::push$|btree::map::BTreeMap::insert$|hash::map::HashMap::insert$|::or_insert(_with)?$|btree::map::BTreeMap::entry$|hash::map::HashMap::entry$'
    def has_undo(g):
        return bool(g.calls(STORE_RX, full=r'Option<alloc::vec::Vec<u8>>')) and bool(g.calls(r'^std::fs::read$'))
    undo_cl = [g for g in fam if has_undo(g)]
    undo_body = None
    if not undo_cl:
        # the closure only forwards to a private helper that holds the body
        for g in fam:
            for s_ in g.sites():
                h = P.fns.get(s_.callee)
                if h is not None and h.crate == f.crate and has_undo(h):
                    undo_cl.append(g)
                    undo_body = h
    if len(undo_cl) != 1:
        raise CheckError('C12.1: expected one record_undo closure (reads the previous bytes and stores Option<Vec<u8>> per path), found %d' % len(undo_cl))
    undo_call_cl = undo_cl[0]
    undo_cl = undo_body or undo_call_cl
    op_cl = [g for g in fam if g.calls(MUT) and g is not undo_call_cl]
    if len(op_cl) != 1:
        raise CheckError('C12.1: expected one operation closure with fs mutations, found %d' % len(op_cl))
    op_cl = op_cl[0]
    ctx.touch(op_cl)
    ctx.touch(undo_cl)
    # record_undo reads the previous content before pushing
    rd = undo_cl.calls(r'^std::fs::read$')
    pu = undo_cl.calls(STORE_RX, full=r'Option<alloc::vec::Vec<u8>>')
    # C12.4 first-seen: the stored previous state of a path must be the one from BEFORE the patch:
    # the store is reachable only the first time a path is recorded
    ctx.rule('C12.4', 'first-seen undo: record_undo stores the previous state of a path only the first time it sees that path (set insert == true / contains == false / entry().or_insert); a later record of the same path must not overwrite it, otherwise a patch that touches one path twice rolls back to an intermediate state.')
    for st_ in pu:
        fresh = False
        if re.search(r'::or_insert(_with)?$', st_.callee):
            fresh = True
        for t in undo_cl.calls(r'btree::set::BTreeSet::insert$|hash::set::HashSet::insert$|::contains(_key)?$'):
            sw = undo_cl.switch_on_call(t)
            if sw is None:
                continue
            bb, ts, els, neg = sw
            is_insert = t.name == 'insert'
            # insert -> true means fresh; contains -> false means fresh
            fresh_edge = (ts.get('0') if neg else els) if is_insert else (els if neg else ts.get('0'))
            if fresh_edge is not None and undo_cl.edge_dom(bb, fresh_edge, st_.bb):
                fresh = True
        ctx.ob('C12.4', undo_cl, 'undo-first-seen', fresh, 'the undo entry is stored %s' % ('only the first time a path is seen' if fresh else
               'EVERY time a path is recorded (%s overwrites / duplicates): the rollback of a patch that touches a path twice restores an intermediate state' % st_.name), line=st_.line)
    ctx.ob('C12.1', undo_cl, 'undo-captures-previous', bool(rd) and all(undo_cl.can_reach(r.bb, p.bb) for r in rd for p in pu) and not undo_cl.calls(MUT),
           'record_undo reads the previous bytes (or notes absence) before pushing and mutates nothing', line=undo_cl.line)
    records = [s for s in op_cl.sites() if s.callee in (undo_call_cl.path, undo_cl.path)]
    muts = op_cl.calls(MUT)
    ctx.floor('C12.1', 'fs mutations in the operation closure', len(muts), 4)
    for mu in muts:
        paths = [0, 1] if mu.name in ('rename', 'copy', 'hard_link') else [0]
        for pi in paths:
            pl = op_cl.root_local(mu.args[pi], through_calls=(r'::as_ref$', r'::deref$'))
            ok = False
            for r in records:
                if pl is not None and any(pl in arg_roots(op_cl, ra) for ra in r.args[1:]):
                    e = ok_edge_of_try(op_cl, r)
                    if e is not None and e[1] is not None and op_cl.edge_dom(e[0], e[1], mu.bb):
                        ok = True
            ctx.ob('C12.1', op_cl, 'undo-before:%s#%d' % (mu.name, pi), ok,
                   '%s(%s) %s' % (mu.name, op_cl.lname(pl) if pl is not None else '?', 'is reachable only after record_undo(&%s)? succeeded' % op_cl.lname(pl) if ok and pl is not None else
                                  'can run WITHOUT a successful record_undo of that path: a later failure cannot restore it'), line=mu.line)
    # every path in the operation closure is resolved through safe_join
    for mu in muts:
        for pi in ([0, 1] if mu.name in ('rename',) else [0]):
            pl = op_cl.root_local(mu.args[pi], through_calls=(r'::as_ref$', r'::deref$'))
            src_ok = False
            if pl is not None:
                for d in op_cl.defs(pl):
                    pass
                from ..prov import sources
                src = sources(op_cl, {'c': {'l': pl}})
                src_ok = any(x[0] == 'call' and x[1].endswith('Workspace::safe_join') for x in src)
            ctx.ob('C12.1', op_cl, 'mutated-path-resolved:%s#%d' % (mu.name, pi), src_ok, 'the mutated path comes from safe_join', line=mu.line)

    # ---------------------------------------------------------------- C12.2
    call = [s for s in f.sites() if s.callee == op_cl.path]
    if len(call) != 1:
        raise CheckError('C12.2: the operation closure is expected to be called once')
    call = call[0]
    rev = f.calls(r'Workspace::revert_paths$')
    ctx.floor('C12.2', 'revert_paths calls', len(rev), 1)
    # Ok edge of the result test
    ok_edges = []
    for (bi, on, ts, els) in switches(f):
        o = f.origin(on)
        if o[0] == 'rv' and o[1]['k'] == 'discr' and call.dest['l'] in reads_locals(f, {'c': o[1]['pl']}):
            # discriminant 0 = Ok
            for v, tb in ts.items():
                if v == '0':
                    ok_edges.append((bi, tb))
            if '1' in ts and '0' not in ts:
                ok_edges.append((bi, els))
    if not ok_edges:
        raise CheckError('C12.2: the result of the operation closure is not tested (unrecognised idiom)')
    r = f.reach(call.bb, stop=[x.bb for x in rev], skip_edges=ok_edges)
    esc = [b for b in f.returns() if b in r]
    ctx.ob('C12.2', f, 'revert-on-every-error-path', not esc, 'after the operations ran, a return is reachable only through revert_paths or the Ok edge', line=rev[0].line)
    for x in rev:
        u = f.root_local(x.args[1])
        ctx.ob('C12.2', f, 'revert-gets-undo-list', u is not None and 'core::option::Option<alloc::vec::Vec<u8>>' in f.lty(u), 'revert_paths receives the undo entries', line=x.line)
    rp = P.fn('rip_workspace::Workspace::revert_paths')
    ctx.touch(rp)
    # revert restores bytes or removes created files
    # the restore loop may be written as `undo.into_iter().rev().for_each(|(path, previous)| ..)`: look into the closures too
    rp_fam = [rp] + list(P.closures_of(rp.path))
    ctx.ob('C12.2', rp, 'revert-restores', any(g.calls(r'^std::fs::write$') for g in rp_fam) and any(g.calls(r'^std::fs::remove_file$') for g in rp_fam), 'revert_paths writes back previous bytes and removes files that did not exist', line=rp.line)

    # ---------------------------------------------------------------- C12.3
    parse = f.calls(r'^rip_workspace::patch::Patch::parse$')
    if not parse:
        raise CheckError('C12.3: apply_patch does not call Patch::parse')
    e = ok_edge_of_try(f, parse[0])
    ctx.ob('C12.3', f, 'parse-before-effects', e is not None and e[1] is not None and f.edge_dom(e[0], e[1], call.bb), 'the operation closure runs only after Patch::parse(..)? succeeded', line=parse[0].line)
    stray = [s for s in f.calls(MUT)]
    ctx.ob('C12.3', f, 'no-stray-mutation', not stray, 'apply_patch itself performs no fs mutation outside the operation closure / revert_paths', line=stray[0].line if stray else f.line)
    pp = P.fn('rip_workspace::patch::Patch::parse')
    E = Effects(P)
    par = P.reach_fns([pp.path])
    bad = [p for p in par if any(k in E.direct(p) for k in ('FsWrite', 'FsRead', 'ProcSpawn'))]
    ctx.ob('C12.3', pp, 'parser-is-pure', not bad, 'Patch::parse touches no file (%d functions reachable)' % len(par), line=pp.line)

    # ---------------------------------------------------------------- C12.5
    ctx.rule('C12.5', 'rollback visits every entry: the loop of revert_paths over the undo entries leaves only at iterator exhaustion — an I/O error on one entry (a created file that is already gone, an unwritable directory) must not abort the restoration of the others.')
    from ..core import switches as _sw
    lps = rp.loops()
    if not lps:
        # iterator form: for_each visits every entry by construction; try_for_each / find / any / take_while can stop early
        users = []
        for s_ in rp.sites():
            for a in s_.args:
                o = rp.origin(a)
                if o[0] == 'rv' and o[1].get('ak') == 'closure' and o[1].get('def') in P.fns and P.fns[o[1]['def']].calls(r'^std::fs::(write|remove_file)$'):
                    users.append(s_)
        if not users:
            raise CheckError('C12.5: revert_paths neither loops over the undo entries nor hands a restoring closure to an iterator adaptor')
        early = [u for u in users if not re.search(r'::(for_each|map|filter_map|fold|inspect)$', u.callee)]
        ctx.ob('C12.5', rp, 'revert-visits-every-entry', not early, 'the undo entries are restored by %s: %s' % (', '.join(sorted({u.name for u in users})),
               'every entry is visited' if not early else 'the adaptor can stop at the first failing entry'), line=users[0].line)
        lps = None
    if lps is not None:
        h, body = max(lps.items(), key=lambda kv: len(kv[1]))
        exits = [(a, b) for a in body for b in rp.succs(a) if b not in body and rp.blocks[b]['t']['k'] != 'unreachable']
        bad = []
        for (a, b) in exits:
            t = rp.blocks[a]['t']
            ok = False
            if t['k'] == 'switch':
                o = rp.origin(t['on'])
                if o[0] == 'rv' and o[1]['k'] == 'discr':
                    d1 = rp.single_def(o[1]['pl']['l'])
                    ok = bool(d1 and d1[2] == 'call' and re.search(r'Iterator>::next$|Iterator::next$', (d1[3]['f'].get('r') or d1[3]['f'].get('p') or '')))
            if not ok:
                bad.append((a, b))
        ctx.ob('C12.5', rp, 'revert-visits-every-entry', not bad,
               'the restore loop %s' % ('ends only when the undo list is exhausted' if not bad else
                                        'can be LEFT EARLY (a `?` / return inside it, line %s): one failing entry leaves every later entry un-restored — the failed patch stays half applied' % rp.blocks[bad[0][0]]['t'].get('ln')),
               line=rp.blocks[bad[0][0]]['t'].get('ln') if bad else rp.line)


    # ---------------------------------------------------------------- C12.6
    ctx.rule('C12.6', 'the success result names what was touched: every file mutation in the operation closure (write / remove / rename of a safe_join result) is followed, on every non-error path to the next operation, by a push into the changed-files list of the patch-relative path that was resolved into it.')
    def reads_after(g, mu_, push_):
        """what the pushed name derives from ON THE PATHS THROUGH the mutation: when the pushed value is a local with
        several definitions (`let final_path = match moved_to { Some(m) => { ..; m } None => { ..; path } }`), only the
        definitions that lie between the mutation and the push count for that mutation."""
        out = set()
        work = [push_.args[1]]
        seen_l = set()
        while work:
            o = work.pop()
            pl = op_place(o)
            if pl is None:
                continue
            l = pl['l']
            if l in seen_l:
                continue
            seen_l.add(l)
            out.add(l)
            ds = list(g.defs(l))
            if len(ds) > 1:
                h_ = g.innermost_loop(mu_.bb)
                same_iter = g.reach(mu_.bb, stop=[h_] if h_ is not None else [])       # without starting the next operation
                on_path = [d_ for d_ in ds if d_[0] in same_iter and d_[0] != h_ and push_.bb in g.reach(d_[0], stop=[h_] if h_ is not None else [])]
                if on_path:
                    ds = on_path
            for (bi, si, kind, payload, _ln) in ds:
                ops = payload['a'] if kind == 'call' else payload.get('a', [])
                for a in ops:
                    work.append(a)
                if kind != 'call' and 'pl' in payload:
                    work.append({'c': payload['pl']})
        return out
    joins = {}
    for j in op_cl.calls(r'Workspace::safe_join$'):
        x = op_cl.root_local(j.args[1], through_calls=(r'::as_ref$', r'::deref$', r'::as_path$'))
        d0 = j.dest['l']
        # the resolved PathBuf after `?`
        joins[d0] = x
    pushes6 = op_cl.calls(r'alloc::vec::Vec::push$', full=r'Vec::<alloc::string::String>::push')
    errs6 = [s_.bb for s_ in op_cl.calls(r'FromResidual<.*>>::from_residual$')] + [bi for (bi, si, st) in op_cl.aggregates(r'^core::result::Result$', 'Err')]
    n6 = 0
    for mu in muts:
        for pi in ([0, 1] if mu.name == 'rename' else [0]):
            # which safe_join produced this path?
            rl = reads_locals(op_cl, mu.args[pi])
            xs = {x for d0, x in joins.items() if d0 in rl and x is not None}
            if len(xs) != 1:
                continue
            x = next(iter(xs))
            n6 += 1
            pbs = [p_.bb for p_ in pushes6 if x in reads_after(op_cl, mu, p_)]
            h6 = op_cl.innermost_loop(mu.bb)
            targets = list(op_cl.returns()) + ([h6] if h6 is not None else [])
            ok = bool(pbs) and op_cl.must_pass(pbs + errs6, mu.bb, targets) if not any(op_cl.dom(b, mu.bb) for b in pbs) else True
            ctx.ob('C12.6', op_cl, 'reported:%s#%d' % (mu.name, pi), ok,
                   '%s of the path resolved from `%s` %s' % (mu.name, op_cl.lname(x), 'is reported in the changed-files list on every successful path' if ok else
                                                        'is NOT reported on some successful path: the result of a successful patch no longer names every file it touched'), line=mu.line)
    ctx.floor('C12.6', 'mutations of resolved patch paths', n6, 4)

    # ---------------------------------------------------------------- C12.7
    ctx.rule('C12.7', 'file content is decoded strictly: nothing reachable from Workspace::apply_patch inside rip_workspace decodes bytes lossily (from_utf8_lossy / from_utf16_lossy / from_utf8_unchecked) — a text update of a file that is not valid UTF-8 must be refused, not "succeed" while rewriting the invalid bytes of untouched lines as U+FFFD.')
    par7 = [P.fns[p_] for p_ in sorted(P.reach_fns([APPLY])) if p_ in P.fns and P.fns[p_].crate == 'rip_workspace']
    strict = [s_ for g in par7 for s_ in g.calls(r'^alloc::string::String::from_utf8$|^core::str::converts::from_utf8$')]
    lossy = [(g, s_) for g in par7 for s_ in g.calls(r'::from_utf8_lossy$|::from_utf16_lossy$|::from_utf8_unchecked$|::from_utf8_lossy_owned$')]
    ctx.floor('C12.7', 'functions of rip_workspace reachable from apply_patch', len(par7), 4)
    ctx.ob('C12.7', f, 'no-lossy-decode', not lossy, '%d function(s) of rip_workspace reachable from apply_patch, %d strict decode(s); %s' % (len(par7), len(strict), 'no lossy decode' if not lossy else
           '%s decodes with %s: invalid bytes of lines the patch does not touch are rewritten' % (lossy[0][0].path, lossy[0][1].name)), line=lossy[0][1].line if lossy else f.line)

    # ---------------------------------------------------------------- C12.8
    from .c05 import tmp_unique_in_workspace
    tmp_unique_in_workspace(ctx, 'C12.8', 'the patch never names it, so the undo log does not record it and a rollback cannot bring it back.', crates=('rip_workspace',))
    ctx.ob('C12.8', 'workspace', 'workspace-tmp-scanned', True, 'tmp + rename pairs of rip-workspace scanned')

    # ---------------------------------------------------------------- C12.9
    ctx.rule('C12.9', 'one section, one operation, in order: the parser only ever appends to the list of operations — nothing in rip_workspace::patch reaches back into an operation that was already parsed (last_mut / get_mut / iter_mut / IndexMut / pop / retain on a Vec<PatchOp>). Sections are applied one after the other, each to the file as the previous one left it; folding a later section into an earlier one changes where its hunks search and which occurrence they edit.')
    back = []
    npush = 0
    for p_, g in sorted(P.fns.items()):
        if not p_.startswith('rip_workspace::patch::'):
            continue
        for s_ in g.sites():
            if not s_.args or not any('PatchOp' in x for x in s_.ga + [g.lty(r_) or '' for r_ in [g.root_local(s_.args[0], through_calls=(r'::deref_mut$', r'::deref$'))] if r_ is not None]):
                continue
            if re.search(r'alloc::vec::Vec::<T, A>::push$', s_.callee or ''):
                npush += 1
                ctx.touch(g)
            if re.search(r'::(last_mut|first_mut|get_mut|iter_mut|pop|retain|retain_mut|remove|swap_remove|truncate|drain|split_off|dedup\w*)$|IndexMut<.*>>::index_mut$', s_.callee or ''):
                back.append((g, s_))
    ctx.floor('C12.9', 'pushes of parsed operations', npush, 3)
    ctx.ob('C12.9', back[0][0] if back else 'rip_workspace::patch', 'parsed-ops-append-only', not back,
           '%d push site(s); no operation is edited or removed after it was parsed' % npush if not back else
           '%s reaches back into the parsed operations (line %s): an earlier section is rewritten by a later one instead of being followed by it' % (back[0][1].name, back[0][1].line), line=back[0][1].line if back else 0)

    # ---------------------------------------------------------------- C12.10
    ctx.rule('C12.10', 'each changed file is reported once: Vec::dedup only merges neighbours, so every dedup / dedup_by / dedup_by_key in rip_workspace, rip_tools and ripd '
             '(the changed-files list of apply_patch, the side-effects summary of a run) is dominated by a sort of the same vector in the same function. A patch that names a.txt, b.txt, '
             'a.txt otherwise reports three changed files for two.')
    THR10 = (r'::deref$', r'::deref_mut$', r'::as_mut_slice$', r'::as_mut$')
    n10 = 0
    for g in [x for x in P.fns.values() if x.crate in ('rip_workspace', 'rip_tools', 'ripd')]:
        for s_ in g.calls(r'Vec::<T, A>::(dedup|dedup_by|dedup_by_key)$'):
            n10 += 1
            root = g.root_local(s_.args[0], through_calls=THR10)
            so = [x for x in g.calls(r'::(sort|sort_unstable|sort_by|sort_by_key|sort_unstable_by|sort_unstable_by_key|sort_by_cached_key)$')
                  if x.args and g.root_local(x.args[0], through_calls=THR10) == root and g.dom(x.bb, s_.bb)]
            ctx.ob('C12.10', g, 'dedup-after-sort:' + s_.name, bool(so), '%s %s' % (s_.name, 'follows a sort of the same vector' if so else
                   'WITHOUT a preceding sort of that vector: only adjacent duplicates are merged, a path named by non-adjacent operations is listed more than once'), line=s_.line)
    ctx.floor('C12.10', 'dedup sites in the workspace crates', n10, 2)

    # ---------------------------------------------------------------- C12.11
    ctx.rule('C12.11', 'an update that edits nothing is either refused by the parser or applied without touching the bytes: the applier rewrites every updated file through split-lines / '
             'apply-hunks / join-lines, which is the identity only for uniform line endings — so EITHER the emptiness test of the hunk list in the parser has no true edge that reaches the '
             'construction of PatchOp::UpdateFile (zero-hunk sections are refused whatever else they carry), OR the UpdateFile arm of the applier branches on the emptiness of the hunks itself. '
             'A parser that lets `Update File` + `Move to` through without hunks, with the applier unchanged, moves a file with mixed line endings to different bytes.')
    from ..inline import inline_calls as _inl11
    reach11 = []
    nagg11 = 0
    for p_, g0 in sorted(P.fns.items()):
        if not p_.startswith('rip_workspace::patch') or '{closure' in p_:
            continue
        g = _inl11(P, g0, lambda body, callee: callee.startswith('rip_workspace::patch::') and not callee.endswith('::parse_rel_path'), depth=2)
        for (bi, si, st) in g.aggregates(r'rip_workspace::patch::PatchOp$'):
            rv = st['rv']
            if rv.get('variant') != 'UpdateFile' or 'hunks' not in rv['fields']:
                continue
            nagg11 += 1
            hop = rv['a'][rv['fields'].index('hunks')]
            hl = g.root_local(hop)
            hset = reads_locals(g, hop) | {hl}
            for e_ in g.calls(r'Vec::<T, A>::is_empty$|<impl \[T\]>::is_empty$'):
                if not e_.args or g.root_local(e_.args[0], through_calls=(r'::deref$', r'::as_slice$')) not in hset:
                    continue
                sw = g.switch_on_call(e_)
                if sw is None:
                    continue
                bb_, ts_, els_, neg_ = sw
                true_t = ts_.get('0') if neg_ else els_
                if true_t is not None and (true_t == bi or g.can_reach(true_t, bi)):
                    reach11.append((g, e_))
    ctx.floor('C12.11', 'constructions of PatchOp::UpdateFile in the parser', nagg11, 1)
    applier11 = False
    for g in workspace_helpers11(P):
        for e_ in g.calls(r'Vec::<T, A>::is_empty$|<impl \[T\]>::is_empty$'):
            o_ = g.origin(e_.args[0], through_calls=(r'::deref$', r'::as_slice$')) if e_.args else ('?',)
            if o_[0] == 'local' and any(isinstance(pp, dict) and pp.get('n') == 'hunks' for pp in o_[2]):
                applier11 = True
            elif e_.args and g.lname(g.root_local(e_.args[0], through_calls=(r'::deref$', r'::as_slice$')) or 0) == 'hunks':
                applier11 = True
    ok11 = not reach11 or applier11
    ctx.ob('C12.11', reach11[0][0] if reach11 else 'rip_workspace::patch', 'zero-hunk-update-refused-or-byte-exact', ok11,
           ('zero-hunk updates are refused by the parser on every path' if not reach11 else 'the parser lets a zero-hunk update through, and the applier branches on the emptiness of the hunks') if ok11 else
           'the parser lets an `Update File` section WITHOUT hunks reach PatchOp::UpdateFile (the emptiness test has a true edge to it), and the applier has no branch for it: the file is rewritten through split / join lines',
           line=reach11[0][1].line if reach11 else 0)
