"""C15 — provider stream decoding (thin structural clauses) + C01.6 pipe offset siblings."""
import re

from ..core import CheckError, Site, op_const, op_place, switches
from ..prov import fields_read, reads_locals, sources

MAPPER = 'rip_provider_openresponses::EventFrameMapper::'
PIPE = 'ripd::session::OpenResponsesSsePipe::'


PIPE_ADT = 'ripd::session::OpenResponsesSsePipe'


def field_names(projs):
    return [pp.get('n') for pp in projs if isinstance(pp, dict) and 'f' in pp]


def str_chain(fn, op, depth=12):
    out = []
    cur = [op]
    seen = set()
    while cur and depth > 0:
        depth -= 1
        nxt = []
        for o_ in cur:
            for x in sources(fn, o_, extra_transparent=(r'::to_string$', r'::to_owned$', r'::into$', r'String::from$', r'::as_str$', r'::as_ref$', r'::unwrap_or$', r'::unwrap_or_default$')):
                if x[0] == 'call' and (x[1], x[2]) not in seen:
                    seen.add((x[1], x[2]))
                    cs_ = [c_ for c_ in fn.sites() if c_.bb == x[2]]
                    if cs_ and cs_[0].args:
                        out.append(cs_[0])
                        nxt.append(cs_[0].args[0])
        cur = nxt
    return out


def run(ctx):
    P = ctx.prog
    ctx.not_decided = 'that SseDecoder::push / push_bytes give the same events for every partition of the byte stream (carried decoder state across all split positions needs enumeration or an inductive argument, not a shape rule); that output text is the concatenation of the deltas.'
    ctx.rule('C15.1', 'one provider frame per parsed event, payload untouched: EventFrameMapper::map calls emit_provider_event exactly once on every path, outside loops; emit_provider_event handles every ParsedEventKind variant explicitly; event_name / data / raw / errors / response_errors of the frame come from the same-named fields of the parsed event (clone only); in push_sse_str and finish every iteration over the parsed events reaches mapper.map.')
    ctx.rule('C15.2', 'seq offset siblings (= C01.6): push_sse_str and finish both add self.seq_offset to every mapped frame, take frames.len() before the frames are moved into emit_all, and advance *self.seq by exactly that count after the emission; seq_offset is read from *seq once, in the constructor.')
    ctx.rule('C15.3', 'invalid UTF-8 arms agree: in push_bytes every U+FFFD substitution discards the bytes reported by Utf8Error::error_len (the arm taken depends on where the network split the bytes, so two arms discarding different amounts make the frames chunking-dependent).')

    # ---------------------------------------------------------------- C15.1
    mp = P.fn(MAPPER + 'map')
    ctx.touch(mp)
    ep = mp.calls(r'EventFrameMapper::emit_provider_event$')
    ok = len(ep) == 1 and mp.must_pass(ep[0].bb, 0, mp.returns()) and not mp.in_loop(ep[0].bb)
    ctx.ob('C15.1', mp, 'one-provider-frame', ok, 'emit_provider_event is called %d time(s); exactly once on every path' % len(ep), line=ep[0].line if ep else mp.line)
    epe = P.fn(MAPPER + 'emit_provider_event')
    ctx.touch(epe)
    adt = P.adts.get('rip_provider_openresponses::ParsedEventKind')
    if adt is None:
        raise CheckError('C15.1: ADT ParsedEventKind missing')
    nvar = len(adt['variants'])
    sw = [(bi, on, ts, els) for (bi, on, ts, els) in switches(epe) if epe.origin(on)[0] == 'rv' and epe.origin(on)[1]['k'] == 'discr']
    explicit = False
    for (bi, on, ts, els) in sw:
        o = epe.origin(on)
        if 'kind' in field_names(o[1]['pl'].get('p', [])):
            tgts = set(ts.values())
            # every variant has its own target or the otherwise edge is unreachable
            else_unreach = epe.blocks[els]['t']['k'] == 'unreachable'
            explicit = (len(ts) == nvar) or (len(ts) == nvar - 1 and not else_unreach and els not in tgts) or (len(ts) >= nvar - 1 and else_unreach)
            explicit = explicit and len(set(list(ts.values()) + ([] if else_unreach else [els]))) == nvar
    ctx.ob('C15.1', epe, 'all-kinds-handled', explicit, 'every ParsedEventKind variant (%d) has its own arm in emit_provider_event' % nvar, line=epe.line)
    aggs = epe.aggregates(r'^rip_kernel::EventKind$', 'ProviderEvent')
    if len(aggs) != 1:
        raise CheckError('C15.1: expected one ProviderEvent construction, found %d' % len(aggs))
    rv = aggs[0][2]['rv']
    want = {'event_name': 'event', 'errors': 'errors', 'response_errors': 'response_errors', 'data': 'data', 'raw': 'raw'}
    for fname, op in zip(rv['fields'], rv['a']):
        if fname not in want:
            continue
        src = sources(epe, op)
        fields = fields_read(epe, op, 'rip_provider_openresponses::ParsedEvent')
        calls = {x[1] for x in src if x[0] == 'call'}
        calls = {c for c in calls if not re.search(r'Clone>::clone$|::clone$', c)}
        okf = fields <= {want[fname], 'kind'} and want[fname] in fields and not calls
        ctx.ob('C15.1', epe, 'payload-untouched:' + fname, okf, 'ProviderEvent.%s is built from parsed.%s only (fields read: %s%s)' % (fname, want[fname], sorted(fields), ', calls: %s' % sorted(calls) if calls else ''), line=aggs[0][2].get('ln'))
    from ..inline import inline_calls as _inl15
    observers = {}
    for nm in ('push_sse_str', 'finish'):
        f = P.body(PIPE + nm)
        # a shared "map, number, emit, advance" tail extracted into a private method of the pipe is spliced back in
        f = _inl15(P, f, lambda body, callee: 'OpenResponsesSsePipe' in callee and not re.search(r'::(push_sse_str|push_bytes|finish|emit_transport_error|new)$', callee), depth=1, note=ctx.note)
        ctx.touch(f)
        observers[nm] = (f, f.calls(r'ToolCallCollector::observe$'))
        maps = f.calls(r'EventFrameMapper::map$')
        if len(maps) != 1:
            raise CheckError('C15.1: %s is expected to call mapper.map once (found %d)' % (nm, len(maps)))
        m = maps[0]
        h = f.innermost_loop(m.bb)
        if h is None:
            ctx.ob('C15.1', f, 'map-in-loop', False, 'mapper.map is not inside the loop over the parsed events', line=m.line)
        else:
            body = f.loops()[h]
            # every cycle through the loop header passes the map call: from the header's in-loop successors, header unreachable when map removed
            succ_in = [s for s in f.succs(h) if s in body]
            r = f.reach(succ_in, stop=[m.bb])
            back = any(h in f.succs(b) for b in r if b in body and b != m.bb)
            ctx.ob('C15.1', f, 'every-event-mapped', not back, 'every iteration over the parsed events %s mapper.map' % ('passes' if not back else 'can SKIP'), line=m.line)

        # ------------------------------------------------------------ C15.2
        lens = f.calls(r'alloc::vec::Vec::len$', full=r'Vec::<rip_kernel::Event>::len')
        emits = f.calls(r'EventSink::emit_all$')
        if not lens or not emits:
            ctx.ob('C15.2', f, 'count-before-move', False, 'frames.len() / emit_all not found', line=f.line)
            continue
        ctx.ob('C15.2', f, 'count-before-move', any(f.dom(l.bb, e.bb) for l in lens for e in emits), 'frames.len() is taken before the frames are moved into emit_all', line=lens[0].line)
        # offset loop
        off = []
        adv = []
        for bi in f.reachable():
            for st in f.blocks[bi]['s']:
                rvv = st.get('rv')
                if rvv and rvv['k'] == 'bin' and rvv['op'].startswith('Add'):
                    a0 = f.origin(rvv['a'][0])
                    a1 = f.origin(rvv['a'][1])
                    n0 = field_names(a0[2]) if a0[0] == 'local' else []
                    n1 = field_names(a1[2]) if a1[0] == 'local' else []
                    is_ev_seq = 'seq' in n0 and any(isinstance(pp, dict) and pp.get('o') == 'rip_kernel::Event' for pp in a0[2])
                    if is_ev_seq and ('seq_offset' in n1 or 'seq_offset' in fields_read(f, rvv['a'][1], PIPE_ADT)):
                        off.append((bi, st.get('ln')))
                    if 'seq' in n0 and 'seq_offset' not in n1 and not any(isinstance(pp, dict) and pp.get('o') == 'rip_kernel::Event' for pp in a0[2]):
                        srcs = sources(f, rvv['a'][1])
                        if any(x[0] == 'call' and x[1].endswith('::len') for x in srcs):
                            adv.append((bi, st.get('ln')))
        ok_off = len(off) == 1 and f.in_loop(off[0][0]) and f.can_reach(m.bb, off[0][0]) and all(f.can_reach(off[0][0], e.bb) for e in emits)
        if not off:
            # iterator form: frames.iter_mut().for_each(|frame| frame.seq += offset) with the captured offset read from self.seq_offset
            for fe in f.calls(r'Iterator::for_each$|::for_each$'):
                if not (f.can_reach(m.bb, fe.bb) and all(f.can_reach(fe.bb, e.bb) for e in emits) and not f.in_loop(fe.bb)):
                    continue
                o = f.origin(fe.args[1]) if len(fe.args) > 1 else None
                if not (o and o[0] == 'rv' and o[1].get('ak') == 'closure' and o[1].get('def') in P.fns):
                    continue
                cf = P.fns[o[1]['def']]
                caps = o[1]['a']
                hit = False
                for bi2 in cf.reachable():
                    for st2 in cf.blocks[bi2]['s']:
                        r2 = st2.get('rv')
                        if r2 and r2['k'] == 'bin' and r2['op'].startswith('Add'):
                            b0 = cf.origin(r2['a'][0])
                            if b0[0] == 'local' and 'seq' in field_names(b0[2]) and any(isinstance(pp, dict) and pp.get('o') == 'rip_kernel::Event' for pp in b0[2]):
                                b1 = cf.origin(r2['a'][1])
                                # the other operand is an upvar: field i of the closure environment (local 1)
                                if b1[0] == 'local' and b1[1] == 1:
                                    idxs = [pp['f'] for pp in b1[2] if isinstance(pp, dict) and 'f' in pp]
                                    if idxs and idxs[0] < len(caps) and 'seq_offset' in fields_read(f, caps[idxs[0]], PIPE_ADT):
                                        hit = True
                if hit:
                    off.append((fe.bb, fe.line))
                    ok_off = True
        ctx.ob('C15.2', f, 'offset-added', ok_off,
               'every mapped frame gets seq += self.seq_offset before emission (%d site)' % len(off), line=off[0][1] if off else f.line)
        okadv = len(adv) == 1 and not f.in_loop(adv[0][0]) and all(f.dom(e.bb, adv[0][0]) for e in emits)
        ctx.ob('C15.2', f, 'advance-by-count', okadv, '*self.seq is advanced once by the frame count, after emit_all (%d site)' % len(adv), line=adv[0][1] if adv else f.line)
    newp = P.fn(PIPE + 'new', required=False)
    # siblings agree on feeding the tool-call collector: every parsed event the one hands to collector.observe the other
    # hands too (a call whose output_item.done is only flushed by finish() at the end of a [DONE]-less stream must be
    # collected like any other, or it is logged but never executed and never answered)
    obs_n = {nm: len(v[1]) for nm, v in observers.items()}
    same_obs = len(set(bool(n_) for n_ in obs_n.values())) == 1
    for nm, (f_, obs_) in observers.items():
        in_loop = all(f_.in_loop(o_.bb) for o_ in obs_)
        ctx.ob('C15.2', f_, 'siblings-feed-collector', same_obs and in_loop, '%s hands parsed events to ToolCallCollector::observe at %d site(s); sibling counts: %s' % (nm, len(obs_), obs_n) +
               ('' if same_obs else ' — the siblings DISAGREE: tool calls decoded by the one that does not observe are never executed or answered'), line=obs_[0].line if obs_ else f_.line)
    if newp is not None:
        ctx.touch(newp)
        aggs = newp.aggregates(r'OpenResponsesSsePipe$')
        okn = False
        for (bi, si, st) in aggs:
            rv = st['rv']
            if 'seq_offset' in rv['fields']:
                o = newp.origin(rv['a'][rv['fields'].index('seq_offset')])
                okn = o[0] == 'local' and '*' in o[2] and (newp.lname(o[1]) == 'seq' or (1 <= o[1] <= newp.argc and newp.lty(o[1]).startswith('&mut u64')))
        ctx.ob('C15.2', newp, 'offset-from-seq-at-construction', okn, 'seq_offset = *seq at construction', line=newp.line)
    writers = 0
    for p, f in P.fns.items():
        if not p.startswith('ripd::session::'):
            continue
        for bi in f.reachable():
            for st in f.blocks[bi]['s']:
                d = st.get('d')
                if d and any(isinstance(pp, dict) and pp.get('n') == 'seq_offset' and pp.get('o', '').endswith('OpenResponsesSsePipe') for pp in d.get('p', [])):
                    writers += 1
    ctx.ob('C15.2', 'ripd::session::OpenResponsesSsePipe', 'offset-never-reassigned', writers == 0, 'seq_offset is assigned after construction at %d site(s)' % writers)

    # ---------------------------------------------------------------- C15.3
    pb = P.body(PIPE + 'push_bytes')
    # an arm of the invalid-UTF-8 handling extracted into a private method of the pipe is spliced back in
    from ..inline import inline_calls, contains
    _w15 = contains(rx_calls=r'OpenResponsesSsePipe::push_sse_str$')
    pb = inline_calls(P, pb, lambda body, callee: 'OpenResponsesSsePipe' in callee and not re.search(r'::(push_sse_str|push_bytes|finish|emit_transport_error|new)$', callee) and _w15(body, callee), depth=1, note=ctx.note)
    ctx.touch(pb)
    subs = []
    for s in pb.calls(r'OpenResponsesSsePipe::push_sse_str$'):
        o = pb.origin(s.args[1])
        if o[0] == 'const' and o[1].get('str') == '�':
            subs.append(s)
    ctx.floor('C15.3', 'U+FFFD substitutions in push_bytes', len(subs), 2)
    discards = pb.calls(r'alloc::vec::Vec::(remove|drain|truncate|clear|split_off)$')
    for s in subs:
        # the nearest dominating discard of utf8_buf
        cands = [d for d in discards if pb.dom(d.bb, s.bb) and d.name in ('remove', 'drain')]
        # choose the closest dominating one (dominated by all other candidates)
        near = None
        for d in cands:
            if all(pb.dom(o.bb, d.bb) for o in cands):
                near = d
        if near is None:
            ctx.ob('C15.3', pb, 'discard-error-len', False, 'no discard of the invalid bytes precedes the substitution', line=s.line)
            continue
        if near.name == 'drain':
            src = sources(pb, near.args[1])
            ok = any(x[0] == 'call' and x[1].endswith('Utf8Error::error_len') for x in src)
            how = 'drain(..n) with n from error_len' if ok else 'drain with a length not derived from error_len'
        else:
            ok = False
            how = 'Vec::remove(0): ONE byte, whatever error_len says — the sibling arm discards error_len bytes, so the number of U+FFFD frames depends on the chunk boundary'
        ctx.ob('C15.3', pb, 'discard-error-len', ok, 'before substituting U+FFFD the buffer is shortened by ' + how, line=near.line)

    # ---------------------------------------------------------------- C15.4
    ctx.rule('C15.4', 'no bypass of the carry-over buffer: in push_bytes every text handed to the decoder was first appended to utf8_buf (extend_from_slice dominates the push), or the push is reachable only when utf8_buf is empty — bytes of a sequence split by the network must never be skipped over.')
    ext = [c for c in pb.calls(r'alloc::vec::Vec::<T, A>::extend_from_slice$|alloc::vec::Vec::extend_from_slice$') if pb.lname(pb.root_local(c.args[0], through_calls=(r'::deref_mut$',)) or 0) == 'utf8_buf' or True]
    empties = []
    for e in pb.calls(r'alloc::vec::Vec::<T, A>::is_empty$'):
        sw = pb.switch_on_call(e)
        if sw:
            bb, ts, els, neg = sw
            empties.append((bb, ts.get('0') if neg else els))
    pushes_ = pb.calls(r'OpenResponsesSsePipe::push_sse_str$')
    for s_ in pushes_:
        ok = any(pb.dom(c.bb, s_.bb) for c in ext) or any(t is not None and pb.edge_dom(bb, t, s_.bb) for (bb, t) in empties)
        ctx.ob('C15.4', pb, 'through-carry-buffer', ok, 'text reaches the decoder %s' % ('only after the chunk was appended to the carry-over buffer (or with the buffer empty)' if ok else
               'on a path that BYPASSES the carry-over buffer: pending bytes of a split sequence are skipped or re-ordered'), line=s_.line)

    # ---------------------------------------------------------------- C15.5
    ctx.rule('C15.5', 'the chunk joins the pending line buffer untouched: in SseDecoder::push the text appended to self.buffer is the `chunk` parameter itself (transparent conversions only) and that append dominates every other use of the parameter. Any rewrite of the chunk alone (replace / trim / split / lines ...) is stateless across pushes, so what it produces depends on where the network split the bytes (CR | LF, field name | colon, ...); line handling must work on the buffer, after the append.')
    TRANSPARENT_TXT = r'::as_ref$|::deref$|::as_str$|::borrow$|::to_string$|::to_owned$|::clone$|::into$|::from$|::as_bytes$|::len$|::is_empty$'
    dec = P.fn('rip_provider_openresponses::SseDecoder::push')
    ctx.touch(dec)
    apps = [c for c in dec.calls(r'^alloc::string::String::(push_str|insert_str|extend)$|String as core::ops::arith::AddAssign<&str>>::add_assign$|String as core::iter::traits::collect::Extend')
            if ('param', 1) in sources(dec, c.args[0])]
    if not apps:
        raise CheckError('C15.5: SseDecoder::push does not append to its buffer (anchor missing)')
    first = [c for c in apps if all(dec.dom(c.bb, x.bb) for x in apps)]
    a0 = first[0] if first else apps[0]
    src = sources(dec, a0.args[-1])
    calls_in = sorted({x[1] for x in src if x[0] == 'call' and not re.search(TRANSPARENT_TXT, x[1])})
    from_chunk = ('param', 2) in src
    ctx.ob('C15.5', dec, 'chunk-appended-verbatim', from_chunk and not calls_in,
           'the first append to the line buffer takes %s' % ('the chunk parameter itself' if from_chunk and not calls_in else
           'a REWRITTEN chunk (%s): a per-chunk rewrite cannot see the previous chunk, so a CR LF / field split by the network is decoded differently' % (', '.join(c.rsplit('::', 1)[-1] for c in calls_in) or 'not the parameter')), line=a0.line)
    early = []
    for s_ in dec.sites():
        if s_.bb == a0.bb or dec.dom(a0.bb, s_.bb) or re.search(TRANSPARENT_TXT, s_.callee):
            continue
        if any(2 in reads_locals(dec, a) for a in s_.args):
            early.append(s_)
    ctx.ob('C15.5', dec, 'no-use-of-chunk-before-append', not early,
           'no call consumes the raw chunk before it joined the buffer' if not early else
           '%s reads the raw chunk before it is buffered (line %d): its result depends on the chunk boundary' % (early[0].name, early[0].line), line=early[0].line if early else a0.line)

    # ---------------------------------------------------------------- C15.9
    ctx.rule('C15.9', 'the unfinished tail is carried over, never interpreted: in SseDecoder::push the iteration that parks the last (possibly incomplete) line for the next push — every definition of the value that becomes self.buffer after the loop — touches no other decoder field (current_event / current_data) on its way from the loop head. A field update decided by a line whose end the network has not delivered yet (the empty split artefact after a trailing LF is such a line) makes the decoded events depend on where the bytes were cut.')
    DECADT = 'rip_provider_openresponses::SseDecoder'
    from ..inline import inline_calls as _inl9
    # per-line handling may sit in a private method of the decoder (`handle_line`): it is spliced in
    dec_whole = _inl9(P, dec, lambda body, callee: callee.startswith('rip_provider_openresponses::SseDecoder::') and not callee.endswith('::parse_event') and not callee.endswith('::push'), depth=2, note=ctx.note)

    def dec_field(pl):
        # any place reached through a reference to the decoder (self, or a spliced helper's self)
        if not isinstance(pl, dict):
            return None
        for pp in pl.get('p', []):
            if isinstance(pp, dict) and pp.get('o') == DECADT:
                return pp.get('n')
        return None

    def c159(dec):
        buf_sets = [(bi, st) for bi, b in enumerate(dec.blocks) if not dec.is_cleanup(bi) for st in b['s'] if dec_field(st.get('d')) == 'buffer' and st.get('rv', {}).get('k') == 'use']
        lp = dec.loops()
        after = [(bi, st) for bi, st in buf_sets if not any(bi in body for body in lp.values())]
        tail_l = set()
        reads = set()
        for bi, st in after:
            l_ = dec.root_local(st['rv']['a'][0], through_calls=(r'::unwrap_or_default$', r'::unwrap_or$', r'::unwrap_or_else$', r'::take$'))
            if l_ is not None:
                tail_l.add(l_)
            reads |= reads_locals(dec, st['rv']['a'][0])
        heads = set(lp)
        def defined_in_a_loop(l_):
            return any(any(h != d_[0] and dec.dom(h, d_[0]) for h in heads) for d_ in dec.defs(l_))
        if not lp or not after or not any(defined_in_a_loop(l_) for l_ in reads | tail_l):
            # the tail is cut off before the line loop runs (rsplit_once / a scan for the last LF): no iteration of the
            # loop ever holds an incomplete line, there is nothing to park
            ctx.ob('C15.9', dec, 'tail-cut-before-the-loop', bool(after), 'what becomes self.buffer is computed outside the line loop: the loop only ever sees complete lines' if after else 'SseDecoder::push never stores a tail', line=after[0][1].get('ln') if after else dec.line)
            return
        if len(tail_l) != 1:
            raise CheckError('C15.9: the carried-over tail of SseDecoder::push was not identified (buffer assignments after the loop: %d, candidates %s)' % (len(buf_sets), sorted(tail_l)))
        tl = next(iter(tail_l))
        n9 = 0
        for h9, body in lp.items():
            for (db, di, dst) in [(bi, si, st) for bi in range(len(dec.blocks)) if not dec.is_cleanup(bi) and bi != h9 and dec.dom(h9, bi) for si, st in enumerate(dec.blocks[bi]['s']) if st.get('d', {}).get('l') == tl and not st['d'].get('p')]:
                n9 += 1
                # blocks of this iteration that lie on a path head -> parking block (no second pass through the head)
                on_path = {x for x in range(len(dec.blocks)) if (x == h9 or x in dec.reach_from_after(h9, stop=(h9,))) and (x == db or db in dec.reach_from_after(x, stop=(h9,)))}
                touched = []
                for x in sorted(on_path):
                    for st in dec.blocks[x]['s']:
                        fl = dec_field(st.get('d'))
                        if fl and fl != 'buffer':
                            touched.append((fl, st.get('ln')))
                        rv = st.get('rv', {})
                        if rv.get('k') == 'ref' and rv.get('mut') and dec_field(rv.get('pl')) not in (None, 'buffer'):
                            touched.append((dec_field(rv.get('pl')), st.get('ln')))
                ctx.ob('C15.9', dec, 'tail-parked-without-state-change', not touched,
                       'the iteration that parks the tail (line %s) changes no decoder field besides the buffer' % dst.get('ln') if not touched else
                       'self.%s is modified (line %s) on the way to parking the tail at line %s: the update is decided by a line that may be incomplete, so a chunk ending at that point decodes differently from the unsplit stream' % (touched[0][0], touched[0][1], dst.get('ln')), line=dst.get('ln'))
        ctx.floor('C15.9', 'tail-parking sites in SseDecoder::push', n9, 2)
    c159(dec_whole)
    dec_plain = dec
    dec = dec_whole

    # ---------------------------------------------------------------- C15.10
    ctx.rule('C15.10', 'whether an event is dispatched is decided by how many data lines it had, not by what they contained: the innermost test guarding parse_event in SseDecoder::push that looks at a decoder field must not be the emptiness / length of accumulated TEXT (String / str) — `data:` followed by a blank line is a server-sent event with an empty payload and owes a frame (and an empty first line of a multi-line payload must survive).')
    pe_calls = dec.calls(r'SseDecoder::parse_event$')
    ctx.floor('C15.10', 'parse_event calls in SseDecoder::push', len(pe_calls), 1)
    for pe in pe_calls:
        guards = []
        for (bi, on, ts, els) in switches(dec):
            if not dec.dom(bi, pe.bb) or bi == pe.bb:
                continue
            o = dec.origin(on)
            if o[0] == 'call' and o[1].args:
                recv = o[1].args[0]
                src_ = sources(dec, recv)
                fld = [x for x in src_ if x[0] == 'field' and x[1] in ('current_data', 'current_event')] if False else None
                rl = reads_locals(dec, recv)
                if 1 in rl:
                    guards.append((bi, o[1]))
        if not guards:
            ctx.ob('C15.10', dec, 'dispatch-by-line-count', True, 'parse_event is not guarded by a test of decoder state', line=pe.line)
            continue
        gb, gs = max(guards, key=lambda g_: len([x for x in range(len(dec.blocks)) if dec.dom(x, g_[0])]))
        texty = bool(re.search(r'^core::str::<impl str>::(is_empty|len)$|^alloc::string::String::(is_empty|len)$', gs.callee or ''))
        ctx.ob('C15.10', dec, 'dispatch-by-line-count', not texty,
               'the dispatch test is %s' % (gs.callee.rsplit('::', 2)[-2] + '::' + gs.name if not texty else
               '%s on accumulated TEXT (line %s): an event whose data is the empty string yields no frame, and "no data line yet" cannot be told from "one empty data line"' % (gs.name, gs.line)), line=gs.line)

    # ---------------------------------------------------------------- C15.11
    ctx.rule('C15.11', 'a data line is stored as it came: the text pushed onto the pending data of an event derives from the buffered line through the line-end CR strip (trim_end_matches with the constant \'\\r\'), the field-prefix strip and the leading-space strip only — no trailing / two-sided trim, no case change, no replace. Trailing whitespace is payload (the raw of a non-JSON event, the inner line ends of a multi-line payload), and a whitespace-only line is not the blank line that ends an event.')

    n11 = 0
    for pu in dec.sites():
        if not re.search(r'Vec::<T, A>::push$|String::push_str$', pu.callee or '') or len(pu.args) < 2:
            continue
        if dec_field(dec.origin(pu.args[0], through_calls=(r'::deref_mut$',))[1].get('pl') if dec.origin(pu.args[0])[0] == 'rv' else None) != 'current_data' and 'current_data' not in str(dec.origin(pu.args[0], through_calls=(r'::deref_mut$',))):
            continue
        n11 += 1
        chain = str_chain(dec, pu.args[1])
        bad11 = []
        for c_ in chain:
            nm = c_.name
            if nm in ('trim', 'trim_end', 'trim_matches', 'trim_ascii', 'trim_ascii_end', 'to_lowercase', 'to_uppercase', 'to_ascii_lowercase', 'to_ascii_uppercase', 'replace', 'replacen', 'strip_suffix', 'trim_right', 'trim_right_matches'):
                bad11.append(c_)
            if nm == 'trim_end_matches':
                k = op_const(c_.args[1]) if len(c_.args) > 1 else None
                if k is None or str(k.get('v')) not in ('13', "'\\r'", '\r', "'\r'"):
                    bad11.append(c_)
        ctx.ob('C15.11', dec, 'data-line-verbatim', not bad11,
               'the stored data line goes through %s' % (' <- '.join(c_.name for c_ in chain) or 'no string operation') if not bad11 else
               'the stored data line goes through %s (line %s): trailing whitespace of the payload is cut off — the frame no longer carries what the provider sent, and a whitespace-only line ends the event early' % (bad11[0].name, bad11[0].line), line=pu.line)
    ctx.floor('C15.11', 'pushes onto the pending data lines', n11, 1)
    dec = dec_plain
    # ---------------------------------------------------------------- C15.6
    ctx.rule('C15.6', 'payload verbatim at the source: every ParsedEvent the decoder builds stores its raw / data / event fields straight from the constructor parameters (through Some / clone only) — never the result of a validation or normalisation helper (validation works on a copy; the frame carries what the provider sent). And in OpenResponsesSsePipe::push_sse_str every chunk reaches SseDecoder::push, unconditionally and unmodified: a chunk skipped because of what it contains (blank, padding) changes where events end.')
    TRANSP = r'::clone$|::to_string$|::to_owned$|::into$|::from$|::as_ref$|::deref$|::as_str$|::borrow$'

    def leaf_sources(g, op, depth=0):
        out = set()
        for x in sources(g, op):
            if x[0] == 'agg' and x[1].endswith('Option::Some') and depth < 3:
                # look inside Some(..)
                for (bi2, si2, st2) in g.aggregates(r'^core::option::Option$', 'Some'):
                    if bi2 == x[2]:
                        out |= leaf_sources(g, st2['rv']['a'][0], depth + 1)
            else:
                out.add(x)
        return out
    npe = 0
    for p_, g in sorted(P.fns.items()):
        if g.crate != 'rip_provider_openresponses':
            continue
        for (bi, si, st) in g.aggregates(r'rip_provider_openresponses::ParsedEvent$'):
            rv = st['rv']
            for fld in ('raw', 'data', 'event'):
                if fld not in rv['fields']:
                    continue
                npe += 1
                ls = leaf_sources(g, rv['a'][rv['fields'].index(fld)])
                bad = sorted((x for x in ls if x[0] == 'call' and not re.search(TRANSP, x[1])), key=str)
                ctx.ob('C15.6', g, 'parsed-payload-verbatim:' + fld, not bad,
                       'ParsedEvent.%s %s' % (fld, 'comes from the constructor parameter (or is None)' if not bad else
                                              'is the RESULT of %s: the frame no longer carries the payload the provider sent' % bad[0][1].rsplit('::', 1)[-1]), line=st.get('ln'))
    ctx.floor('C15.6', 'payload fields of ParsedEvent constructions', npe, 9)
    ps = P.body('ripd::session::OpenResponsesSsePipe::push_sse_str')
    ctx.touch(ps)
    dps = ps.calls(r'^rip_provider_openresponses::SseDecoder::push$')
    if len(dps) != 1:
        raise CheckError('C15.6: push_sse_str is expected to call SseDecoder::push once (found %d)' % len(dps))
    dp = dps[0]
    src = sources(ps, dp.args[1])
    # the coroutine body reads its arguments through the captured environment (local 1)
    verbatim = bool(src) and all(x[0] in ('param', 'upvar') or (x[0] == 'call' and re.search(TRANSP, x[1])) for x in src)
    every = ps.must_pass([dp.bb], 0, ps.returns())
    # ... and the bytes handed to the pipe are the chunk the network delivered, whole: no per-chunk strip / slice /
    # split before push_bytes (a BOM stripped from the first chunk only is decoded differently when the network
    # splits inside it)
    P.body('ripd::session::stream_openresponses_request')
    # wherever the session module feeds the pipe (the request function, or a body-pump helper extracted from it)
    pbs = [s_ for p_, g_ in sorted(P.fns.items()) if p_.startswith('ripd::session::') and 'OpenResponsesSsePipe' not in p_
           for s_ in g_.calls(r'OpenResponsesSsePipe::<\'a>::push_bytes$|OpenResponsesSsePipe::push_bytes$|OpenResponsesSsePipe<.*>::push_bytes$')]
    ctx.floor('C15.6', 'push_bytes calls in the session module', len(pbs), 2)
    for pb in pbs:
        sreq = pb.fn
        ch_ = str_chain(sreq, pb.args[-1])
        cut = [c_ for c_ in ch_ if re.search(r'::(strip_prefix|strip_suffix|trim\w*|split\w*|slice|split_off|split_to|advance|truncate|skip|drain|get|get_unchecked|index|to_ascii_\w+|replace\w*)$', c_.callee or '') and 'Try' not in (c_.callee or '')]
        ctx.touch(sreq)
        ctx.ob('C15.6', sreq, 'whole-chunk-to-the-pipe', not cut,
               'the pipe is fed the chunk as the network delivered it' if not cut else
               'the bytes handed to push_bytes went through %s (line %s): a per-chunk cut sees only this chunk, so the same bytes split elsewhere decode differently' % (cut[0].name, cut[0].line), line=pb.line)
    ctx.ob('C15.6', ps, 'every-chunk-reaches-decoder', verbatim and every,
           'SseDecoder::push %s' % ('receives every chunk, unmodified' if verbatim and every else
                                    ('can be SKIPPED (a return is reachable without it): a blank / padding chunk that carries a line end is lost, events merge or are never dispatched' if not every else 'receives a rewritten chunk')), line=dp.line)

    # ---------------------------------------------------------------- C15.7
    ctx.rule('C15.7', 'a transport-error frame ends the pipe: emit_transport_error stamps its frame from the session seq directly, behind the back of the frame mapper (whose frames are numbered mapper count + seq_offset) — so no mapped emission (push_bytes / push_sse_str / finish) may be reachable after it, neither in the users of the pipe nor inside its own methods (private helpers spliced in). A trace frame emitted between two decoded events makes the next decoded frame repeat its seq.')
    ERRF = r'OpenResponsesSsePipe(::<.a>)?::emit_transport_error$'
    MAPPED = r'OpenResponsesSsePipe(::<.a>)?::(push_bytes|push_sse_str|finish)$'
    bodies7 = []
    for p_, g in sorted(P.fns.items()):
        if g.crate != 'ripd' or not g.calls(ERRF):
            continue
        if 'OpenResponsesSsePipe' in p_ and re.search(r'::emit_transport_error', p_):
            continue
        bodies7.append(g)
    for meth in ('push_bytes', 'push_sse_str', 'finish'):
        mb = P.body(PIPE + meth, required=False)
        if mb is None:
            continue
        mb = inline_calls(P, mb, lambda body, callee: 'OpenResponsesSsePipe' in callee and not re.search(r'::(push_sse_str|push_bytes|finish|emit_transport_error|new)$', callee), depth=1)
        if mb.calls(ERRF) and mb not in bodies7:
            bodies7.append(mb)
    n7 = 0
    for g in bodies7:
        es = g.calls(ERRF)
        ms = g.calls(MAPPED)
        for e_ in es:
            n7 += 1
            late = [m_ for m_ in ms if m_.bb != e_.bb and g.can_reach(e_.bb, m_.bb)]
            ctx.ob('C15.7', g, 'error-frame-is-last', not late, 'after emit_transport_error %s' % ('no mapped emission is reachable' if not late else
                   '%s (line %d) is still reachable: the mapper does not know the seq the error frame used, the next decoded frame repeats it' % (late[0].name, late[0].line)), line=e_.line)
    ctx.floor('C15.7', 'emit_transport_error call sites', n7, 4)

    # ---------------------------------------------------------------- C15.8
    ctx.rule('C15.8', 'what counts as a text delta is decided by the payload alone: output_text_delta (helpers of the crate spliced in) reads no field of the ParsedEvent other than `data` — in particular not the SSE `event:` name, which providers and proxies set freely (`event: message`) and which is not part of the payload the frames carry.')
    otd = P.fn('rip_provider_openresponses::output_text_delta')
    otd = inline_calls(P, otd, lambda body, callee: callee.startswith('rip_provider_openresponses::') and len(body.blocks) < 200, depth=2, note=ctx.note)
    ctx.touch(otd)
    read8 = set()
    for bi in otd.reachable():
        bl = otd.blocks[bi]
        places = []
        for st in bl['s']:
            rv = st.get('rv')
            if rv:
                places += [op_place(o) for o in rv.get('a', [])] + ([rv['pl']] if 'pl' in rv else [])
        if bl['t']['k'] == 'call':
            places += [op_place(o) for o in bl['t']['a']]
        for pl in places:
            if pl:
                for pp in pl.get('p', []):
                    if isinstance(pp, dict) and pp.get('o', '').endswith('::ParsedEvent'):
                        read8.add(pp['n'])
    ctx.ob('C15.8', otd, 'delta-decided-by-payload', bool(read8) and read8 <= {'data'}, 'output_text_delta reads ParsedEvent.%s' % sorted(read8) + ('' if read8 <= {'data'} else
           ': a delta sent under another SSE event name is no longer recognised, the derived text is not the concatenation of the deltas'), line=otd.line)

    # ---------------------------------------------------------------- C15.12
    ctx.rule('C15.12', 'what the pipe does depends on the events the decoder hands out, never on what is still pending inside it: in ripd::session every call of an SseDecoder method '
             'other than push / finish / the constructors has a result that no branch reads (a diagnostic accessor may be logged, not decided on). How much of a line is pending is a '
             'property of where the network cut the stream: a size guard evaluated on it fires for one chunking and not for another of the same bytes.')
    n12 = 0
    bad12 = []
    for g in [x for x in P.fns.values() if x.crate == 'ripd' and x.path.startswith('ripd::session::')]:
        for s_ in g.calls(r'^rip_provider_openresponses::SseDecoder::'):
            n12 += 1
            if re.search(r'::(push|finish|new|new_with_validation|default)$', s_.callee) or s_.dest is None:
                continue
            for (bi, on, ts, els) in switches(g):
                if s_.dest['l'] in (reads_locals(g, on) | {(op_place(on) or {}).get('l')}):
                    bad12.append((g, s_))
                    break
            else:
                # the value leaves the function (returned / stored): judged where it is branched on is out of reach — treat a returned decoder-state value as a decision too
                rets = [st for bi in g.reachable() for st in g.blocks[bi]['s'] if st.get('d', {}).get('l') == 0 and 'rv' in st]
                if any(s_.dest['l'] in reads_locals(g, a) for st in rets for a in st['rv'].get('a', []) if op_place(a)):
                    bad12.append((g, s_))
    ctx.floor('C15.12', 'decoder calls in the provider pipe', n12, 3)
    ctx.ob('C15.12', 'ripd::session', 'no-decision-on-pending-state', not bad12,
           ('%d decoder calls in the pipe; only push / finish results are acted on' % n12) if not bad12 else
           '%s branches on %s: the outcome depends on where the chunk boundary fell' % (bad12[0][0].path, bad12[0][1].callee), line=bad12[0][1].line if bad12 else 0)

    # ---------------------------------------------------------------- C15.13
    ctx.rule('C15.13', 'the decoder is total on arbitrary text: no byte-offset string operation that panics off a UTF-8 boundary (str range indexing, split_at, String::truncate / drain / '
             'replace_range / insert / remove / split_off) in the SSE decoder of rip_provider_openresponses or in the provider pipe of ripd::session, unless the same function derives or tests '
             'the offset (char_indices / find / strip_prefix results / is_char_boundary / len_utf8). Comment lines, unknown fields and the U+FFFD the pipe substitutes for invalid bytes put '
             'multi-byte characters at the start of lines; a panic in the decoder loses every later frame of the response.')
    from .common import char_boundary_ops
    roots13 = [p_ for p_ in P.fns if re.match(r'^rip_provider_openresponses::SseDecoder::', p_) or p_.startswith('ripd::session::OpenResponsesSsePipe')]
    reach13 = set(P.reach_fns(roots13)) | set(roots13)
    scope13 = [P.fns[p_] for p_ in sorted(reach13) if p_ in P.fns and P.fns[p_].crate in ('rip_provider_openresponses', 'ripd') and
               (P.fns[p_].crate == 'rip_provider_openresponses' or p_.startswith('ripd::session::'))]
    ops13 = char_boundary_ops(P, scope13)
    ctx.ob('C15.13', 'rip_provider_openresponses::SseDecoder', 'decoder-functions-scanned', True, '%d decoder / pipe functions scanned, %d byte-offset string operation(s)' % (len(scope13), len(ops13)))
    ctx.floor('C15.13', 'decoder / pipe functions scanned for byte-offset string operations', len(scope13), 6)
    for (g, s_, guarded) in ops13:
        ctx.ob('C15.13', g, 'cut-on-char-boundary:' + s_.name, guarded, '%s %s' % (s_.name, 'with the offset derived / tested in the same function' if guarded else
               'with an UNCHECKED byte offset: a line whose character straddles it panics the decoder'), line=s_.line)
