"""C01 — per-stream total order (structural clauses).
C01.1 seq chosen + appended + advanced inside ONE live range of the next_seq guard
C01.2 who may call EventLog::append / EventLog::new
C01.3 EventLog::append writes and flushes under the writer guard
C01.4 TaskEmitter::emit: the task seq guard spans read, publish, record, append; one advance
C01.5 seq-cell typestate for every session / tool / provider frame construction
C01.6 provider pipe offset siblings"""
import re

from ..core import CheckError, Site, op_base, op_const, op_local, op_place
from ..prov import derives_from_local, sources

SEQ_GUARD = r"^std::sync::poison::mutex::MutexGuard<'_, std::collections::hash::map::HashMap<alloc::string::String, u64>>$"
WRITER_GUARD = r"^std::sync::poison::mutex::MutexGuard<'_, std::io::buffered::bufwriter::BufWriter<std::fs::File>>$"
TOKIO_U64_GUARD = r"^tokio::sync::mutex::MutexGuard<'_, u64>$"
APPEND = r'^rip_log::EventLog::append$'
STORE = 'ripd::continuities::ContinuityStore::'
ALLOWED_APPENDERS = {
    'ripd::session::emit_event::{closure#0}': 'session frames: recorded into the session buffer, seq from the session cell (C01.5)',
    'ripd::tasks::TaskEmitter::emit::{closure#0}': 'task frames: seq under the task seq lock (C01.4)',
}


def event_aggregate_for(fn, site):
    """the `Event { .. }` aggregate whose address is the second argument of EventLog::append."""
    l = fn.root_local(site.args[1])
    if l is None:
        return None, None
    for (bi, si, kind, payload, ln) in fn.defs(l):
        if kind == 'rv' and payload['k'] == 'agg' and payload.get('adt') == 'rip_kernel::Event':
            return l, payload
    return l, None


def ok_edge_of_try(fn, site):
    """(switch_block, ok_target) of the `?` applied to the result of `site` (possibly
    through map_err)."""
    cur = site
    for _ in range(4):
        # result local -> next call consuming it
        l = cur.dest['l']
        nxt = None
        for (bi, si, how, payload) in fn.uses(l):
            if how.startswith('arg') and si == 't':
                s2 = Site(fn, bi, payload)
                if re.search(r'Try>::branch$', s2.callee):
                    sw = fn.switch_on_call(s2)
                    if sw is None:
                        return None
                    return (sw[0], sw[1].get('0'))
                if re.search(r'::map_err$', s2.callee):
                    nxt = s2
        if nxt is None:
            return None
        cur = nxt
    return None


def run(ctx):
    P = ctx.prog
    ctx.not_decided = 'numeric contiguity of the value recovered after a restart (see C05.5 / K-C05-seq-from-cache); uniqueness of UUID session ids.'
    ctx.rule('C01.1', 'every EventLog::append in ContinuityStore lies in the live range of the next_seq MutexGuard; the appended Event.seq derives from the guarded map (get / load_next_seq_for); the map is advanced by insert(id, seq+1) on the Ok edge of the append, still under the guard, on every path to the success return; nothing else writes the map before the append except the recovery insert of the same seq.')
    ctx.rule('C01.2', 'who-may-call: EventLog::append is called only from ContinuityStore append sites (C01.1), session::emit_event and TaskEmitter::emit; EventLog::new only from SessionEngine::new.')
    ctx.rule('C01.3', 'in EventLog::append every write_all and the flush happen while the writer MutexGuard is live.')
    ctx.rule('C01.4', 'in TaskEmitter::emit the tokio guard of the task seq cell is live at the Event construction, the broadcast send, the buffer push and the log append, and the cell is advanced exactly once on every path.')

    # ------------------------------------------------------------------ C01.1 / C01.2
    sites = P.callers(APPEND)
    store_sites = [s for s in sites if s.fn.path.startswith(STORE)]
    ctx.floor('C01.1', 'EventLog::append sites in ContinuityStore', len(store_sites), 14)
    for s in store_sites:
        fn = s.fn
        short = fn.path[len(STORE):]
        held = fn.held_at(s.bb, SEQ_GUARD)
        ctx.ob('C01.1', fn, 'locked', bool(held),
               'append %s the next_seq guard' % ('inside live range of `%s`' % fn.lname(held[0]) if held else 'is NOT inside a live range of'), line=s.line)
        evl, agg = event_aggregate_for(fn, s)
        if agg is None:
            raise CheckError('C01.1: cannot find the Event aggregate appended in %s (unrecognised idiom)' % fn.path)
        seq_op = agg['a'][agg['fields'].index('seq')]
        if not held:
            # stream created in this very function: seq must be a constant
            k = op_const(seq_op)
            ctx.ob('C01.1', fn, 'seq-source', k is not None,
                   'unguarded append uses %s seq' % ('constant %s' % k.get('v') if k else 'a NON-constant'), line=s.line)
            continue
        g = held[0]
        src = sources(fn, seq_op)
        calls = {x[1] for x in src if x[0] == 'call'}
        oksrc = bool(calls) and all(re.search(r'hash::map::HashMap::<K, V, S, A>::get$|ContinuityStore::load_next_seq_for$', c) for c in calls) \
            and not [x for x in src if x[0] not in ('call',)]
        ctx.ob('C01.1', fn, 'seq-source', oksrc,
               'Event.seq derives from %s' % sorted(x[1].rsplit('::', 2)[-2] + '::' + x[1].rsplit('::', 1)[-1] if x[0] == 'call' else str(x[:2]) for x in src), line=s.line)
        seq_local = fn.root_local(seq_op)
        # advance
        inserts = fn.calls(r'hash::map::HashMap::insert$')
        inserts = [i for i in inserts if derives_from_local(fn, i.args[0], g)]
        edge = ok_edge_of_try(fn, s)
        adv = []
        pre = []
        for i in inserts:
            vsrc = sources(fn, i.args[2])
            is_plus1 = any(x[0] == 'bin' and x[1].startswith('Add') for x in vsrc)
            if is_plus1:
                adv.append(i)
            if fn.can_reach(i.bb, s.bb):
                pre.append((i, is_plus1, vsrc))
        good_adv = None
        for i in adv:
            # value is seq + 1
            plus = None
            o = fn.origin(i.args[2])
            # find the Add statement
            for x in sources(fn, i.args[2]):
                if x[0] == 'bin':
                    for st in fn.blocks[x[2]]['s']:
                        rv = st.get('rv')
                        if rv and rv['k'] == 'bin' and rv['op'].startswith('Add'):
                            c = op_const(rv['a'][1])
                            if fn.root_local(rv['a'][0]) == seq_local and c and c.get('v') == '1':
                                plus = True
            on_ok = edge is not None and edge[1] is not None and fn.edge_dom(edge[0], edge[1], i.bb)
            still = g in fn.held_at(i.bb, SEQ_GUARD)
            if plus and on_ok and still:
                good_adv = i
        ctx.ob('C01.1', fn, 'advance', good_adv is not None,
               'insert(id, seq+1) %s' % ('on the Ok edge of the append, under the guard' if good_adv else 'is missing / not on the Ok edge of the append / not under the guard / not seq+1'), line=s.line)
        if good_adv is not None and edge is not None:
            okrets = [r for r in fn.returns()]
            # every path from the Ok edge target to a return passes the advance
            ctx.ob('C01.1', fn, 'advance-on-every-success-path', fn.must_pass(good_adv.bb, edge[1], okrets),
                   'every path from the successful append to the return passes the advance', line=good_adv.line)
        bad_pre = [i for (i, plus, vs) in pre if plus or fn.root_local(i.args[2]) is None
                   or not (fn.root_local(i.args[2]) == seq_local or derives_from_local(fn, seq_op, fn.root_local(i.args[2])))]
        ctx.ob('C01.1', fn, 'no-early-write', not bad_pre,
               'writes of the seq map that can precede the append: %d, all are the recovery insert of the same seq' % len(pre) if not bad_pre
               else 'the seq map is written with a different value before the append (line %d)' % bad_pre[0].line, line=s.line)

    other = [s for s in sites if not s.fn.path.startswith(STORE)]
    for s in other:
        ok = s.fn.path in ALLOWED_APPENDERS
        ctx.ob('C01.2', s.fn, 'appender', ok,
               ('audited appender: ' + ALLOWED_APPENDERS[s.fn.path]) if ok else
               'EventLog::append is called from a function outside the audited writer set (no seq discipline is checked for it)', line=s.line)
    ctx.floor('C01.2', 'non-store appenders', len(other), 2)
    news = P.callers(r'^rip_log::EventLog::new$')
    ctx.floor('C01.2', 'EventLog::new callers', len(news), 1)
    for s in news:
        ok = s.fn.path == 'ripd::runner::SessionEngine::new'
        ctx.ob('C01.2', s.fn, 'log-constructor', ok,
               'EventLog::new called from %s' % s.fn.path, line=s.line)

    # ------------------------------------------------------------------ C01.3
    app = P.fn('rip_log::EventLog::append')
    ws = app.calls(r'std::io::Write>::(write_all|write|flush|write_fmt)$|std::io::Write::(write_all|write|flush|write_fmt)$')
    ctx.floor('C01.3', 'writes in EventLog::append', len(ws), 2)
    for s in ws:
        ctx.ob('C01.3', app, 'under-writer-lock:' + s.name, bool(app.held_at(s.bb, WRITER_GUARD)),
               '%s happens %s the writer guard' % (s.name, 'under' if app.held_at(s.bb, WRITER_GUARD) else 'OUTSIDE'), line=s.line)

    # ------------------------------------------------------------------ C01.4
    emit = P.body('ripd::tasks::TaskEmitter::emit')
    aggs = emit.aggregates(r'^rip_kernel::Event$')
    ctx.floor('C01.4', 'Event constructions in TaskEmitter::emit', len(aggs), 1)
    steps = [('construct', aggs[0][0], aggs[0][2].get('ln', 0))]
    for nm, rx in (('send', r'tokio::sync::broadcast::Sender::send$'), ('push', r'alloc::vec::Vec::push$'), ('append', APPEND)):
        cs = emit.calls(rx)
        if not cs:
            raise CheckError('C01.4: TaskEmitter::emit has no %s call (anchor missing)' % nm)
        for c in cs:
            steps.append((nm, c.bb, c.line))
    for nm, bb, ln in steps:
        held = emit.held_at(bb, TOKIO_U64_GUARD)
        ctx.ob('C01.4', emit, 'seq-lock-held:' + nm, bool(held), '%s %s the task seq guard' % (nm, 'under' if held else 'OUTSIDE'), line=ln)
    # exactly one advance on every path: Add statements writing through the guard
    adv_blocks = []
    for bi in sorted(emit.reachable()):
        for st in emit.blocks[bi]['s']:
            rv = st.get('rv')
            if rv and rv['k'] == 'bin' and rv['op'].startswith('Add') and op_const(rv['a'][1]) and op_const(rv['a'][1]).get('v') == '1':
                srcs = sources(emit, rv['a'][0])
                if any(x[0] == 'call' and re.search(r'tokio::sync::mutex::Mutex::<T>::lock', x[1]) for x in srcs):
                    adv_blocks.append((bi, st.get('ln', 0)))
    ok = len(adv_blocks) == 1 and emit.must_pass(adv_blocks[0][0], 0, emit.returns()) and not emit.in_loop(adv_blocks[0][0])
    ctx.ob('C01.4', emit, 'single-advance', ok, 'the seq cell is advanced at %d site(s); exactly one, on every path, outside loops' % len(adv_blocks),
           line=adv_blocks[0][1] if adv_blocks else emit.line)
    c015(ctx)


# ---------------------------------------------------------------------- C01.5 seq cell typestate
def c015(ctx):
    pass
