"""C01 — per-stream total order (structural clauses).
C01.1 seq chosen + appended + advanced inside ONE live range of the next_seq guard
C01.2 who may call EventLog::append / EventLog::new
C01.3 EventLog::append writes and flushes under the writer guard
C01.4 TaskEmitter::emit: the task seq guard spans read, publish, record, append; one advance
C01.5 seq-cell typestate for every session / tool / provider frame construction
C01.6 provider pipe offset siblings"""
import re

from ..core import switches, CheckError, Site, op_base, op_const, op_local, op_place
from ..prov import derives_from_local, reads_locals, sources

SEQ_GUARD = r"^std::sync::poison::mutex::MutexGuard<'_, std::collections::hash::map::HashMap<alloc::string::String, u64>>$"
WRITER_GUARD = r"^std::sync::poison::mutex::MutexGuard<'_, std::io::buffered::bufwriter::BufWriter<std::fs::File>>$"
TOKIO_U64_GUARD = r"^tokio::sync::mutex::MutexGuard<'_, u64>$"
APPEND = r'^rip_log::EventLog::append$'
STORE = 'ripd::continuities::ContinuityStore::'
ALLOWED_APPENDERS = {
    'ripd::session::emit_event::{closure#0}': 'session frames: recorded into the session buffer, seq from the session cell (C01.5)',
    'ripd::tasks::TaskEmitter::emit::{closure#0}': 'task frames: seq under the task seq lock (C01.4)',
}


def event_aggregate_for(fn, site, P=None):
    """the `Event { .. }` aggregate whose address is the second argument of EventLog::append.
    When the frame is built by a private constructor fn (`fn xyz_frame(seq, ..) -> Event`), the
    constructor's aggregate is returned with its parameter operands replaced by the arguments of
    the call, so the caller's provenance questions (where does seq come from?) keep working."""
    l = fn.root_local(site.args[1])
    if l is None:
        return None, None
    for (bi, si, kind, payload, ln) in fn.defs(l):
        if kind == 'rv' and payload['k'] == 'agg' and payload.get('adt') == 'rip_kernel::Event':
            return l, payload
    if P is not None:
        for (bi, si, kind, payload, ln) in fn.defs(l):
            if kind != 'call':
                continue
            callee = payload['f'].get('r') or payload['f'].get('p') or ''
            h = P.fns.get(callee)
            if h is None or h.crate != fn.crate or 'rip_kernel::Event' not in (P.sigs.get(callee) or {}).get('output', ''):
                continue
            aggs = h.aggregates(r'^rip_kernel::Event$')
            if len(aggs) != 1:
                continue
            rv = aggs[0][2]['rv']
            ops = []
            for o in rv['a']:
                r = h.root_local(o, through_calls=(r'::clone$', r'::to_string$', r'::to_owned$', r'::into$'))
                if r is not None and 1 <= r <= h.argc and len(payload['a']) == h.argc:
                    ops.append(payload['a'][r - 1])
                else:
                    ops.append({'k': {'ty': '?', 'opaque': True}})
            pseudo = dict(rv)
            pseudo['a'] = ops
            pseudo['via_constructor'] = callee
            return l, pseudo
    return l, None


class LiftedAppend:
    """a call of a private store helper that forwards its `&Event` parameter to EventLog::append
    and propagates the append's failure: seen from the caller it IS the append (the caller holds
    the seq guard, builds the frame and advances the map on the helper's Ok edge)."""

    def __init__(self, call, ev_index, helper):
        self.fn = call.fn
        self.bb = call.bb
        self.line = call.line
        self.args = [call.args[0], call.args[ev_index]]
        self.dest = call.dest
        self.callee = call.callee
        self.name = call.name
        self.t = call.t
        self.helper = helper


def logical_append_sites(P, sites):
    """EventLog::append sites of the store, with forwarding helpers replaced by their call sites."""
    out = []
    for s_ in sites:
        h = s_.fn
        l = h.root_local(s_.args[1], through_calls=(r'::deref$', r'::as_ref$', r'::borrow$'))
        if l is not None and 1 <= l <= h.argc and 'rip_kernel::Event' in h.lty(l) and ok_edge_of_try(h, s_) is not None:
            calls = [c for f in P.fns.values() for c in f.sites() if c.callee == h.path and f.path.startswith(STORE)]
            if calls:
                for c in calls:
                    out.append(LiftedAppend(c, l - 1, h))
                continue
        out.append(s_)
    return out


SEQ_PRIMS = r'hash::map::HashMap::<K, V, S, A>::get$|ContinuityStore::load_next_seq_for$'


def seq_source_call_ok(P, fn, src, guard, depth=0):
    """the seq comes from the guarded map / the recovery loader — directly, or through a
    workspace helper that is handed the guarded map (argument derived from the guard) and whose
    own return value comes from those same primitives."""
    callee = src[1]
    if re.search(SEQ_PRIMS, callee):
        return True
    helper = P.fns.get(callee)
    if helper is None or depth > 2 or not callee.startswith(STORE):
        return False
    site = next((s for s in fn.sites() if s.bb == src[2] and s.callee == callee), None)
    if site is None or not any(derives_from_local(fn, a, guard) for a in site.args if op_place(a)):
        return False
    # the helper's return value: every Ok(..) / direct return derives from the primitives
    rets = [st['rv']['a'][0] for (bi, si, st) in helper.aggregates(r'^core::result::Result$', 'Ok') if st['d']['l'] == 0]
    if not rets:
        rets = [{'c': {'l': 0}}]
    for r in rets:
        hs = sources(helper, r)
        hc = [x for x in hs if x[0] == 'call']
        if not hc or [x for x in hs if x[0] not in ('call',)]:
            return False
        if not all(re.search(SEQ_PRIMS, x[1]) for x in hc):
            return False
    return True


def ok_edge_of_try(fn, site):
    """(switch_block, ok_target) of the error test applied to the Result of `site`: the `?`
    operator (possibly through map_err), or its hand-written equivalents — `match r { Ok(v) => ..,
    Err(e) => return .. }`, `if let Err(e) = r { return .. }`, `if r.is_err() { return .. }`.
    For the hand-written forms the Err edge must not fall through to the code after the test
    (it returns), otherwise the result is merely inspected, not propagated."""
    cur = site
    for _ in range(4):
        # result local -> next call consuming it
        l = cur.dest['l']
        nxt = None
        for (bi, si, how, payload) in fn.uses(l):
            if how.startswith('arg') and si == 't':
                s2 = Site(fn, bi, payload)
                if re.search(r'Try>::branch$', s2.callee):
                    sw = fn.switch_on_call(s2)
                    if sw is None:
                        return None
                    return (sw[0], sw[1].get('0'))
                if re.search(r'::map_err$', s2.callee):
                    nxt = s2
                if re.search(r'Result::<T, E>::(is_err|is_ok)$', s2.callee):
                    sw = fn.switch_on_call(s2)
                    if sw is not None:
                        bb, ts, els, neg = sw
                        true_t, false_t = (ts.get('0'), els) if neg else (els, ts.get('0'))
                        ok_t, err_t = (false_t, true_t) if s2.name == 'is_err' else (true_t, false_t)
                        if ok_t is not None and err_t is not None and _err_edge_returns(fn, err_t, ok_t, bb):
                            return (bb, ok_t)
            elif how == 'stmt' and payload['rv']['k'] == 'discr' and 'p' not in payload['rv']['pl'] and fn.lty(l).startswith('core::result::Result<'):
                d = payload['d']['l']
                for (sbi, on, ts, els) in switches(fn):
                    pl = op_place(on)
                    if pl is not None and 'p' not in pl and pl['l'] == d and sbi == bi:
                        ok_t = ts.get('0') if '0' in ts else (els if '1' in ts else None)
                        err_t = ts.get('1') if '1' in ts else (els if '0' in ts else None)
                        if ok_t is not None and err_t is not None and _err_edge_returns(fn, err_t, ok_t, sbi):
                            return (sbi, ok_t)
        if nxt is None:
            return None
        cur = nxt
    return None


def ok_edge_of_test(fn, site):
    """(switch_block, ok_target) of ANY test of the Result of `site` — `?`, match, `if let`, is_ok /
    is_err — whether or not the Err arm leaves the function. For "runs only when it succeeded" questions."""
    e = ok_edge_of_try(fn, site)
    if e is not None:
        return e
    l = site.dest['l']
    for (bi, si, how, payload) in fn.uses(l):
        if how.startswith('arg') and si == 't':
            s2 = Site(fn, bi, payload)
            if re.search(r'Result::<T, E>::(is_err|is_ok)$', s2.callee):
                sw = fn.switch_on_call(s2)
                if sw is not None:
                    bb, ts, els, neg = sw
                    true_t, false_t = (ts.get('0'), els) if neg else (els, ts.get('0'))
                    return (bb, false_t if s2.name == 'is_err' else true_t)
        elif how == 'stmt' and payload['rv']['k'] == 'discr' and 'p' not in payload['rv']['pl']:
            d = payload['d']['l']
            for (sbi, on, ts, els) in switches(fn):
                pl = op_place(on)
                if pl is not None and 'p' not in pl and pl['l'] == d and sbi == bi:
                    return (sbi, ts.get('0') if '0' in ts else (els if '1' in ts else None))
    return None


def _err_edge_returns(fn, err_t, ok_t, test_bb=None):
    """the Err arm leaves the function (does not come back to what follows the Ok arm). Inside a
    loop the next iteration passes the test again, so both arms are followed only up to it."""
    stop = [test_bb] if test_bb is not None else []
    r = fn.reach(err_t, stop=stop)
    ok_reach = fn.reach(ok_t, stop=stop)
    shared = [b for b in r if b in ok_reach and b != test_bb and fn.blocks[b]['t']['k'] == 'call' and not re.search(r'drop_in_place|::drop$', (fn.blocks[b]['t']['f'].get('r') or fn.blocks[b]['t']['f'].get('p') or ''))]
    if shared:
        return False
    # ... and what it leaves with is not a success: `let Ok(x) = parse(..) else { return Ok(None) }` swallows the failure
    for b in r:
        if b in ok_reach:
            continue
        for st in fn.blocks[b]['s']:
            d = st.get('d') or {}
            rv = st.get('rv') or {}
            if d.get('l') == 0 and not d.get('p') and rv.get('k') == 'agg' and rv.get('adt') == 'core::result::Result' and rv.get('variant') == 'Ok':
                return False
    return True

def run(ctx):
    P = ctx.prog
    ctx.not_decided = 'numeric contiguity of the value recovered after a restart (see C05.5 / K-C05-seq-from-cache); uniqueness of UUID session ids.'
    ctx.rule('C01.1', 'every EventLog::append in ContinuityStore lies in the live range of the next_seq MutexGuard; the appended Event.seq derives from the guarded map (get / load_next_seq_for); the map is advanced by insert(id, seq+1) on the Ok edge of the append, still under the guard, on every path to the success return; nothing else writes the map before the append except the recovery insert of the same seq.')
    ctx.rule('C01.2', 'who-may-call: EventLog::append is called only from ContinuityStore append sites (C01.1), session::emit_event and TaskEmitter::emit; EventLog::new only from SessionEngine::new.')
    ctx.rule('C01.3', 'in EventLog::append every write_all and the flush happen while the writer MutexGuard is live.')
    ctx.rule('C01.4', 'in TaskEmitter::emit the tokio guard of the task seq cell is live at the Event construction, the broadcast send, the buffer push and the log append, and the cell is advanced exactly once on every path.')

    # ------------------------------------------------------------------ C01.1 / C01.2
    sites = P.callers(APPEND)
    store_sites = logical_append_sites(P, [s for s in sites if s.fn.path.startswith(STORE)])
    for s in store_sites:
        if isinstance(s, LiftedAppend):
            ctx.touch(s.helper)
            ctx.note('C01.1: %s forwards its frame to EventLog::append and propagates the failure; its call in %s is treated as the append' % (s.helper.path, s.fn.path))
    ctx.floor('C01.1', 'EventLog::append sites in ContinuityStore', len(store_sites), 13)
    for s in store_sites:
        fn = s.fn
        short = fn.path[len(STORE):]
        held = fn.held_at(s.bb, SEQ_GUARD)
        ctx.ob('C01.1', fn, 'locked', bool(held),
               'append %s the next_seq guard' % ('inside live range of `%s`' % fn.lname(held[0]) if held else 'is NOT inside a live range of'), line=s.line)
        evl, agg = event_aggregate_for(fn, s, P)
        if agg is None:
            raise CheckError('C01.1: cannot find the Event aggregate appended in %s (unrecognised idiom)' % fn.path)
        seq_op = agg['a'][agg['fields'].index('seq')]
        if (op_const(seq_op) or {}).get('opaque'):
            raise CheckError('C01.1: the frame appended in %s is built by %s from a seq that is not one of its parameters (unrecognised idiom)' % (fn.path, agg.get('via_constructor')))
        if not held:
            # no guard: nothing can justify the seq
            k = op_const(seq_op)
            ctx.ob('C01.1', fn, 'seq-source', False, 'unguarded append uses %s seq' % ('constant %s' % k.get('v') if k else 'a non-constant'), line=s.line)
            continue
        kconst = op_const(seq_op)
        if kconst is not None:
            # a constant seq under the guard is only right for the first frames of a stream this
            # very function creates: the stream id is fresh here, frame k is the (k+1)-th append of
            # the function, and next_seq is set to k+1 on its Ok edge, still under the guard
            g = held[0]
            k = int(kconst.get('v'))
            sid = agg['a'][agg['fields'].index('session_id')]
            sid_src = sources(fn, sid)
            fresh = any(x[0] == 'call' and re.search(r'uuid::.*new_v4$', x[1]) for x in sid_src) or any(x[0] == 'param' for x in sid_src)
            earlier = [o for o in store_sites if o.fn is fn and o is not s and fn.dom(o.bb, s.bb)]
            ctx.ob('C01.1', fn, 'seq-source', fresh and len(earlier) == k,
                   'constant seq %d under the guard: %s' % (k, 'the stream id is created in this function and this is its append #%d' % (k + 1) if fresh and len(earlier) == k else
                                                          'NOT the (k+1)-th append of a stream created here'), line=s.line)
            edge = ok_edge_of_try(fn, s)
            okadv = False
            for i in [i for i in fn.calls(r'hash::map::HashMap::insert$') if derives_from_local(fn, i.args[0], g)]:
                kv = op_const(i.args[2])
                if kv is not None and kv.get('v') == str(k + 1) and edge is not None and edge[1] is not None and fn.edge_dom(edge[0], edge[1], i.bb) and g in fn.held_at(i.bb, SEQ_GUARD):
                    okadv = True
            ctx.ob('C01.1', fn, 'advance', okadv, 'next_seq is set to %d on the Ok edge of the append, under the guard: %s' % (k + 1, okadv), line=s.line)
            continue
        g = held[0]
        src = sources(fn, seq_op)
        calls = {x[1] for x in src if x[0] == 'call'}
        oksrc = bool(calls) and all(seq_source_call_ok(P, fn, x, g) for x in src if x[0] == 'call') \
            and not [x for x in src if x[0] not in ('call',)]
        ctx.ob('C01.1', fn, 'seq-source', oksrc,
               'Event.seq derives from %s' % sorted(x[1].rsplit('::', 2)[-2] + '::' + x[1].rsplit('::', 1)[-1] if x[0] == 'call' else str(x[:2]) for x in src), line=s.line)
        seq_local = fn.root_local(seq_op)
        # advance
        inserts = fn.calls(r'hash::map::HashMap::insert$')
        inserts = [i for i in inserts if derives_from_local(fn, i.args[0], g)]
        edge = ok_edge_of_try(fn, s)
        adv = []
        pre = []
        # a private helper that receives the guarded map may do the recovery insert itself
        for i in inserts:
            vsrc = sources(fn, i.args[2])
            is_plus1 = any(x[0] == 'bin' and x[1].startswith('Add') for x in vsrc)
            if is_plus1:
                adv.append(i)
            if fn.can_reach(i.bb, s.bb):
                pre.append((i, is_plus1, vsrc))
        good_adv = None
        for i in adv:
            # value is seq + 1
            plus = None
            o = fn.origin(i.args[2])
            # find the Add statement
            for x in sources(fn, i.args[2]):
                if x[0] == 'bin':
                    for st in fn.blocks[x[2]]['s']:
                        rv = st.get('rv')
                        if rv and rv['k'] == 'bin' and rv['op'].startswith('Add'):
                            c = op_const(rv['a'][1])
                            if fn.root_local(rv['a'][0]) == seq_local and c and c.get('v') == '1':
                                plus = True
            on_ok = edge is not None and edge[1] is not None and fn.edge_dom(edge[0], edge[1], i.bb)
            still = g in fn.held_at(i.bb, SEQ_GUARD)
            if plus and on_ok and still:
                good_adv = i
        ctx.ob('C01.1', fn, 'advance', good_adv is not None,
               'insert(id, seq+1) %s' % ('on the Ok edge of the append, under the guard' if good_adv else 'is missing / not on the Ok edge of the append / not under the guard / not seq+1'), line=s.line)
        if good_adv is not None and edge is not None:
            okrets = [r for r in fn.returns()]
            # every path from the Ok edge target to a return passes the advance
            ctx.ob('C01.1', fn, 'advance-on-every-success-path', fn.must_pass(good_adv.bb, edge[1], okrets),
                   'every path from the successful append to the return passes the advance', line=good_adv.line)
        bad_pre = [i for (i, plus, vs) in pre if plus or fn.root_local(i.args[2]) is None
                   or not (fn.root_local(i.args[2]) == seq_local or derives_from_local(fn, seq_op, fn.root_local(i.args[2])))]
        ctx.ob('C01.1', fn, 'no-early-write', not bad_pre,
               'writes of the seq map that can precede the append: %d, all are the recovery insert of the same seq' % len(pre) if not bad_pre
               else 'the seq map is written with a different value before the append (line %d)' % bad_pre[0].line, line=s.line)

    # seen from the audited writers: an append inside a private helper is followed to the helper's call sites
    other = P.lift_sites([s for s in sites if not s.fn.path.startswith(STORE)], lambda g: g.path in ALLOWED_APPENDERS, depth=2)
    for s in other:
        ok = s.fn.path in ALLOWED_APPENDERS
        ctx.ob('C01.2', s.fn, 'appender', ok,
               ('audited appender: ' + ALLOWED_APPENDERS[s.fn.path]) if ok else
               'EventLog::append is called from a function outside the audited writer set (no seq discipline is checked for it)', line=s.line)
    ctx.floor('C01.2', 'non-store appenders', len(other), 2)
    news = P.callers(r'^rip_log::EventLog::new$')
    ctx.floor('C01.2', 'EventLog::new callers', len(news), 1)
    for s in news:
        ok = s.fn.path == 'ripd::runner::SessionEngine::new'
        ctx.ob('C01.2', s.fn, 'log-constructor', ok,
               'EventLog::new called from %s' % s.fn.path, line=s.line)

    # ------------------------------------------------------------------ C01.3
    from .common import log_append_body
    app = log_append_body(P)
    ws = app.calls(r'std::io::Write>::(write_all|write|flush|write_fmt)$|std::io::Write::(write_all|write|flush|write_fmt)$')
    ctx.floor('C01.3', 'writes in EventLog::append', len(ws), 2)
    for s in ws:
        ctx.ob('C01.3', app, 'under-writer-lock:' + s.name, bool(app.held_at(s.bb, WRITER_GUARD)),
               '%s happens %s the writer guard' % (s.name, 'under' if app.held_at(s.bb, WRITER_GUARD) else 'OUTSIDE'), line=s.line)

    # ------------------------------------------------------------------ C01.4
    emit = P.body('ripd::tasks::TaskEmitter::emit')
    # a frame constructor / a publish-record-append step extracted into a private helper of the task module is spliced in
    from ..inline import inline_calls as _inl, contains as _contains
    _w = _contains(rx_calls=r'tokio::sync::broadcast::Sender::<T>::send$|^alloc::vec::Vec::<T, A>::push$|' + APPEND, rx_aggs=r'^rip_kernel::Event::')
    emit = _inl(P, emit, lambda body, callee: callee.startswith('ripd::tasks::') and _w(body, callee), depth=2, note=ctx.note)
    aggs = emit.aggregates(r'^rip_kernel::Event$')
    ctx.floor('C01.4', 'Event constructions in TaskEmitter::emit', len(aggs), 1)
    steps = [('construct', aggs[0][0], aggs[0][2].get('ln', 0))]
    for nm, rx in (('send', r'tokio::sync::broadcast::Sender::send$'), ('push', r'alloc::vec::Vec::push$'), ('append', APPEND)):
        cs = emit.calls(rx)
        if not cs:
            raise CheckError('C01.4: TaskEmitter::emit has no %s call (anchor missing)' % nm)
        for c in cs:
            steps.append((nm, c.bb, c.line))
    for nm, bb, ln in steps:
        held = emit.held_at(bb, TOKIO_U64_GUARD)
        ctx.ob('C01.4', emit, 'seq-lock-held:' + nm, bool(held), '%s %s the task seq guard' % (nm, 'under' if held else 'OUTSIDE'), line=ln)
    # exactly one advance on every path: Add statements writing through the guard
    adv_blocks = []
    for bi in sorted(emit.reachable()):
        for st in emit.blocks[bi]['s']:
            rv = st.get('rv')
            if rv and rv['k'] == 'bin' and rv['op'].startswith('Add') and op_const(rv['a'][1]) and op_const(rv['a'][1]).get('v') == '1':
                srcs = sources(emit, rv['a'][0])
                if any(x[0] == 'call' and re.search(r'tokio::sync::mutex::Mutex::<T>::lock', x[1]) for x in srcs):
                    adv_blocks.append((bi, st.get('ln', 0)))
    ok = len(adv_blocks) == 1 and emit.must_pass(adv_blocks[0][0], 0, emit.returns()) and not emit.in_loop(adv_blocks[0][0])
    ctx.ob('C01.4', emit, 'single-advance', ok, 'the seq cell is advanced at %d site(s); exactly one, on every path, outside loops' % len(adv_blocks),
           line=adv_blocks[0][1] if adv_blocks else emit.line)
    c015(ctx)
    c017(ctx)
    c018(ctx)
    c019(ctx)
    c0110(ctx)
    c0111(ctx)


# ---------------------------------------------------------------------- C01.5 seq cell typestate
DEREFS = (r'::deref$', r'::deref_mut$')


def cell_sig(f, op):
    """signature of the place a seq operand is loaded from (local + projection names)."""
    o = f.origin(op, through_calls=DEREFS)
    if o[0] != 'local':
        return None
    return (o[1], tuple(pp if pp == '*' else (pp.get('n') or pp.get('f')) if isinstance(pp, dict) and 'f' in pp else '?' for pp in o[2]))


def _cell_ty(f, st):
    rv = st['rv']
    op = rv['a'][rv['fields'].index('seq')]
    b = op_base(op)
    return f.lty(b) if b is not None and not (op_place(op) or {}).get('p') else 'u64'


def c015(ctx):
    """every frame built from a seq cell is followed by exactly one advance of that cell
    before the next frame is built from it or the function returns; no advance without a
    frame. Explored over (block, pending frames)."""
    P = ctx.prog
    ctx.rule('C01.5', 'seq-cell typestate for every session / tool / provider / task frame construction outside ContinuityStore: on every path, a frame that is built from a seq cell and delivered (moved out) is followed by exactly one `cell += 1` before another frame is built from the cell or the function returns, and the cell is never advanced without a frame. A frame that is dropped un-moved does not count; callees that receive `&mut cell` and are in the checked set are balanced steps.')
    fnset = []
    for p, f in sorted(P.fns.items()):
        if p.startswith(STORE) or f.crate not in ('ripd', 'rip_tools', 'rip_kernel', 'rip_provider_openresponses'):
            continue
        aggs = [(bi, si, st) for (bi, si, st) in f.aggregates(r'^rip_kernel::Event$') if op_const(st['rv']['a'][st['rv']['fields'].index('seq')]) is None]
        if aggs:
            fnset.append((f, aggs))
    ctx.floor('C01.5', 'functions building frames from a seq cell', len(fnset), 8)
    # helpers that take the seq BY VALUE (sync parameter, or captured argument of an async fn body) do not own a
    # cell: they are constructors / deliverers, spliced into their callers so the caller's typestate sees the frame
    byval = set()
    constructors = set()
    for f, aggs in fnset:
        sgs = {cell_sig(f, st['rv']['a'][st['rv']['fields'].index('seq')]) for (bi, si, st) in aggs}
        if len(sgs) != 1 or None in sgs:
            continue
        sg = next(iter(sgs))
        sync_param = '*' not in sg[1] and 1 <= sg[0] <= f.argc and f.kind != 'Closure'
        outer = f.path[:-len('::{closure#0}')] if f.path.endswith('::{closure#0}') else None
        async_param = False
        if outer is not None and P.async_body(outer) is f and '*' not in sg[1]:
            if sg[0] == 1 and sg[1]:
                async_param = True
            else:
                # `let seq = <captured argument>`: the named re-binding of an upvar
                d1 = f.single_def(sg[0])
                if d1 and d1[2] == 'rv' and d1[3]['k'] == 'use':
                    pl1 = op_place(d1[3]['a'][0])
                    async_param = bool(pl1 and pl1['l'] == 1 and pl1.get('p') and '*' not in [x for x in pl1['p'] if isinstance(x, str)])
        if (sync_param or async_param) and 'u64' == _cell_ty(f, aggs[0][2]):
            sgn = P.sigs.get(outer or f.path) or {}
            if 'rip_kernel::Event' in sgn.get('output', ''):
                constructors.add(f.path)     # returns the frame: handled as a pseudo construction at its call sites
                continue
            byval.add(f.path)
            if outer:
                byval.add(outer)
    from ..inline import inline_calls
    fnset2 = []
    for f, aggs in fnset:
        if f.path in byval:
            ctx.note('C01.5: %s takes the seq by value and delivers the frame; it is analysed inside its callers' % f.path)
            continue
        g = inline_calls(P, f, lambda body, callee: body.path in byval or callee in byval, depth=2, note=ctx.note)
        if g is not f:
            aggs = [(bi, si, st) for (bi, si, st) in g.aggregates(r'^rip_kernel::Event$') if op_const(st['rv']['a'][st['rv']['fields'].index('seq')]) is None]
        fnset2.append((g, aggs))
    # callers of by-value helpers that build no frame themselves
    have = {f.path for f, _ in fnset2}
    for p_, f in sorted(P.fns.items()):
        if p_ in have or p_ in byval or p_.startswith(STORE) or f.crate not in ('ripd', 'rip_tools', 'rip_kernel', 'rip_provider_openresponses'):
            continue
        if any(s_.callee in byval for s_ in f.sites()):
            g = inline_calls(P, f, lambda body, callee: body.path in byval or callee in byval, depth=2, note=ctx.note)
            aggs = [(bi, si, st) for (bi, si, st) in g.aggregates(r'^rip_kernel::Event$') if op_const(st['rv']['a'][st['rv']['fields'].index('seq')]) is None]
            if g is not f and aggs:
                fnset2.append((g, aggs))
    fnset = fnset2
    total = 0
    for f, aggs in fnset:
        ctx.touch(f)
        sigs = {}
        for (bi, si, st) in aggs:
            rv = st['rv']
            sg = cell_sig(f, rv['a'][rv['fields'].index('seq')])
            if sg is None:
                raise CheckError('C01.5: seq operand of a frame in %s does not resolve to a cell (unrecognised idiom, %s:%s)' % (f.path, f.file, st.get('ln')))
            sigs.setdefault(sg, []).append((bi, st))
        if len(sigs) != 1:
            raise CheckError('C01.5: %s builds frames from %d different seq cells (unrecognised idiom)' % (f.path, len(sigs)))
        sg = next(iter(sigs))
        if '*' not in sg[1] and 1 <= sg[0] <= f.argc and f.kind != 'Closure':
            ctx.note('C01.5: %s takes the seq by value (constructor); its callers are checked through the call' % f.path)
            continue
        if f.path.startswith('ripd::session::run_session'):
            ctx.note('C01.5: run_session builds the two mutually exclusive terminal frames from its local copy of the cell; at most one per path is proved by C07.2 (flag-correlated), the cell is not used afterwards')
            continue
        total += len(aggs)
        # constructions: block -> event local
        cons = {}
        for (bi, st) in sigs[sg]:
            cons.setdefault(bi, []).append(st['d']['l'])
        # pseudo constructions: callee receives the cell's VALUE and returns an Event
        for s in f.sites():
            sgn = P.sigs.get(s.callee)
            if sgn and 'rip_kernel::Event' in sgn['output'] and not re.search(r'&mut u64', ' '.join(sgn['inputs'])):
                for a in s.args:
                    o = f.origin(a)
                    if o[0] == 'rv' and o[1]['k'] == 'agg':
                        if any(cell_sig(f, x) == sg for x in o[1]['a'] if op_place(x)):
                            cons.setdefault(s.bb, []).append(s.dest['l'])
                    elif cell_sig(f, a) == sg and f.lty(op_base(a)) in ('u64',):
                        cons.setdefault(s.bb, []).append(s.dest['l'])
        # moves of Event values: block -> set of construction locals delivered there
        moves = {}
        ev_locals = [i for i, l in enumerate(f.locals) if l['ty'] == 'rip_kernel::Event']
        from ..prov import reads_locals as _rl
        all_cons = {l for ls in cons.values() for l in ls}
        for el in ev_locals:
            src = set()
            cur = el
            for _ in range(12):
                if cur in all_cons:
                    src = {cur}
                    break
                ds = f.defs(cur)
                if len(ds) != 1:
                    break
                d1 = ds[0]
                if d1[2] == 'rv' and d1[3]['k'] in ('use', 'cast') and op_base(d1[3]['a'][0]) is not None:
                    cur = op_base(d1[3]['a'][0])
                elif d1[2] == 'call' and re.search(r'Try>::branch$|::unwrap$|::expect$', Site(f, d1[0], d1[3]).callee):
                    cur = op_base(d1[3]['a'][0])
                    if cur is None:
                        break
                else:
                    break
            if not src:
                continue
            for (bi, si, how, payload) in f.uses(el):
                moved = False
                if how.startswith('arg'):
                    moved = True
                elif how == 'stmt':
                    rv = payload['rv']
                    if rv['k'] == 'agg' or (rv['k'] == 'use' and payload['d']['l'] == 0):
                        moved = any('m' in o and 'p' not in o['m'] and o['m']['l'] == el for o in rv.get('a', []))
                    elif rv['k'] == 'use' and f.lty(payload['d']['l']) != 'rip_kernel::Event':
                        moved = any('m' in o and o['m']['l'] == el for o in rv.get('a', []))
                if moved:
                    moves.setdefault(bi, set()).update(src)
        for s2 in f.sites():
            for a in s2.args:
                r = f.root_local(a)
                if r in all_cons:
                    moves.setdefault(s2.bb, set()).add(r)
        # advances
        advs = {}
        for bi in f.reachable():
            for st in f.blocks[bi]['s']:
                rv = st.get('rv')
                if rv and rv['k'] == 'bin' and rv['op'].startswith('Add') and op_const(rv['a'][1]) is not None and op_const(rv['a'][1]).get('v') == '1':
                    if cell_sig(f, rv['a'][0]) == sg:
                        advs[bi] = st.get('ln')
        move_blocks_of = {}
        for b, ls in moves.items():
            for l in ls:
                move_blocks_of.setdefault(l, set()).add(b)
        terminal_ok = f.path.startswith('ripd::session::run_session')
        # exploration
        errors = {}
        seen = set()
        work = [(0, frozenset())]
        while work:
            b, pend = work.pop()
            if (b, pend) in seen:
                continue
            seen.add((b, pend))
            # (frame local, 'owed'): the cell was already advanced for this frame, which is still to be delivered
            owed = {l for (l, m) in pend if m == 'owed'}
            cur = {(l, m) for (l, m) in pend if m != 'owed'}
            if b in moves:
                owed -= moves[b]
            if b in cons:
                # frames of earlier constructions that can no longer be delivered are dead
                reach = f.reach(b)
                cur = {(l, m) for (l, m) in cur if m or (move_blocks_of.get(l, set()) & reach)}
                if cur:
                    errors.setdefault(('dup', b), 'a second frame is built from the seq cell before the cell was advanced for the first (two frames with one seq)')
                for l in cons[b]:
                    cur.add((l, False))
            if b in moves:
                cur = {(l, True if l in moves[b] else m) for (l, m) in cur}
            if b in advs:
                live = {(l, m) for (l, m) in cur if m or (move_blocks_of.get(l, set()) & f.reach(b))}
                if not live:
                    errors.setdefault(('gap', b), 'the seq cell is advanced although no frame was built from it (gap)')
                # advanced before delivery: the frame is owed — it must still be delivered on every path from here
                owed |= {l for (l, m) in live if not m}
                cur = set()
            t = f.blocks[b]['t']
            if t['k'] == 'ret':
                left = {l for (l, m) in cur if m}
                if left and not terminal_ok:
                    errors.setdefault(('noadv', b), 'a frame built from the seq cell is delivered but the cell is not advanced before return (the next frame repeats the seq)')
                if owed and not terminal_ok:
                    errors.setdefault(('dropped', b), 'the seq cell was advanced for a frame that is then DROPPED on this path (never delivered): its seq is used up, the stream has a hole')
                continue
            for s2 in f.succs(b):
                work.append((s2, frozenset(cur | {(l, 'owed') for l in owed})))
        ctx.ob('C01.5', f, 'seq-cell-typestate', not errors,
               '%d frame construction(s), %d advance site(s), %d (block, pending) states explored: %s' % (
                   sum(len(v) for v in cons.values()), len(advs), len(seen), 'use / advance alternate on every path' if not errors else '; '.join(sorted(set(errors.values())))),
               line=(advs.get(next(iter(errors))[1]) or f.blocks[next(iter(errors))[1]]['t'].get('ln') or f.line) if errors else f.line)
    ctx.floor('C01.5', 'frame constructions from a seq cell', total, 12)


# ---------------------------------------------------------------------- C01.7 write-back of the local seq copy
def c017(ctx):
    """run_session copies the kernel's seq into a local, lends `&mut seq` to the tool runner /
    checkpoint / provider code, and must write it back (Session::set_seq) before the kernel
    emits its own next frame — explored in the flag-correlated state space of C07.2."""
    from .c07 import run_session_states
    P = ctx.prog
    ctx.rule('C01.7', 'seq write-back: in run_session every call that receives `&mut seq` (the local copy of the kernel session seq) is followed, on every feasible path into the kernel next_event loop, by Session::set_seq(seq) — otherwise the kernel re-issues the seqs the tool / checkpoint frames already used.')
    st = run_session_states(P)
    rs, seen, kh, kbody, succ_states = st['rs'], st['seen'], st['kh'], st['kbody'], st['succ_states']
    ctx.touch(rs)
    setters = {s.bb for s in rs.calls(r'^rip_kernel::Session::set_seq$')}
    # the local copy of the kernel seq: by name, or the u64 local that is written back through Session::set_seq
    setq_locals = {rs.root_local(x.args[1]) for x in rs.calls(r'^rip_kernel::Session::set_seq$') if len(x.args) > 1}
    lenders = []
    for s in rs.sites():
        if s.callee.startswith('rip_kernel::Session::'):
            continue
        for a in s.args:
            o = rs.origin(a)
            # `&mut seq` handed to a callee, directly or inside a context struct
            cands = [a]
            if o[0] == 'rv' and o[1]['k'] == 'agg':
                cands = o[1]['a']
            for c in cands:
                pl = op_place(c)
                if pl is None or not rs.lty(pl['l']).startswith('&mut u64'):
                    continue
                oo = rs.origin(c)
                if oo[0] == 'local' and rs.lty(oo[1]) == 'u64' and (rs.lname(oo[1]) == 'seq' or oo[1] in setq_locals):
                    lenders.append(s)
    lenders = list({s.bb: s for s in lenders}.values())
    ctx.floor('C01.7', 'calls lending `&mut seq` in run_session', len(lenders), 4)
    for s in lenders:
        starts = [x for x in seen if x[0] == s.bb]
        bad = False
        visited = set()
        work = list(starts)
        while work and not bad:
            x = work.pop()
            if x in visited:
                continue
            visited.add(x)
            b = x[0]
            if b in setters and b != s.bb:
                continue
            for y in succ_states(*x):
                if y[0] == kh and b not in kbody:
                    bad = True
                    break
                work.append(y)
        ctx.ob('C01.7', rs, 'seq-written-back:' + s.name, not bad,
               '%s borrows the local seq; %s' % (s.name, 'every feasible path into the kernel loop passes Session::set_seq' if not bad else
                                                  'the kernel next_event loop is reachable WITHOUT Session::set_seq: the kernel repeats seqs already used'), line=s.line)


# ---------------------------------------------------------------------- C01.8 cancellation safety of seq-stamped emission
RACERS = r'^tokio::time::timeout::timeout(_at)?$|^futures_util::future::select::select$|^futures_util::future::select_all|^futures_util::future::select_ok|^futures_util::future::abortable|^futures_util::future::future::FutureExt::now_or_never$|^tokio::time::timeout::Timeout::<T>::new'


def seq_critical_coroutines(P):
    """coroutine bodies that build a frame from a seq cell (or advance a guarded seq cell) and
    can suspend afterwards: dropping such a future between the two loses a stamped frame."""
    from ..inline import inline_calls, contains
    w_ev = contains(rx_aggs=r'^rip_kernel::Event::')
    cor = P.coroutines()
    out = {}
    for p, f in sorted(P.fns.items()):
        if p not in cor or f.crate not in ('ripd', 'rip_tools', 'rip_kernel', 'rip_provider_openresponses'):
            continue
        # a frame constructor extracted into a private sync helper is spliced in (the stamp still happens here)
        f = inline_calls(P, f, lambda body, callee: '{closure' not in callee and P.async_body(callee) is None and w_ev(body, callee), depth=1)
        aggs = [(bi, si, st) for (bi, si, st) in f.aggregates(r'^rip_kernel::Event$') if op_const(st['rv']['a'][st['rv']['fields'].index('seq')]) is None]
        if not aggs:
            continue
        ys = [bi for bi, b in enumerate(f.blocks) if b['t'].get('k') == 'yield']
        hit = [(bi, y) for (bi, si, st) in aggs for y in ys if f.can_reach(bi, y)]
        if hit:
            out[p] = hit[0]
    return out


def c018(ctx):
    P = ctx.prog
    ctx.rule('C01.8', 'cancellation safety: a future that is raced and can be dropped before it completed (a branch polled by value from a select!/poll_fn closure, or the argument of timeout / select / abortable) must not reach a coroutine that stamps a frame from a seq cell and then awaits before the frame is delivered — dropping it there consumes the seq without a frame (a hole in the stream).')
    SC = seq_critical_coroutines(P)
    ctx.ob('C01.8', P.fn('ripd::tasks::TaskEmitter::emit'), 'positive-example', 'ripd::tasks::TaskEmitter::emit::{closure#0}' in SC,
           'TaskEmitter::emit stamps the frame and then awaits the buffer lock: it is in the seq-critical set (%d coroutine(s): %s)' % (len(SC), ', '.join(sorted(SC))))
    cor = P.coroutines()
    sites = []
    for p, f in sorted(P.fns.items()):
        if f.crate not in ('ripd', 'rip_tools', 'rip_kernel', 'rip_provider_openresponses'):
            continue
        for s in f.sites():
            if s.declared == 'core::future::future::Future::poll' and p not in cor and s.callee in cor:
                # a poll from a plain closure: select! / poll_fn branch, polled by value
                sites.append((f, s, s.callee, 'select!/poll_fn branch'))
            elif re.search(RACERS, s.base) or re.search(RACERS, s.callee):
                for a in s.args:
                    o = f.origin(a)
                    X = None
                    if o[0] == 'call':
                        b = P.async_body(o[1].callee)
                        X = b.path if b is not None else None
                    elif o[0] == 'rv' and o[1]['k'] == 'agg' and o[1].get('ak') == 'coroutine':
                        X = o[1].get('def')
                    if X:
                        sites.append((f, s, X, s.name + ' argument'))
    ctx.floor('C01.8', 'raced futures with a resolved coroutine body', len(sites), 2)
    for f, s, X, how in sites:
        ctx.touch(f)
        par = P.reach_fns([X])
        bad = sorted(x for x in par if x in SC)
        ctx.ob('C01.8', f, 'raced:%s' % X.replace('ripd::', ''), not bad,
               '%s %s: %s' % (how, X, 'reaches no seq-critical coroutine (%d functions)' % len(par) if not bad else
                              'can be DROPPED while parked inside %s (frame stamped, seq consumed, not yet delivered): %s' % (bad[0], ' -> '.join(x.replace('ripd::', '') for x in P.chain(par, bad[0])))), line=s.line)


# ---------------------------------------------------------------------- C01.10 one run per session stream
def c0110(ctx):
    from ..inline import inline_calls
    from ..core import switches
    P = ctx.prog
    ctx.rule('C01.10', 'one run per session stream: the kernel numbers a run from 0 under the id of the SessionHandle it is started for, so every function that '
             'starts ripd::session::run_session either claims the handle once-only on the way (an atomic read-modify-write on the handle — swap / compare_exchange / '
             'fetch_or — whose result is branched on, with an edge that leaves without starting the run) or was handed a handle that the same function created. '
             'A second POST /sessions/{id}/input on one session otherwise writes 0,1,2,0,1,2 for that stream and a validated replay of the store fails for good '
             '(the repaired F-C01-reinput).')
    RMW = r'^core::sync::atomic::Atomic(\w+|::<[^>]+>)::(swap|compare_exchange|compare_exchange_weak|fetch_or|fetch_and|fetch_xor|fetch_nand|fetch_add|fetch_update)$'
    starts = [s for s in P.callers(r'^ripd::session::run_session$') if s.fn.crate == 'ripd']
    ctx.floor('C01.10', 'sites that start run_session', len(starts), 1)
    for st in starts:
        f = st.fn
        g = inline_calls(P, f, lambda body, callee: bool(body.calls(RMW)), depth=2, note=ctx.note)
        gs = [x for x in g.calls(r'^ripd::session::run_session$')]
        ok, why = False, 'no once-only claim (atomic read-modify-write whose result is branched on) dominates the start of the run'
        for run in gs:
            fresh = False
            # the handle is created here: the session id / sender handed to the run derive from create_session in the same body
            for c in g.calls(r'^ripd::runner::SessionEngine::create_session$'):
                if g.dom(c.bb, run.bb):
                    fresh = True
            if fresh:
                ok, why = True, 'the handle is created by the same function (a fresh stream)'
                continue
            claimed = False
            for a in g.calls(RMW):
                if not g.dom(a.bb, run.bb) or a.dest is None:
                    continue
                for (bi, on, ts, els) in switches(g):
                    if not g.dom(a.bb, bi) or not g.dom(bi, run.bb):
                        continue
                    if a.dest['l'] not in reads_locals(g, on) and a.dest['l'] != (op_place(on) or {}).get('l'):
                        continue
                    tgts = set(ts.values()) | ({els} if els is not None else set())
                    if any(not g.can_reach(t, run.bb) for t in tgts):
                        claimed = True
            if claimed:
                ok, why = True, 'dominated by an atomic claim on the handle whose losing edge starts nothing'
            else:
                ok, why = False, 'no once-only claim (atomic read-modify-write whose result is branched on) dominates the start of the run'
                break
        ctx.ob('C01.10', f, 'one-run-per-handle', ok, 'run_session is started here: %s' % why, line=st.line)


# ---------------------------------------------------------------------- C01.11 a thread is created once
def c0111(ctx):
    P = ctx.prog
    ctx.rule('C01.11', 'a thread is created once: create_continuity writes the creation frame with seq 0 and resets the seq table entry, so the id it is handed is '
             'fresh at every call site — None (generated inside), or a value whose only sources are Uuid::new_v4 (through to_string / clone). An id read from the index, '
             'a cache or a request names a stream that may already have frames; creating it again restarts that stream at 0.')
    FRESH = r'^uuid::Uuid::new_v4$|^uuid::v4::<impl uuid::Uuid>::new_v4$|::to_string$|::clone$|::into$|::from$|::to_owned$|::hyphenated$|::simple$'
    cs = [c for c in P.callers(r'^ripd::continuities::ContinuityStore::create_continuity$') if c.fn.crate == 'ripd']
    ctx.floor('C01.11', 'call sites of create_continuity', len(cs), 3)
    for c in cs:
        f = c.fn
        if len(c.args) < 3:
            raise CheckError('C01.11: create_continuity has lost its id parameter')
        srcs = sources(f, c.args[2])
        bad = []
        for sr in srcs:
            if sr[0] == 'agg' and sr[1].endswith('Option::None'):
                continue
            if sr[0] == 'agg' and sr[1].endswith('Option::Some'):
                # the payload of the Some built in block sr[2]
                for st in f.blocks[sr[2]]['s']:
                    rv = st.get('rv')
                    if rv and rv['k'] == 'agg' and rv.get('variant') == 'Some' and rv['a']:
                        for s2 in sources(f, rv['a'][0]):
                            if s2[0] == 'call' and re.search(FRESH, s2[1]):
                                continue
                            H11 = P.fns.get(s2[1]) if s2[0] == 'call' else None
                            if H11 is not None and H11.crate == 'ripd' and H11.argc == 0 and H11.calls(r'new_v4$') and all(
                                    x[0] == 'call' and re.search(FRESH, x[1]) for x in sources(H11, {'c': {'l': 0}})):
                                continue        # `fn new_thread_id() -> String { Uuid::new_v4().to_string() }`
                            bad.append(s2)
                continue
            bad.append(sr)
        has_uuid = (not bad) and (all(x[0] == 'agg' and x[1].endswith('None') for x in srcs) or any(re.search(r'new_v4$', s_.callee) or (P.fns.get(s_.callee or '') is not None and P.fns[s_.callee].argc == 0 and P.fns[s_.callee].calls(r'new_v4$')) for s_ in f.sites()))
        ok = not bad and has_uuid
        ctx.ob('C01.11', f, 'fresh-thread-id', ok,
               'the id handed to create_continuity is %s' % ('None or freshly generated (Uuid::new_v4)' if ok else
               'NOT only a fresh uuid — it also comes from %s: an existing thread would be created a second time, its stream restarting at seq 0' % ', '.join(sorted({str(b[1]) if len(b) > 1 else str(b) for b in bad})[:3])),
               line=c.line)


# ---------------------------------------------------------------------- C01.9 who may write the seq table
def c019(ctx):
    P = ctx.prog
    ctx.rule('C01.9', 'the seq table only moves with a frame: every function that takes the next_seq guard and mutates the table (insert / extend / remove / clear / entry / retain / get_mut) also appends a frame to the log inside that guard. A function that writes the table from anything else — a log scan taken before the lock, a reset — can roll a counter back under a concurrent append, and the next frame repeats a seq.')
    MUT = r'HashMap::<K, V, S, A>::(insert|remove|clear|entry|retain|drain|get_mut|remove_entry)$|Extend<.*>>::extend$|HashMap::<K, V, S, A>::extend$'
    n = 0
    lsites = logical_append_sites(P, [s for s in P.callers(APPEND) if s.fn.path.startswith(STORE)])
    for p, f in sorted(P.fns.items()):
        if f.crate != 'ripd':
            continue
        gr = f.guard_ranges(SEQ_GUARD)
        if not gr:
            continue
        muts = [s for s in f.sites() if re.search(MUT, s.callee) and any(derives_from_local(f, s.args[0], g) for g in gr if s.args and op_place(s.args[0]))]
        if not muts:
            continue
        n += 1
        apps = [a for a in lsites if a.fn.path == f.path and f.held_at(a.bb, SEQ_GUARD)]
        ctx.ob('C01.9', f, 'table-write-with-frame', bool(apps),
               'the seq table is mutated at %d site(s) (%s); %s' % (len(muts), ', '.join(sorted({m.name for m in muts})), '%d log append(s) under the same guard' % len(apps) if apps else
                                                                 'NO frame is appended under the guard: the table is (re)written from something other than a frame just logged'), line=muts[0].line)
    ctx.floor('C01.9', 'functions that mutate the seq table under its guard', n, 12)
