"""C05 — crash at any write boundary (the part the code controls: order of effects)."""
import re

from ..core import CheckError, Site, op_const
from ..effects import Effects
from ..prov import reads_locals, sources
from .c01 import APPEND, STORE, ok_edge_of_try

BEST_EFFORT = r'^ripd::continuity_stream_cache::ContinuityStreamCache::append_best_effort$'
SEND = r'^tokio::sync::broadcast::Sender::send$'
CREATE = r'^std::fs::write$|^std::fs::File::create$'
RENAME = r'^std::fs::rename$'
# one named symbol per exemption, with the reason (read and confirmed on the pinned tree)
IN_PLACE_BY_DESIGN = {
    'ripd::continuity_seek_index::create_empty_msg_index': 'open-addressing hash index that is updated in place for its whole life; a torn creation fails read_msg_index_header and triggers rebuild_message_index_from_sidecar_v1 (tmp + rename)',
}


def run(ctx):
    P = ctx.prog
    E = Effects(P)
    from .common import sidecar_append_rx
    BEST_EFFORT = sidecar_append_rx(P)
    ctx.not_decided = 'what the file system does at a crash (rename atomicity, O_APPEND are trusted); the state of every cache after truncation at an arbitrary byte (validators of C04 are the code-side answer).'
    ctx.rule('C05.1', 'truth first: at every ContinuityStore append site the sidecar append and the broadcast exist and are reachable only through the Ok edge of the `?` on EventLog::append (no cache line / live frame for a frame that is not in the log).')
    ctx.rule('C05.2', 'artifact before frame: every *artifact_id field of a frame constructed in ripd gets its value from a blob writer call (which therefore ran first), from a parameter, or from an existing frame — never from a value computed without writing the blob.')
    ctx.rule('C05.3', 'tmp + rename: every file created by fs::write / File::create in ripd is subsequently renamed into place in the same function (the created path is the rename source).')
    ctx.rule('C05.4', 'one write per frame: on the success path of EventLog::append exactly one write reaches the file between lock and flush (a crash cannot leave a JSON body without its newline).')
    ctx.rule('C05.5', 'next-seq recovery: every Ok value returned by load_next_seq_for derives from the truth log, not from a cache alone.')

    # ---------------------------------------------------------------- C05.1
    sites = [s for s in P.callers(APPEND) if s.fn.path.startswith(STORE)]
    ctx.floor('C05.1', 'ContinuityStore append sites', len(sites), 13)
    for s in sites:
        f = s.fn
        edge = ok_edge_of_try(f, s)
        if edge is None or edge[1] is None:
            ctx.ob('C05.1', f, 'append-result-checked', False, 'the result of EventLog::append is not propagated with `?` — a failed append is followed by cache / broadcast effects', line=s.line)
            continue
        ctx.ob('C05.1', f, 'append-result-checked', True, 'append result is tested with `?`', line=s.line)
        ev = f.root_local(s.args[1], through_calls=(r'::deref$', r'::as_ref$'))
        here = [x for x in sites if x.fn is f]

        def mine(cs):
            # siblings of THIS append: the calls that carry its event (functions that emit several frames)
            if len(here) <= 1 or ev is None:
                return cs
            return [c for c in cs if ev in reads_locals(f, c.args[1])]
        for nm, rx, full in (('sidecar', BEST_EFFORT, None), ('broadcast', SEND, r'Sender::<rip_kernel::Event>::send')):
            cs = mine(f.calls(rx, full=full))
            if not cs:
                ctx.ob('C05.1', f, nm + '-present', False, 'no %s effect follows the truth append: the frame is never mirrored' % nm, line=s.line)
                continue
            for c in cs:
                ok = f.edge_dom(edge[0], edge[1], c.bb)
                ctx.ob('C05.1', f, nm + '-after-truth', ok, '%s is %s' % (c.name, 'reachable only after a successful truth append' if ok else 'reachable WITHOUT a successful truth append'), line=c.line)
        be = mine(f.calls(BEST_EFFORT))
        sd = mine(f.calls(SEND, full=r'Sender::<rip_kernel::Event>::send'))
        if be and sd:
            ok = all(f.dom(b.bb, x.bb) for b in be for x in sd)
            ctx.ob('C05.1', f, 'sidecar-before-broadcast', ok, 'sidecar line is written before the frame is published', line=sd[0].line)
    cc = P.fn(STORE + 'create_continuity')
    sv = cc.calls(r'^ripd::continuities::save_index$')
    ap = cc.calls(APPEND)
    if sv and ap:
        e = ok_edge_of_try(cc, ap[0])
        ctx.ob('C05.1', cc, 'index-after-truth', e is not None and all(cc.edge_dom(e[0], e[1], x.bb) for x in sv), 'index.json is saved only after the creation frame is in the log', line=sv[0].line)

    # ---------------------------------------------------------------- C05.2
    writers = E.havers('FsWrite')
    n = 0
    for f in [g for g in P.fns.values() if g.crate == 'ripd']:
        for (bi, si, st) in f.aggregates(r'^rip_kernel::EventKind$|Payload$'):
            rv = st['rv']
            for fname, op in zip(rv['fields'], rv['a']):
                if not re.search(r'artifact_id$', fname):
                    continue
                src = sources(f, op)
                calls = [x for x in src if x[0] == 'call']
                params = [x for x in src if x[0] == 'param']
                consts = [x for x in src if x[0] == 'const']
                if consts and not calls and not params and all(c[1] is None for c in consts):
                    continue        # Option::None
                n += 1
                ctx.touch(f)
                wr = [c for c in calls if c[1] in writers or re.search(r'write_bundle_v1$|write_compaction_summary_v1$|maybe_dump_openresponses_request$|compile_context_bundle_for_run', c[1])]
                other = [c for c in calls if c not in wr]
                # form 2: the id is generated first and handed to a writer that dominates the frame
                handed = []
                idl = f.root_local(op)
                if not wr and idl is not None:
                    for w in E.sites_with(f, 'FsWrite'):
                        if any(idl in reads_locals(f, a) for a in w.args) and f.dom(w.bb, bi) and w.bb != bi:
                            e = ok_edge_of_try(f, w)
                            if e is not None and e[1] is not None and f.edge_dom(e[0], e[1], bi):
                                handed.append(w)
                # every call the id can come from is a blob writer (an arm that takes the id from a parameter does not excuse an arm that computes it)
                ok = bool(handed) or (not other and (bool(wr) or bool(params) or not calls))
                how = ('blob writer %s' % wr[0][1].rsplit('::', 1)[-1]) if wr else ('an id handed to %s, whose success edge dominates the frame' % handed[0].name) if handed else (
                    'parameter / existing value' if ((params or not calls) and not other) else 'computed by %s without writing the blob first' % sorted(c[1] for c in other)[:2])
                ctx.ob('C05.2', f, 'artifact-id-source:%s.%s' % (rv.get('variant', ''), fname), ok, '%s.%s comes from %s' % (rv.get('variant'), fname, how), line=st.get('ln'))
    ctx.floor('C05.2', 'artifact-id fields of constructed frames', n, 4)

    # ---------------------------------------------------------------- C05.3
    n = 0
    for f in [g for g in P.fns.values() if g.crate == 'ripd' and not g.path.startswith('ripd::tasks::')]:
        cs = f.calls(CREATE)
        if not cs:
            continue
        ctx.touch(f)
        rn = f.calls(RENAME)
        for c in cs:
            n += 1
            if f.path in IN_PLACE_BY_DESIGN:
                ctx.note('C05.3 exempt: %s — %s' % (f.path, IN_PLACE_BY_DESIGN[f.path]))
                continue
            p = f.root_local(c.args[0], through_calls=(r'::as_ref$', r'::deref$', r'::as_path$'))
            ok = False
            for r in rn:
                rp = f.root_local(r.args[0], through_calls=(r'::as_ref$', r'::deref$', r'::as_path$'))
                if rp is not None and rp == p and (f.can_reach(c.bb, r.bb)):
                    ok = True
            if not ok and p is not None:
                # the publish step in a private helper (`publish_tmp(&tmp, &final)`): a callee of the crate that renames FROM the parameter this path is handed to
                for h_ in f.sites():
                    H_ = P.fns.get(h_.callee or '')
                    if H_ is None or H_.crate != 'ripd' or not f.can_reach(c.bb, h_.bb):
                        continue
                    for k_, a_ in enumerate(h_.args):
                        if f.root_local(a_, through_calls=(r'::as_ref$', r'::deref$', r'::as_path$')) == p and any(
                                H_.root_local(r_.args[0], through_calls=(r'::as_ref$', r'::deref$', r'::as_path$')) == k_ + 1 for r_ in H_.calls(RENAME)):
                            ok = True
            ctx.ob('C05.3', f, 'tmp-then-rename:' + c.name, ok,
                   '%s(%s) %s' % (c.name, f.lname(p) if p is not None else '?', 'is followed by rename of the same path into place' if ok else 'creates the final file IN PLACE (no rename of that path follows): a crash leaves a torn file under its real name'), line=c.line)
    ctx.floor('C05.3', 'file creations in ripd', n, 18)
    # ... and the temporary can be created again after a crash: a tmp that is opened with an exclusive create
    # (create_new) fails with AlreadyExists for ever once a crash between create and rename left it behind
    ctx.rule('C05.10', 'a temporary file survives no crash as an obstacle: the source path of every rename in ripd is never created exclusively (OpenOptions::create_new / File::create_new) in the same function — the leftover of a crash between create and rename must be overwritten by the next attempt, not make every later save fail.')
    nren = 0
    for f in [g for g in P.fns.values() if g.crate == 'ripd']:
        rn = f.calls(RENAME)
        if not rn:
            continue
        excl = f.calls(r'^std::fs::File::create_new$')
        for o_ in f.calls(r'^std::fs::OpenOptions::open$'):
            chain = reads_locals(f, o_.args[0])
            if any(c_.dest and c_.dest['l'] in chain and (op_const(c_.args[1]) or {}).get('v') is not False for c_ in f.calls(r'^std::fs::OpenOptions::create_new$')):
                excl.append(o_)
        for r in rn:
            nren += 1
            ctx.touch(f)
            rp = f.root_local(r.args[0], through_calls=(r'::as_ref$', r'::deref$', r'::as_path$'))
            hit = [e_ for e_ in excl if rp is not None and f.root_local(e_.args[-1], through_calls=(r'::as_ref$', r'::deref$', r'::as_path$')) == rp]
            ctx.ob('C05.10', f, 'tmp-recreatable', not hit, 'the rename source `%s` is %s' % (f.lname(rp) if rp is not None else '?', 'not created exclusively' if not hit else
                   'created with create_new (line %s): after a crash between create and rename the leftover makes this and every later attempt fail with AlreadyExists' % hit[0].line), line=r.line)
    ctx.floor('C05.10', 'renames in ripd', nren, 10)
    # ... and what is renamed into place is complete: a BufWriter over the temporary is flushed (or consumed / dropped)
    # on every path from its creation to the rename of that temporary
    ctx.rule('C05.11', 'complete before published: where a temporary file is written through a BufWriter and then renamed into place, every path from the creation of that writer to the rename passes its flush (or into_inner / its drop). A rename that overtakes the buffered tail publishes a short (or empty) file under the final name; it stays that way if the process dies before the writer is dropped.')
    TR = (r'::as_ref$', r'::deref$', r'::as_path$', r'::deref_mut$', r'::by_ref$', r'::as_mut$', r'::borrow_mut$')
    nbw = 0
    for f in [g for g in P.fns.values() if g.crate == 'ripd']:
        rn = f.calls(RENAME)
        bws = f.calls(r'BufWriter::<W>::(new|with_capacity)$')
        if not rn or not bws:
            continue
        for b in bws:
            wl = b.dest['l']
            # the path the writer's file was created at
            fl_ = f.root_local(b.args[-1], through_calls=TR)
            src_path = None
            if fl_ is not None:
                for (dbi, si, kind, payload, _ln) in f.defs(fl_):
                    if kind == 'call':
                        cs_ = Site(f, dbi, payload)
                        if re.search(r'File::create$|OpenOptions::open$|File::create_new$', cs_.callee or '') and cs_.args:
                            src_path = f.root_local(cs_.args[-1], through_calls=TR)
            mine = [r for r in rn if f.can_reach(b.bb, r.bb) and (src_path is None or f.root_local(r.args[0], through_calls=TR) in (src_path, None))]
            if not mine:
                continue
            nbw += 1
            ctx.touch(f)
            done = [c_.bb for c_ in f.calls(r'Write>::flush$|BufWriter::<W>::into_inner$|^core::mem::drop$') if c_.args and f.root_local(c_.args[0], through_calls=TR) == wl]
            done += [bi for bi, blk in enumerate(f.blocks) if blk['t']['k'] == 'drop' and (blk['t'].get('pl') or {}).get('l') == wl and not blk['cl']]
            ok11 = bool(done) and all(f.must_pass(done, b.bb, [r.bb]) for r in mine)
            ctx.ob('C05.11', f, 'flushed-before-rename:' + (f.lname(wl) or 'writer'), ok11,
                   'the buffered writer `%s` is flushed / consumed on every path to the rename of its file' % (f.lname(wl) or '?') if ok11 else
                   'a path from the creation of the buffered writer `%s` reaches the rename (line %s) WITHOUT flush: the file is published before its buffered tail is written — a crash right after the rename leaves a short or empty file under the final name' % (f.lname(wl) or '?', mine[0].line), line=mine[0].line)
    ctx.floor('C05.11', 'buffered writers over renamed temporaries in ripd', nbw, 6)

    # ---------------------------------------------------------------- C05.4
    from .common import log_writer_calls
    app, writes, on_ok = log_writer_calls(P)
    ctx.floor('C05.4', 'calls handed the log writer in EventLog::append', len(writes), 1)
    one = len(on_ok) == 1 and not app.in_loop(on_ok[0].bb) and on_ok[0].name == 'write_all'
    ctx.ob('C05.4', app, 'single-write-per-frame', one,
           '%d call(s) hand bytes to the log writer on the success path of one append (%s)%s' % (len(on_ok), ', '.join(w.name for w in on_ok), '' if one else
           ': the frame must reach the file as ONE write_all of body+newline; several writes (or a streaming serialiser, or a partial `write`) let a crash / a second handle leave a body without newline, O_APPEND then glues the next frame to it and replay fails for good'),
           line=on_ok[0].line if on_ok else app.line)

    # flush before the acknowledgement: every path from the write to a return passes flush (or is an error exit)
    flush = app.calls(r'std::io::Write>::flush$')
    errs = [s_.bb for s_ in app.calls(r'FromResidual<.*>>::from_residual$')]
    for w in writes:
        okf = bool(flush) and app.must_pass([x.bb for x in flush] + errs, w.bb, app.returns())
        ctx.ob('C05.4', app, 'flush-before-ack', okf, 'every path from the write to a successful return passes flush' if okf else
               'a path from the write returns Ok WITHOUT flush: the acknowledged frame sits in the BufWriter and is lost when the process dies', line=w.line)

    # ---------------------------------------------------------------- C05.5
    ln = P.fn(STORE + 'load_next_seq_for')
    # recovery never fails on a cache fault: the restart paths consume a cache read by matching it
    from .c04 import CACHE_READ, CACHE_READ_EXCLUDE, consumption
    nrec = 0
    for rf in (ln, P.fn(STORE + 'replay_events')):
        for c in rf.calls(CACHE_READ):
            if re.search(CACHE_READ_EXCLUDE, c.callee):
                continue
            nrec += 1
            chain, verdict = consumption(rf, c)
            ctx.ob('C05.5', rf, 'recovery-ignores-cache-fault:' + c.name, verdict is None,
                   '%s result is consumed by %s%s' % (c.name, ' > '.join(chain) or 'match', '' if verdict is None else
                                                      ' — ' + verdict + ': after a crash that left the sidecar empty / torn, every append to the thread fails instead of falling back to the log'), line=c.line)
    ctx.floor('C05.5', 'cache reads on the recovery paths (load_next_seq_for, replay_events)', nrec, 2)
    oks = ln.aggregates(r'^core::result::Result$', 'Ok')
    ctx.floor('C05.5', 'Ok returns of load_next_seq_for', len(oks), 1)
    for (bi, si, st) in oks:
        src = sources(ln, st['rv']['a'][0])
        calls = sorted({x[1] for x in src if x[0] == 'call'})
        from_truth = any(re.search(r'replay_events$|EventLog::replay', c) for c in calls)
        from_cache = any(re.search(r'continuity_stream_cache', c) for c in calls)
        ctx.ob('C05.5', ln, 'next-seq-from-truth', from_truth and not from_cache or (from_truth and from_cache and False),
               'Ok value derives from %s' % [c.rsplit('::', 1)[-1] for c in calls] + ('' if from_truth else ' — the sidecar is written after truth and best-effort, so after a crash between the two appends the restarted authority re-issues a seq'),
               line=st.get('ln'))

    # ---------------------------------------------------------------- C05.6 / C05.7
    from .c04 import c049, c0410
    c049(ctx, rid='C05.6')
    c0410(ctx, rid='C05.8')
    tmp_private(ctx, 'C05.9')
    ctx.rule('C05.7', 'the thread index never runs ahead of truth: every save_index in ContinuityStore is either dominated by the Ok edge of the log append / create_continuity call that made the thread it names exist, or stores an id that was found by scanning the log. An index entry written before the creation frame survives a crash as a default thread with no frames — every later append to it fails.')
    from .c01 import logical_append_sites
    lsites = logical_append_sites(P, [x for x in P.callers(APPEND) if x.fn.path.startswith(STORE)])
    saves = P.callers(r'^ripd::continuities::save_index$')
    ctx.floor('C05.7', 'save_index call sites', len(saves), 2)
    for sv in saves:
        f = sv.fn
        makers = [x for x in lsites if x.fn.path == f.path] + f.calls(r'ContinuityStore::create_continuity$')
        after_truth = False
        for mk in makers:
            e = ok_edge_of_try(f, mk)
            if e is not None and e[1] is not None and f.edge_dom(e[0], e[1], sv.bb):
                after_truth = True
        # what was put into the index before this save: ids from a log scan are fine
        from_scan = False
        ins = [i_ for i_ in f.calls(r'HashMap::<K, V, S, A>::insert$|BTreeMap::<K, V, A>::insert$') if f.can_reach(i_.bb, sv.bb) and 'String' in (i_.full or '')]
        if ins and all(any(x[0] == 'call' and re.search(r'find_latest_continuity_for_workspace$|replay', x[1]) for x in sources(f, i_.args[2])) for i_ in ins if len(i_.args) > 2):
            from_scan = True
        ctx.ob('C05.7', f, 'index-after-truth', after_truth or from_scan,
               'save_index %s' % ('runs only after the thread\'s creation frame is in the log' if after_truth else
                                  'stores an id found by scanning the log' if from_scan else
                                  'can run BEFORE the thread it names has a frame in the log: a crash in between leaves a default thread that does not exist'), line=sv.line)


def _does(P, callee, rx):
    """the callee is, or (a workspace helper) reaches, a call matching rx."""
    if not callee:
        return False
    if re.search(rx, callee):
        return True
    if callee in P.fns:
        key = (callee, rx)
        cache = P.__dict__.setdefault('_does_cache', {})
        if key not in cache:
            cache[key] = any(re.search(rx, y) for y in P.reach_fns([callee]))
        return cache[key]
    return False


def tmp_private(ctx, rid):
    """a temporary file belongs to one final file."""
    P = ctx.prog
    ctx.rule(rid, 'a temporary name is private to its final name: for every "create tmp, write, rename tmp -> final" pair in ripd / rip-log / rip-workspace / rip-tools the tmp path reads every parameter of the function the final path reads (it is the final path plus a suffix, or is built from the same ids), or carries a uniqueness source (uuid / pid / clock). A fixed tmp name shared by several final names (`snapshot.json.tmp` for every session) lets two writers clobber each other: one final file gets the other\'s content.')
    UNIQ = r'uuid::|process::id$|SystemTime::now|Instant::now|now_ms$|rand|new_artifact_id|fastrand'
    n = 0
    for p, f in sorted(P.fns.items()):
        if f.crate not in ('ripd', 'rip_log', 'rip_workspace', 'rip_tools'):
            continue
        cs = f.calls(CREATE)
        rn = f.calls(RENAME)
        if not cs or not rn:
            continue
        for c in cs:
            pl = f.root_local(c.args[0], through_calls=(r'::as_ref$', r'::deref$', r'::as_path$'))
            for r in rn:
                rp = f.root_local(r.args[0], through_calls=(r'::as_ref$', r'::deref$', r'::as_path$'))
                if rp is None or rp != pl or not f.can_reach(c.bb, r.bb):
                    continue
                n += 1
                ctx.touch(f)
                tmp_reads = reads_locals(f, c.args[0])
                fin_reads = reads_locals(f, r.args[1])
                params = set(range(1, f.argc + 1))
                missing = sorted(f.lname(x) for x in (fin_reads & params) - tmp_reads)
                uniq = any(_does(P, s_.callee, UNIQ) for s_ in f.sites() if s_.dest and s_.dest['l'] in tmp_reads)
                ok = not missing or uniq
                # a shared "write tmp, rename into place" helper gets BOTH names from its caller: judge the pair
                # where the names are made
                fr_ = f.root_local(r.args[1], through_calls=(r'::as_ref$', r'::deref$', r'::as_path$'))
                if not ok and pl is not None and fr_ is not None and 1 <= pl <= f.argc and 1 <= fr_ <= f.argc and '{closure' not in p:
                    callers = [cs_ for cs_ in P.callers('^' + re.escape(p) + '$') if len(cs_.args) >= max(pl, fr_)]
                    if callers:
                        ok = True
                        missing = []
                        for cs_ in callers:
                            g_ = cs_.fn
                            t_r = reads_locals(g_, cs_.args[pl - 1])
                            f_r = reads_locals(g_, cs_.args[fr_ - 1])
                            # upvars of a coroutine body count as its parameters (local 1)
                            prm = set(range(1, g_.argc + 1))
                            mis = sorted(str(g_.lname(x)) for x in (f_r & prm) - t_r)
                            un_ = any(_does(P, s_.callee, UNIQ) for s_ in g_.sites() if s_.dest and s_.dest['l'] in t_r)
                            if mis and not un_:
                                ok = False
                                missing = mis
                ctx.ob(rid, f, 'tmp-private-to-final:' + c.name, ok, 'tmp path %s' % ('reads every parameter the final path reads' + (' (and a uniqueness source)' if uniq else '') if ok else
                       'does NOT depend on %s, which the final path does: the same tmp file serves several final files — concurrent writers overwrite each other\'s content before the rename' % missing), line=c.line)
    ctx.floor(rid, 'tmp + rename pairs', n, 15)


def tmp_unique_in_workspace(ctx, rid, why, crates=('rip_workspace', 'rip_tools')):
    """a temporary the harness creates INSIDE the user's workspace sits among the user's files."""
    P = ctx.prog
    ctx.rule(rid, 'a temporary created next to a workspace file cannot be a file of the user\'s: every "create tmp, rename tmp -> target" pair in rip-workspace / rip-tools builds the tmp name with a uniqueness source (uuid / pid / clock / random). A fixed sibling name (`notes.tmp` for `notes.txt`) may exist already — it is overwritten and renamed away although ' + why)
    UNIQ = r'uuid::|process::id$|SystemTime::now|Instant::now|now_ms$|rand|fastrand|tempfile::'
    n = 0
    for p, f in sorted(P.fns.items()):
        if f.crate not in crates:
            continue
        cs = f.calls(CREATE + r'|^std::fs::OpenOptions::open$|^tokio::fs::(write|File::create)$')
        rn = f.calls(RENAME + r'|^tokio::fs::rename$')
        if not cs or not rn:
            continue
        for c in cs:
            pl = f.root_local(c.args[-1] if c.name == 'open' else c.args[0], through_calls=(r'::as_ref$', r'::deref$', r'::as_path$'))
            for r in rn:
                rp = f.root_local(r.args[0], through_calls=(r'::as_ref$', r'::deref$', r'::as_path$'))
                if rp is None or rp != pl or not f.can_reach(c.bb, r.bb):
                    continue
                tmp_reads = reads_locals(f, c.args[-1] if c.name == 'open' else c.args[0])
                # a temporary is a name the function INVENTS (with_extension / with_file_name / a formatted name); writing a
                # patch-named file and then moving it (`Update File` + `Move to`) is not one
                if not any(_does(P, s_.callee, r'::(with_extension|with_file_name|with_added_extension|set_extension|set_file_name)$|^alloc::fmt::format$') and not re.search(r'::(safe_join|resolve_path|to_relative)$', s_.callee or '') for s_ in f.sites() if s_.dest and s_.dest['l'] in tmp_reads):
                    continue
                n += 1
                ctx.touch(f)
                uniq = any(_does(P, s_.callee, UNIQ) for s_ in f.sites() if s_.dest and s_.dest['l'] in tmp_reads)
                ctx.ob(rid, f, 'workspace-tmp-unique:' + c.name, uniq, 'the temporary `%s` %s' % (f.lname(pl) or '?', 'carries a uniqueness source' if uniq else
                       'has a FIXED name derived from the target only: an existing file of that name in the user\'s workspace is clobbered and renamed away, outside the undo log and the checkpoint'), line=c.line)
    return n
