"""C10 — branch / handoff: lineage recorded, parent untouched (structural clauses)."""
import re

from ..core import CheckError, op_const
from ..effects import Effects
from ..prov import reads_locals, sources
from .c01 import APPEND, event_aggregate_for

STORE = 'ripd::continuities::ContinuityStore::'


def run(ctx):
    P = ctx.prog
    E = Effects(P)
    ctx.not_decided = 'the cut arithmetic (max related seq, last message at or before the cut); that the lineage frame cannot interleave with a concurrent writer on the new thread (K-C01-unlocked).'
    ctx.rule('C10.1', 'parent untouched: in branch / handoff the stream id of every appended frame derives from the result of create_continuity (a fresh id: its continuity_id argument is None) and never from the parent-id parameter.')
    ctx.rule('C10.2', 'first two frames: create_continuity dominates the lineage append, no other truth append lies between them, the lineage frame has the constant seq 1 and next_seq is then set to 2.')
    ctx.rule('C10.3', 'validation before effect: no locally built `return Err(..)` (a validation failure) is reachable after create_continuity.')

    for name, parent_param, lineage in (('branch', 'parent_thread_id', 'ContinuityBranched'), ('handoff', 'from_thread_id', 'ContinuityHandoffCreated')):
        f = P.fn(STORE + name)
        ctx.touch(f)
        pidx = [i for i in range(1, f.argc + 1) if f.lname(i) == parent_param]
        if len(pidx) != 1:
            raise CheckError('C10: %s has no parameter `%s`' % (name, parent_param))
        pidx = pidx[0]
        cc = f.calls(r'ContinuityStore::create_continuity$')
        if len(cc) != 1:
            raise CheckError('C10: %s is expected to call create_continuity once (found %d)' % (name, len(cc)))
        cc = cc[0]
        # fresh id
        k = f.origin(cc.args[2])
        fresh = k[0] == 'rv' and k[1].get('variant') == 'None'
        ctx.ob('C10.1', f, 'fresh-child-id', fresh, 'create_continuity is called with continuity_id = None (a fresh UUID)', line=cc.line)
        apps = f.calls(APPEND)
        if len(apps) != 1:
            raise CheckError('C10: %s is expected to append one lineage frame directly (found %d)' % (name, len(apps)))
        ap = apps[0]
        evl, agg = event_aggregate_for(f, ap)
        if agg is None:
            raise CheckError('C10: lineage Event aggregate not found in ' + name)
        sid = agg['a'][agg['fields'].index('session_id')]
        reads = reads_locals(f, sid)
        src = sources(f, sid)
        from_child = any(x[0] == 'call' and x[1].endswith('ContinuityStore::create_continuity') for x in src)
        ctx.ob('C10.1', f, 'lineage-on-child', from_child and pidx not in reads,
               'the lineage frame\'s stream id derives from %s' % ('the create_continuity result only' if from_child and pidx not in reads else 'something other than the new thread id (parent parameter read: %s)' % (pidx in reads)), line=ap.line)
        # every other appending call: must not take the parent id
        for s in E.sites_with(f, 'TruthAppend'):
            if s is ap or s.bb == ap.bb or s.bb == cc.bb:
                continue
            takes_parent = any(pidx in reads_locals(f, a) for a in s.args)
            ctx.ob('C10.1', f, 'no-append-to-parent:' + s.name, not takes_parent, '%s %s' % (s.name, 'does not receive the parent id' if not takes_parent else 'receives the PARENT id and can append to the parent thread'), line=s.line)
        kind = None
        kop = agg['a'][agg['fields'].index('kind')]
        o = f.origin(kop)
        if o[0] == 'rv':
            kind = o[1].get('variant')
        ctx.ob('C10.2', f, 'lineage-kind', kind == lineage, 'second frame is %s' % kind, line=ap.line)
        ctx.ob('C10.2', f, 'create-before-lineage', f.dom(cc.bb, ap.bb), 'create_continuity dominates the lineage append', line=ap.line)
        between = [s for s in E.sites_with(f, 'TruthAppend') if s.bb not in (cc.bb, ap.bb) and f.can_reach(cc.bb, s.bb) and f.can_reach(s.bb, ap.bb)]
        ctx.ob('C10.2', f, 'nothing-between', not between, 'no other truth append lies between creation and lineage', line=ap.line)
        seqk = op_const(agg['a'][agg['fields'].index('seq')])
        ctx.ob('C10.2', f, 'lineage-seq-1', seqk is not None and seqk.get('v') == '1', 'lineage seq is %s' % (seqk.get('v') if seqk else 'non-constant'), line=ap.line)
        ins = [i for i in f.calls(r'hash::map::HashMap::insert$') if f.can_reach(ap.bb, i.bb)]
        okins = len(ins) == 1 and op_const(ins[0].args[2]) is not None and op_const(ins[0].args[2]).get('v') == '2' and \
            any(x[0] == 'call' and x[1].endswith('create_continuity') for x in sources(f, ins[0].args[1]))
        ctx.ob('C10.2', f, 'next-seq-2', okins, 'after the lineage frame next_seq[child] is set to the constant 2', line=ins[0].line if ins else ap.line)
        # C10.3
        after = f.reach_from_after(cc.bb)
        local_errs = [(bi, st) for (bi, si, st) in f.aggregates(r'^core::result::Result$', 'Err') if st['d']['l'] == 0 and 'p' not in st['d']]
        ctx.floor('C10.3', 'validation returns in ' + name, len(local_errs), 3)
        late = [(bi, st) for (bi, st) in local_errs if bi in after]
        ctx.ob('C10.3', f, 'validate-before-create', not late,
               '%d validation return(s); %s' % (len(local_errs), 'none is reachable after create_continuity' if not late else 'one at line %s is reachable AFTER the child thread was created' % late[0][1].get('ln')),
               line=late[0][1].get('ln') if late else cc.line)
    c104(ctx)
    c105(ctx)
    # create_continuity itself: first frame is ContinuityCreated with seq 0
    c = P.fn(STORE + 'create_continuity')
    ctx.touch(c)
    ap = c.calls(APPEND)
    if len(ap) != 1:
        raise CheckError('C10.2: create_continuity is expected to append exactly one frame')
    evl, agg = event_aggregate_for(c, ap[0])
    seqk = op_const(agg['a'][agg['fields'].index('seq')])
    o = c.origin(agg['a'][agg['fields'].index('kind')])
    ctx.ob('C10.2', c, 'creation-frame', seqk is not None and seqk.get('v') == '0' and o[0] == 'rv' and o[1].get('variant') == 'ContinuityCreated',
           'first frame is %s at seq %s' % (o[1].get('variant') if o[0] == 'rv' else '?', seqk.get('v') if seqk else '?'), line=ap[0].line)


def c104(ctx):
    """a handoff always carries a resolvable summary: the request is refused unless a summary text
    or artifact id is present, and the frame must carry exactly the values that test saw (plus an
    artifact id minted from the text) — a value re-derived after the test escapes it."""
    from ..core import switches
    P = ctx.prog
    ctx.rule('C10.4', 'handoff summary: the "summary required" refusal tests summary_markdown / summary_artifact_id, and the summary_markdown / summary_artifact_id stored in the ContinuityHandoffCreated frame are those very locals (the artifact id possibly re-assigned from write_bundle_v1): no filtered or re-derived copy is stored.')
    f = P.fn(STORE + 'handoff')
    ctx.touch(f)
    # locals tested by is_none in the validation (before create_continuity)
    cc = f.calls(r'ContinuityStore::create_continuity$')[0]
    tested = {}
    for t in f.calls(r'core::option::Option::<T>::is_none$|core::option::Option::<T>::is_some$'):
        if f.can_reach(cc.bb, t.bb):
            continue
        r = f.root_local(t.args[0])
        if r is not None and f.locals[r].get('n') in ('summary_markdown', 'summary_artifact_id'):
            tested[f.lname(r)] = r
    for nm in ('summary_markdown', 'summary_artifact_id'):
        if nm not in tested:
            ctx.ob('C10.4', f, 'summary-tested:' + nm, False, 'the refusal no longer tests `%s` before the child thread is created' % nm, line=f.line)
    ap = f.calls(APPEND)[0]
    evl, agg = event_aggregate_for(f, ap)
    o = f.origin(agg['a'][agg['fields'].index('kind')])
    if not (o[0] == 'rv' and o[1].get('variant') == 'ContinuityHandoffCreated'):
        raise CheckError('C10.4: handoff lineage frame not found')
    kv = o[1]
    for nm in ('summary_markdown', 'summary_artifact_id'):
        op = kv['a'][kv['fields'].index(nm)]
        r = f.root_local(op)
        same = r is not None and r == tested.get(nm)
        ctx.ob('C10.4', f, 'frame-carries-validated:' + nm, same,
               'ContinuityHandoffCreated.%s is %s' % (nm, 'the local the refusal tested' if same else
                                                      'NOT the value the "summary required" test saw (a copy re-derived after the test): the frame can carry neither text nor artifact'), line=ap.line)
    # the only re-assignment of the artifact id is from the bundle writer
    aid = tested.get('summary_artifact_id')
    if aid is not None:
        defs = f.defs(aid)
        bad = []
        for d in defs[1:] if len(defs) > 1 else []:
            src = sources(f, {'c': {'l': aid}})
        wr = [x for x in sources(f, {'c': {'l': aid}}) if x[0] == 'call']
        okw = all(re.search(r'write_bundle_v1$', x[1]) for x in wr)
        ctx.ob('C10.4', f, 'artifact-id-only-from-writer', okw, 'summary_artifact_id is only ever re-assigned from write_bundle_v1 (%s)' % sorted(x[1].rsplit('::', 1)[-1] for x in wr), line=f.line)


def c105(ctx):
    """the cut for `from_message_id` is the LAST frame related to that message (its run may end
    after later messages were posted): the scan that looks for related frames must walk the whole
    source stream."""
    from ..core import switches
    P = ctx.prog
    ctx.rule('C10.5', 'whole-stream scan: in branch / handoff the loop that collects the frames related to `from_message_id` (run_spawned / run_ended of that message) leaves only when the iterator is exhausted — no break / return inside it (runs overlap, so the run that answered the message can end after later messages).')
    adt = P.adts.get('rip_kernel::EventKind')
    idx = {v['name']: i for i, v in enumerate(adt['variants'])}
    for name in ('branch', 'handoff'):
        f = P.fn(STORE + name)
        loops = []
        for h, body in f.loops().items():
            # the loop that inspects ContinuityRunEnded frames
            hit = False
            for (bi, on, ts, els) in switches(f):
                if bi in body and str(idx['ContinuityRunEnded']) in ts:
                    o = f.origin(on)
                    if o[0] == 'rv' and o[1]['k'] == 'discr':
                        hit = True
            if hit:
                loops.append((h, body))
        if not loops:
            raise CheckError('C10.5: %s has no loop over the source events that inspects run_ended frames' % name)
        h, body = min(loops, key=lambda x: len(x[1]))
        exits = [(a, b) for a in body for b in f.succs(a) if b not in body]
        bad = []
        for (a, b) in exits:
            t = f.blocks[a]['t']
            ok = False
            if t['k'] == 'switch':
                o = f.origin(t['on'])
                if o[0] == 'rv' and o[1]['k'] == 'discr':
                    d1 = f.single_def(o[1]['pl']['l'])
                    ok = bool(d1 and d1[2] == 'call' and re.search(r'Iterator>::next$|Iterator::next$', (d1[3]['f'].get('r') or d1[3]['f'].get('p') or '')))
            if not ok:
                bad.append((a, b))
        ctx.ob('C10.5', f, 'related-frames-scan-complete', not bad, 'the scan for frames related to from_message_id %s' % ('ends only when the source stream is exhausted' if not bad else
               'can stop EARLY (a break / return inside the loop): a run that ends after a later message is cut off, and the recorded cut lies before the end of the run that answered the message'),
               line=f.blocks[bad[0][0]]['t'].get('ln') if bad else f.blocks[h]['t'].get('ln', f.line))
