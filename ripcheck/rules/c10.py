"""C10 — branch / handoff: lineage recorded, parent untouched (structural clauses)."""
import re

from ..core import CheckError, op_const
from ..effects import Effects
from ..prov import reads_locals, sources
from .c01 import APPEND, event_aggregate_for, ok_edge_of_try

STORE = 'ripd::continuities::ContinuityStore::'


KEEP = r'::(create_continuity|replay_events|load_next_seq_for|append_\w+|ensure_default|get|new|workspace_root)$'


def lineage_fn(P, name, note=None):
    """branch / handoff as the rules read them: private store helpers they call (a cut-point
    resolution extracted into its own method, ...) are spliced in at the call site."""
    key = '_c10_' + name
    if not hasattr(P, key):
        from ..inline import inline_calls
        base = P.fn(STORE + name)
        g = inline_calls(P, base, lambda body, callee: callee.startswith('ripd::continuities::') and not re.search(KEEP, callee) and len(body.blocks) < 600, depth=1, note=note)
        setattr(P, key, g)
    return getattr(P, key)


def run(ctx):
    P = ctx.prog
    E = Effects(P)
    ctx.not_decided = 'the cut arithmetic (max related seq, last message at or before the cut) beyond the structural clauses below.'
    ctx.rule('C10.1', 'parent untouched: branch / handoff create the child through create_continuity with continuity_id = None (a fresh UUID) and hand it the lineage frame; no other appending call in them receives the parent id; inside create_continuity both frames carry the id of the thread being created.')
    ctx.rule('C10.2', 'first two frames: in create_continuity the creation frame (ContinuityCreated, constant seq 0) dominates the lineage frame (the `lineage` parameter, constant seq 1) with no other truth append between them; branch passes ContinuityBranched and handoff ContinuityHandoffCreated.')
    ctx.rule('C10.3', 'validation before effect: no locally built `return Err(..)` (a validation failure) is reachable after the create_continuity call, and nothing that can fail lies between it and the success return.')

    c = P.fn(STORE + 'create_continuity')
    ctx.touch(c)
    from .c01 import logical_append_sites
    # a private helper that forwards the frame to EventLog::append (and propagates its failure) counts as the append
    aps = [x for x in logical_append_sites(P, [x for x in P.callers(APPEND) if x.fn.path.startswith(STORE)]) if x.fn is c]
    if len(aps) != 2:
        raise CheckError('C10.2: create_continuity is expected to append the creation frame and the optional lineage frame (found %d appends)' % len(aps))
    first = [x for x in aps if c.dom(x.bb, [y for y in aps if y is not x][0].bb)]
    if len(first) != 1:
        raise CheckError('C10.2: the two appends of create_continuity are not ordered by dominance')
    a0 = first[0]
    a1 = [x for x in aps if x is not a0][0]
    _, agg0 = event_aggregate_for(c, a0, P)
    _, agg1 = event_aggregate_for(c, a1, P)
    if agg0 is None or agg1 is None:
        raise CheckError('C10.2: frame aggregates of create_continuity not found')
    k0 = op_const(agg0['a'][agg0['fields'].index('seq')])
    o0 = c.origin(agg0['a'][agg0['fields'].index('kind')])
    ctx.ob('C10.2', c, 'creation-frame', k0 is not None and k0.get('v') == '0' and o0[0] == 'rv' and o0[1].get('variant') == 'ContinuityCreated',
           'first frame is %s at seq %s' % (o0[1].get('variant') if o0[0] == 'rv' else '?', k0.get('v') if k0 else '?'), line=a0.line)
    k1 = op_const(agg1['a'][agg1['fields'].index('seq')])
    lin = [i for i in range(1, c.argc + 1) if c.lname(i) == 'lineage'] or [i for i in range(1, c.argc + 1) if re.search(r'Option<rip_kernel::EventKind>', c.lty(i))]
    kl = c.root_local(agg1['a'][agg1['fields'].index('kind')])
    from ..prov import reads_locals as _rl
    from_param = bool(lin) and lin[0] in _rl(c, agg1['a'][agg1['fields'].index('kind')])
    ctx.ob('C10.2', c, 'lineage-frame', k1 is not None and k1.get('v') == '1' and from_param,
           'second frame has seq %s and its kind is the `lineage` parameter: %s' % (k1.get('v') if k1 else '?', from_param), line=a1.line)
    e0 = ok_edge_of_try(c, a0)
    ctx.ob('C10.2', c, 'create-before-lineage', e0 is not None and e0[1] is not None and c.edge_dom(e0[0], e0[1], a1.bb), 'the lineage frame is appended only after the creation frame is in the log', line=a1.line)
    between = [x for x in E.sites_with(c, 'TruthAppend') if x.bb not in (a0.bb, a1.bb) and c.can_reach(a0.bb, x.bb) and c.can_reach(x.bb, a1.bb)]
    # nothing that can fail lies between the two frames either: a `?` there (an index save, a cache write) leaves a
    # child whose only frame is its creation — the lineage is lost although the caller is told the call failed
    e0_ = ok_edge_of_try(c, a0)
    fall_between = []
    if e0_ is not None and e0_[1] is not None:
        for s_ in c.sites():
            if re.search(r'Try>::branch$|FromResidual<.*>>::from_residual$', s_.callee) and c.edge_dom(e0_[0], e0_[1], s_.bb) and c.can_reach(s_.bb, a1.bb) and s_.bb != a1.bb:
                fall_between.append(s_)
    ctx.ob('C10.2', c, 'nothing-fallible-between', not fall_between, 'between the creation frame and the lineage frame %s' % ('nothing can return an error' if not fall_between else
           'a `?` (line %d) can return: the new thread would exist with its creation frame only' % fall_between[0].line), line=fall_between[0].line if fall_between else a1.line)
    ctx.ob('C10.2', c, 'nothing-between', not between, 'no other truth append lies between creation and lineage', line=a1.line)
    s0 = agg0['a'][agg0['fields'].index('session_id')]
    s1 = agg1['a'][agg1['fields'].index('session_id')]
    same = c.root_local(s0, through_calls=(r'::clone$', r'Clone>::clone$')) == c.root_local(s1, through_calls=(r'::clone$', r'Clone>::clone$')) is not None
    ctx.ob('C10.1', c, 'both-frames-on-child', bool(same), 'both frames carry the same (new) stream id', line=a1.line)

    for name, parent_param, lineage in (('branch', 'parent_thread_id', 'ContinuityBranched'), ('handoff', 'from_thread_id', 'ContinuityHandoffCreated')):
        f = lineage_fn(P, name, ctx.note)
        ctx.touch(f)
        # the source thread id: by name, otherwise the first parameter after self (a &str / String)
        pidx = [i for i in range(1, f.argc + 1) if f.lname(i) == parent_param]
        if len(pidx) != 1 and f.argc >= 2 and re.search(r'str|String', f.lty(2)):
            pidx = [2]
        if len(pidx) != 1:
            raise CheckError('C10: %s has no source-thread parameter' % name)
        pidx = pidx[0]
        ccs = f.calls(r'ContinuityStore::create_continuity$')
        if not ccs:
            raise CheckError('C10: %s does not call create_continuity' % name)
        # the cut recorded in the lineage frame comes from the full replay of the source thread, never from a
        # bounded cache scan (a tail window does not know whether the last message lies before it)
        cache_dests = {s_.dest['l'] for s_ in f.sites() if re.search(r'^ripd::continuity_stream_cache::ContinuityStreamCache::(?!append_best_effort|new)', s_.callee)}
        # ... also through a helper of the store that answers from the caches (`head_cut_from_sidecars_v1`): a callee of the crate,
        # other than the sanctioned replay, that reaches a cache read within two calls
        CACHE_RD = r'^ripd::continuity_stream_cache::ContinuityStreamCache::(?!append_best_effort|new|rebuild_)'
        for s_ in f.sites():
            H_ = P.fns.get(s_.callee or '')
            if H_ is None or H_.crate != 'ripd' or s_.dest is None or re.search(r'::(replay_events|create_continuity|load_next_seq_for)$', s_.callee) or re.search(CACHE_RD, s_.callee):
                continue
            inner = [x for x in H_.sites()] + [y for x in H_.sites() if (x.callee or '') in P.fns and P.fns[x.callee].crate == 'ripd' and not re.search(r'::(replay_events|create_continuity)$', x.callee) for y in P.fns[x.callee].sites()]
            if any(re.search(CACHE_RD, x.callee or '') for x in inner):
                cache_dests.add(s_.dest['l'])
        # ... nor from a second look at the store's state (the seq table): the cut seq and the cut message must come from
        # ONE snapshot of the source thread, the replay
        from .c01 import SEQ_GUARD
        cache_dests |= {i for i, l in enumerate(f.locals) if re.match(SEQ_GUARD, l['ty'])}
        for cci in ccs:
            lo_ = f.origin(cci.args[5]) if len(cci.args) > 5 else ('?',)
            rl_ = reads_locals(f, cci.args[5]) if len(cci.args) > 5 else set()
            hit = rl_ & cache_dests
            ctx.ob('C10.1', f, 'lineage-from-truth', not hit, 'the lineage frame handed to create_continuity %s' % ('is computed from the replayed source thread' if not hit else
                   'is computed from a second source (%s) besides the replay: a cache window can miss the last message; the seq table can already be ahead of the replay that names the message' % (', '.join(sorted({s_.name for s_ in f.sites() if s_.dest['l'] in hit})) or 'the next_seq table')), line=cci.line)
        cc = ccs[0]
        if len(ccs) > 1:
            ctx.note('C10: %s reaches create_continuity at %d call sites (mutually exclusive arms); the per-call clauses below are evaluated for each' % (name, len(ccs)))
        for cc in ccs:
            k = f.origin(cc.args[2])
            fresh = k[0] == 'rv' and k[1].get('variant') == 'None'
            ctx.ob('C10.1', f, 'fresh-child-id', fresh, 'create_continuity is called with continuity_id = None (a fresh UUID)', line=cc.line)
            # lineage argument: Some(EventKind::<lineage>)
            lo = f.origin(cc.args[5]) if len(cc.args) > 5 else ('?',)
            kind = None
            kv = None
            if lo[0] == 'rv' and lo[1].get('variant') == 'Some':
                ko = f.origin(lo[1]['a'][0])
                if ko[0] == 'rv' and ko[1].get('adt') == 'rip_kernel::EventKind':
                    kind = ko[1]['variant']
                    kv = ko[1]
            ctx.ob('C10.2', f, 'lineage-kind', kind == lineage, 'the lineage frame handed to create_continuity is %s' % kind, line=cc.line)
            for s in E.sites_with(f, 'TruthAppend'):
                if any(s.bb == c_.bb for c_ in ccs):
                    continue
                takes_parent = any(pidx in reads_locals(f, a) for a in s.args)
                ctx.ob('C10.1', f, 'no-append-to-parent:' + s.name, not takes_parent, '%s %s' % (s.name, 'does not receive the parent id' if not takes_parent else 'receives the PARENT id and can append to the parent thread'), line=s.line)
            ctx.ob('C10.1', f, 'single-appending-call', all(any(s.bb == c_.bb for c_ in ccs) for s in E.sites_with(f, 'TruthAppend')) and not any(f.can_reach(c1.bb, c2.bb) for c1 in ccs for c2 in ccs if c1 is not c2), 'the only appending call of %s is create_continuity' % name, line=cc.line)
            after = f.reach_from_after(cc.bb)
            local_errs = [(bi, st) for (bi, si, st) in f.aggregates(r'^core::result::Result$', 'Err') if st['d']['l'] == 0 and 'p' not in st['d']]
            # refusals that sit in a spliced helper (`resolve_lineage_cut_v1(..)?`) build their Err into the helper's result, which the
            # caller then propagates: every other Err construction of the spliced body counts as a validation return too
            local_errs += [(bi, st) for (bi, si, st) in f.aggregates(r'^core::result::Result$', 'Err') if not (st['d']['l'] == 0 and 'p' not in st['d'])]
            ctx.floor('C10.3', 'validation returns in ' + name, len(local_errs), 3)
            late = [(bi, st) for (bi, st) in local_errs if bi in after]
            ctx.ob('C10.3', f, 'validate-before-create', not late,
                   '%d validation return(s); %s' % (len(local_errs), 'none is reachable after create_continuity' if not late else 'one at line %s is reachable AFTER the child thread was created' % late[0][1].get('ln')),
                   line=late[0][1].get('ln') if late else cc.line)
            fall = [s for s in f.sites() if s.bb in after and re.search(r'Try>::branch$', s.callee) and s.bb != cc.bb and not f.dom(s.bb, cc.bb)]
            e = ok_edge_of_try(f, cc)
            fall = [s for s in fall if e is not None and e[1] is not None and f.edge_dom(e[0], e[1], s.bb)]
            ctx.ob('C10.3', f, 'nothing-fallible-after-create', not fall, 'after the child exists %s' % ('nothing can fail before the success return' if not fall else 'a `?` can still return an error (the child would exist without the caller knowing)'), line=fall[0].line if fall else cc.line)
        if name == 'handoff':
            c104(ctx, f, kv, cc)
    c105(ctx)


def c104(ctx, f, kv, cc):
    """a handoff always carries a resolvable summary: the request is refused unless a summary text
    or artifact id is present, and the frame must carry exactly the values that test saw (plus an
    artifact id minted from the text) — a value re-derived after the test escapes it."""
    ctx.rule('C10.4', 'handoff summary: the "summary required" refusal tests summary_markdown / summary_artifact_id, and the summary_markdown / summary_artifact_id stored in the ContinuityHandoffCreated frame are those very locals (the artifact id possibly re-assigned from write_bundle_v1): no filtered or re-derived copy is stored.')
    if kv is None:
        raise CheckError('C10.4: handoff lineage frame not found')
    tested = {}
    for t in f.calls(r'core::option::Option::<T>::is_none$|core::option::Option::<T>::is_some$'):
        r = f.root_local(t.args[0])
        if r is not None and f.locals[r].get('n') in ('summary_markdown', 'summary_artifact_id'):
            # the refusal: its true edge leads to a validation return
            tested.setdefault(f.lname(r), r)
    # the same refusal written as a pattern: `if let (None, None) = (&summary_markdown, &summary_artifact_id)` —
    # a discriminant test of the local (through the tuple of references), before the child is created
    for bi in f.reachable():
        for st in f.blocks[bi]['s']:
            rv = st.get('rv')
            if rv and rv['k'] == 'discr' and f.can_reach(bi, cc.bb):
                for r in reads_locals(f, {'c': rv['pl']}):
                    nm_ = f.locals[r].get('n')
                    if nm_ in ('summary_markdown', 'summary_artifact_id') and f.lty(r).startswith('core::option::Option<'):
                        tested.setdefault(nm_, r)
    for nm in ('summary_markdown', 'summary_artifact_id'):
        if nm not in tested:
            ctx.ob('C10.4', f, 'summary-tested:' + nm, False, 'the refusal no longer tests `%s`' % nm, line=f.line)
    for nm in ('summary_markdown', 'summary_artifact_id'):
        op = kv['a'][kv['fields'].index(nm)]
        r = f.root_local(op)
        same = r is not None and r == tested.get(nm)
        ctx.ob('C10.4', f, 'frame-carries-validated:' + nm, same,
               'ContinuityHandoffCreated.%s is %s' % (nm, 'the local the refusal tested' if same else
                                                      'NOT the value the "summary required" test saw (a copy re-derived after the test): the frame can carry neither text nor artifact'), line=cc.line)
    aid = tested.get('summary_artifact_id')
    if aid is not None:
        wr = [x for x in sources(f, {'c': {'l': aid}}) if x[0] == 'call']
        okw = all(re.search(r'write_bundle_v1$', x[1]) for x in wr)
        ctx.ob('C10.4', f, 'artifact-id-only-from-writer', okw, 'summary_artifact_id is only ever re-assigned from write_bundle_v1 (%s)' % sorted(x[1].rsplit('::', 1)[-1] for x in wr), line=f.line)


def c105(ctx):
    """the cut for `from_message_id` is the LAST frame related to that message (its run may end
    after later messages were posted): the scan that looks for related frames must walk the whole
    source stream."""
    from ..core import switches
    P = ctx.prog
    ctx.rule('C10.5', 'whole-stream scan: in branch / handoff the loop that collects the frames related to `from_message_id` (run_spawned / run_ended of that message) leaves only when the iterator is exhausted — no break / return inside it (runs overlap, so the run that answered the message can end after later messages).')
    adt = P.adts.get('rip_kernel::EventKind')
    idx = {v['name']: i for i, v in enumerate(adt['variants'])}
    for name in ('branch', 'handoff'):
        f = lineage_fn(P, name, ctx.note)
        loops = []
        for h, body in f.loops().items():
            # the loop that inspects ContinuityRunEnded frames
            hit = False
            for (bi, on, ts, els) in switches(f):
                if bi in body and str(idx['ContinuityRunEnded']) in ts:
                    o = f.origin(on)
                    if o[0] == 'rv' and o[1]['k'] == 'discr':
                        hit = True
            if hit:
                loops.append((h, body))
        if not loops:
            # iterator form: a closure that matches run_ended frames, handed to an adaptor. filter / map / fold / max /
            # for_each visit the whole stream; find / any / position / take_while / skip_while / take stop early.
            fam_ = list(P.family(STORE + name))
            for hb in sorted(getattr(f, 'inlined_bodies', ())):
                fam_ += [x for x in P.family(hb) if x not in fam_]
            users = []
            for g in fam_:
                for s_ in g.sites():
                    for a in s_.args:
                        o = g.origin(a)
                        if o[0] == 'rv' and o[1].get('ak') == 'closure' and o[1].get('def') in P.fns:
                            cf = P.fns[o[1]['def']]
                            if any(str(idx['ContinuityRunEnded']) in ts for (bi, on, ts, els) in switches(cf)):
                                users.append(s_)
            if not users:
                raise CheckError('C10.5: %s neither loops over the source events nor hands a run_ended-matching closure to an iterator adaptor' % name)
            early = [u for u in users if re.search(r'::(find|find_map|any|all|position|rposition|take_while|skip_while|map_while|take|try_fold|try_for_each)$', u.callee)]
            ctx.ob('C10.5', f, 'related-frames-scan-complete', not early, 'the frames related to from_message_id are collected by %s: %s' % (', '.join(sorted({u.name for u in users})),
                   'every frame of the source stream is visited' if not early else 'the adaptor can stop EARLY — a run that ends after a later message is cut off'), line=users[0].line)
            continue
        h, body = min(loops, key=lambda x: len(x[1]))
        exits = [(a, b) for a in body for b in f.succs(a) if b not in body]
        bad = []
        for (a, b) in exits:
            t = f.blocks[a]['t']
            ok = False
            if t['k'] == 'switch':
                o = f.origin(t['on'])
                if o[0] == 'rv' and o[1]['k'] == 'discr':
                    d1 = f.single_def(o[1]['pl']['l'])
                    ok = bool(d1 and d1[2] == 'call' and re.search(r'Iterator>::next$|Iterator::next$', (d1[3]['f'].get('r') or d1[3]['f'].get('p') or '')))
            if not ok:
                bad.append((a, b))
        ctx.ob('C10.5', f, 'related-frames-scan-complete', not bad, 'the scan for frames related to from_message_id %s' % ('ends only when the source stream is exhausted' if not bad else
               'can stop EARLY (a break / return inside the loop): a run that ends after a later message is cut off, and the recorded cut lies before the end of the run that answered the message'),
               line=f.blocks[bad[0][0]]['t'].get('ln') if bad else f.blocks[h]['t'].get('ln', f.line))

    # ---------------------------------------------------------------- C10.6
    ctx.rule('C10.6', 'the from_seq cut is inclusive ("the last message at or before the cut"): in branch / handoff and their closures every ordering comparison of Event.seq keeps `seq <= cut` (Le, or Ge with the operands swapped) or drops `seq > cut`; a strict `seq < cut` (or dropping `seq >= cut`) loses the frame that sits exactly at the cut.')

    def is_event_seq(g, op):
        src = g.origin(op)
        return src[0] == 'local' and any(isinstance(pp, dict) and pp.get('n') == 'seq' and pp.get('o') == 'rip_kernel::Event' for pp in src[2])
    ncmp = 0
    for name in ('branch', 'handoff'):
        fam_ = list(P.family(STORE + name))
        for hb in sorted(getattr(lineage_fn(P, name), 'inlined_bodies', ())):
            fam_ += [x for x in P.family(hb) if x not in fam_]
        # a small predicate closure that is handed the seq (`within_cut(event.seq)`): its parameter stands for Event.seq
        seq_params = {}
        for g2 in fam_:
            for s_ in g2.sites():
                if s_.callee in P.fns and '{closure' in s_.callee and len(s_.args) >= 2:
                    o_ = g2.origin(s_.args[1])
                    els_ = o_[1]['a'] if o_[0] == 'rv' and o_[1].get('ak') == 'tuple' else [s_.args[1]]
                    for i_, el in enumerate(els_):
                        if is_event_seq(g2, el):
                            seq_params.setdefault(s_.callee, set()).add(2 + i_)

        def is_seq(g, op):
            if is_event_seq(g, op):
                return True
            r_ = g.root_local(op)
            return r_ is not None and r_ in seq_params.get(g.path, ())
        for g in fam_:
            for bi in g.reachable():
                for st in g.blocks[bi]['s']:
                    rv = st.get('rv')
                    if not (rv and rv['k'] == 'bin' and rv['op'] in ('Lt', 'Le', 'Gt', 'Ge')):
                        continue
                    a, b = rv['a']
                    la, lb = is_seq(g, a), is_seq(g, b)
                    if la == lb:
                        continue          # neither, or a comparison between two frames
                    ncmp += 1
                    op = rv['op'] if la else {'Lt': 'Gt', 'Gt': 'Lt', 'Le': 'Ge', 'Ge': 'Le'}[rv['op']]
                    ok = op in ('Le', 'Gt')
                    ctx.ob('C10.6', g, 'cut-inclusive', ok, 'Event.seq %s cut: %s' % ({'Le': '<=', 'Gt': '>', 'Lt': '<', 'Ge': '>='}[op], 'the frame at the cut belongs to the child\'s history' if ok else
                           'STRICT — the frame exactly at from_seq falls on the wrong side (the lineage names the previous message, or none)'), line=st.get('ln'))
    ctx.floor('C10.6', 'ordering comparisons of Event.seq in branch / handoff', ncmp, 2)


    # ---------------------------------------------------------------- C10.7
    ctx.rule('C10.7', 'from_message_id names a message: wherever branch / handoff (and their closures) compare Event.id with the requested id to find the anchor, the comparison is reachable only on the ContinuityMessageAppended arm of a test of that frame\'s kind — any other frame id (run_spawned, run_ended, created) must be refused, not recorded as the message the child starts from.')
    adt = P.adts.get('rip_kernel::EventKind')
    vidx = {v['name']: i for i, v in enumerate(adt['variants'])}
    nid = 0
    from ..core import switches as _sw7
    for name in ('branch', 'handoff'):
        fam_ = [lineage_fn(P, name)] + [g for g in P.family(STORE + name) if g.path != STORE + name]
        for hb in sorted(getattr(fam_[0], 'inlined_bodies', ())):
            fam_ += [x for x in P.family(hb) if x not in fam_ and x.path != hb]
        for g in fam_:
            for c in g.calls(r'PartialEq(::|.*>::)(eq|ne)$'):
                isid = False
                for a in c.args:
                    src = g.origin(a)
                    if src[0] == 'local' and any(isinstance(pp, dict) and pp.get('n') == 'id' and pp.get('o') == 'rip_kernel::Event' for pp in src[2]):
                        isid = True
                if not isid:
                    continue
                nid += 1
                ok = False
                for (bi, on, ts, els) in _sw7(g):
                    o = g.origin(on)
                    if o[0] == 'rv' and o[1]['k'] == 'discr' and str(vidx['ContinuityMessageAppended']) in ts:
                        from ..core import sole_target as _sole
                        if _sole(ts, els, str(vidx['ContinuityMessageAppended'])) is not None and g.edge_dom(bi, ts[str(vidx['ContinuityMessageAppended'])], c.bb):
                            ok = True
                ctx.ob('C10.7', g, 'anchor-is-a-message', ok, 'Event.id is compared with the requested id %s' % ('only on the ContinuityMessageAppended arm' if ok else
                       'for frames of ANY kind: the id of a run_spawned / run_ended / created frame is accepted as from_message_id'), line=c.line)
    ctx.floor('C10.7', 'comparisons of Event.id with the requested message id in branch / handoff', nid, 2)

    # ---------------------------------------------------------------- C10.8
    from ..taint import Taint
    ctx.rule('C10.8', 'the message a lineage frame names is a frame of the source thread: the parent_message_id / from_message_id of every ContinuityBranched / ContinuityHandoffCreated built in the store derives from Event.id of replayed frames or from the caller\'s (validated) message id — never from the PAYLOAD of an earlier lineage frame (the parent_message_id a branched thread carries is an id of its grandparent\'s stream, not of the thread being cut).')
    LIN = ('parent_message_id', 'from_message_id')
    T8 = Taint(P, lambda o, n: ('the %s payload of an earlier lineage frame' % n) if o == 'rip_kernel::EventKind' and n in LIN else None,
               scope=lambda fn: fn.path.startswith('ripd::continuities::')).run()
    n8 = 0
    for p_, g in sorted(P.fns.items()):
        if not p_.startswith('ripd::continuities::'):
            continue
        for (bi, si, st) in g.aggregates(r'^rip_kernel::EventKind$'):
            rv = st['rv']
            if rv.get('variant') not in ('ContinuityBranched', 'ContinuityHandoffCreated'):
                continue
            for fld, op in zip(rv['fields'], rv['a']):
                if fld not in LIN:
                    continue
                n8 += 1
                ctx.touch(g)
                lab = T8.tainted(g, op, bi)
                ctx.ob('C10.8', g, 'lineage-names-a-source-frame:' + fld, not lab,
                       '%s.%s %s' % (rv.get('variant'), fld, 'derives from frame ids / the caller\'s message id only' if not lab else
                       'can carry %s: the new thread\'s lineage then points at a message that is not a frame of the thread it was cut from' % lab), line=st.get('ln'))
    ctx.floor('C10.8', 'message-id fields of lineage frames built in the store', n8, 2)
