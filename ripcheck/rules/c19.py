"""C19 — secrets never reach frames, artifacts, caches, logs or diagnostics (information flow)."""
import re

from ..core import CheckError, Site, op_const, op_place
from ..effects import site_effects
from ..prov import fields_read, sources
from ..taint import Taint

SECRET_TYPES = ['ripd::provider_openresponses::OpenResponsesConfig', 'ripd::config::OpenResponsesResolvedConfig', 'ripd::config::ProviderConfig']
SECRET_FIELDS = {(t, 'api_key'): 'api_key' for t in SECRET_TYPES}
SECRET_FIELDS[('ripd::config::ApiKeySource', '0')] = 'inline api key'
HEADER_FIELDS = {(t, 'headers') for t in SECRET_TYPES}
BEARING = SECRET_TYPES + ['ripd::config::ApiKeySource', 'ripd::config::RipConfig', 'ripd::config::LoadedConfig']
# the outgoing request carries the secrets once bearer_auth / header attached them: formatting it leaks header values
REQUEST_TYPES = ['reqwest::async_impl::request::RequestBuilder', 'reqwest::async_impl::request::Request', 'http::header::map::HeaderMap']
SOURCE_CALLS = r'^ripd::config::ApiKeySource::resolve$'
SANCTIONED = [r'reqwest::async_impl::request::RequestBuilder::(bearer_auth|header|headers)$', r'^std::env::set_var$']
DECLASS = [r'::is_some$', r'::is_none$', r'::is_empty$', r'::len$', r'::is_some_and$', r'^ripd::config::ApiKeySource::description$']
WRAPPERS = r'^core::option::Option$|^core::result::Result$|^core::ops::control_flow::ControlFlow$|^core::task::poll::Poll$|^alloc::borrow::Cow$'
CLEAN = re.compile(r'^(bool|u8|u16|u32|u64|u128|usize|i8|i16|i32|i64|i128|isize|f32|f64|char|core::option::Option|core::result::Result|core::ops::control_flow::ControlFlow|core::convert::Infallible|core::cmp::Ordering|[\s\(\)<>,&]|mut|::)*$')


def clean_type(ty):
    return bool(CLEAN.match(ty))


def run(ctx):
    P = ctx.prog
    ctx.not_decided = 'what a provider echoes back in a response body (an Authorization header echoed in an error body would be recorded as provider data).'
    ctx.rule('C19.1', 'source -> sink information flow: values read from the declared secret slots (api_key of the three config types, ApiKeySource::Inline), results of ApiKeySource::resolve and of env lookups whose constant key ends in API_KEY, never reach a frame / payload aggregate, a formatting argument, a serialiser, a file write, an HTTP response constructor or a struct literal of a non-config type; the only uses are RequestBuilder::bearer_auth / header, presence tests and hand-over through env::set_var with a constant *_API_KEY name.')
    ctx.rule('C19.2', 'no formatting / serialising of secret-bearing types: no Debug / Display / Serialize instantiation on the config types, nor on the outgoing reqwest RequestBuilder / Request / HeaderMap (which carry the attached header values), outside derive expansions.')
    ctx.rule('C19.4', 'serde type errors quote the offending value: the Err of a typed deserialisation into a secret-bearing config type is a secret source (variant-precise) and must not reach a frame, a formatted message, a serialiser, a file or a diagnostics struct.')
    ctx.rule('C19.3', 'header values: every read of a `headers` slot of the config types either moves it into another config slot, hands name and value to RequestBuilder::header, or projects the names only (closure returning tuple field 0).')

    # env readers: std::env::var / var_os and every workspace wrapper that hands one of its own
    # parameters to a reader as the key and returns what it read — {path: index of the key argument}
    ENV_READERS = {'std::env::var': 0, 'std::env::var_os': 0}
    for _ in range(3):
        for p_, g in P.fns.items():
            if p_ in ENV_READERS or g.crate not in ('ripd', 'rip') or '{closure' in p_:
                continue
            for s_ in g.sites():
                k = ENV_READERS.get(s_.callee)
                if k is None or k >= len(s_.args):
                    continue
                kl = g.root_local(s_.args[k], through_calls=(r'::as_ref$', r'::deref$', r'::as_str$', r'::borrow$'))
                if kl is not None and 1 <= kl <= g.argc:
                    ENV_READERS[p_] = kl - 1

    def secret_key(fn, op):
        """is the key of an env lookup a secret reference? a constant *API_KEY, or the variable
        name a config file points at (ApiKeySource::Env { env })."""
        o = fn.origin(op, through_calls=(r'::as_ref$', r'::deref$', r'::as_str$', r'::borrow$'))
        if o[0] == 'const' and str(o[1].get('str', '')).endswith('API_KEY'):
            return 'env:' + o[1]['str']
        if o[0] != 'const' and 'env' in fields_read(fn, op, 'ripd::config::ApiKeySource'):
            return 'env:<the variable ApiKeySource::Env names>'
        return None

    def keyed_by_secret(path, depth=0):
        """some caller passes a secret key (directly or through another reader) to this env reader."""
        if depth > 3:
            return None
        k = ENV_READERS.get(path)
        for g in P.fns.values():
            for s_ in g.sites():
                if s_.callee != path or k is None or k >= len(s_.args):
                    continue
                lab = secret_key(g, s_.args[k])
                if lab:
                    return lab
                kl = g.root_local(s_.args[k], through_calls=(r'::as_ref$', r'::deref$', r'::as_str$', r'::borrow$'))
                if kl is not None and 1 <= kl <= g.argc and g.path in ENV_READERS:
                    lab = keyed_by_secret(g.path, depth + 1)
                    if lab:
                        return lab
        return None

    def source_call(site):
        c = site.callee
        if c in ENV_READERS and ENV_READERS[c] < len(site.args):
            # a lookup keyed by a secret reference: the value AND the error are secret (VarError::NotUnicode quotes the value)
            lab = secret_key(site.fn, site.args[ENV_READERS[c]])
            if lab:
                return lab
        if re.search(r'^serde_json::(value::from_value|value::de::from_value|de::from_str|de::from_slice|de::from_reader)$', c) and any(
                any(g == t or g.startswith(t + '<') for t in BEARING) for g in site.ga):
            # serde *type* errors quote the offending value ("invalid type: string \"sk-...\""): the Err of a
            # typed parse into a secret-bearing config type is secret-derived; the Ok value is covered by its slots
            return ('variant', 'Err', 'the error of a typed config parse (quotes config values)')
        if re.search(SOURCE_CALLS, c):
            return 'ApiKeySource::resolve'
        if re.search(r'^std::env::(var|var_os)$|^ripd::config::env_var$', c) and site.args:
            o = site.fn.origin(site.args[0], through_calls=(r'::as_ref$', r'::deref$', r'::as_str$'))
            if o[0] == 'const' and str(o[1].get('str', '')).endswith('API_KEY'):
                return 'env:' + o[1]['str']
            if o[0] != 'const':
                # env lookup with a computed key (ApiKeySource::Env): the key name comes from configuration
                if site.fn.path.startswith('ripd::config::ApiKeySource::resolve'):
                    return 'env:<configured>'
        return None

    T = Taint(P, lambda o, n: SECRET_FIELDS.get((o, n)), source_call=source_call, sanitizers=SANCTIONED, declassifiers=DECLASS,
              scope=lambda f: f.crate in ('ripd', 'rip', 'rip_provider_openresponses', 'rip_openresponses', 'rip_tools', 'rip_kernel', 'rip_log'),
              carrier_fields=lambda adt, fld: (adt, fld) in SECRET_FIELDS or (adt == 'ripd::config::ApiKeySource'),
              clean_type=clean_type,
              agg_sink=lambda adt: not re.search(WRAPPERS, adt) and adt not in BEARING).run()
    readers = set()
    nsrc = 0
    sinks = 0
    for p, f in sorted(P.fns.items()):
        if f.crate not in ('ripd', 'rip'):
            continue
        tainted_here = p in T.t and T.t[p] or p in T.env and T.env[p]
        # count sources
        for s in f.sites():
            if source_call(s):
                nsrc += 1
                readers.add(p)
        for bi in f.reachable():
            bl = f.blocks[bi]
            for st in bl['s']:
                rv = st.get('rv')
                if not rv:
                    continue
                pls = [op_place(o) for o in rv.get('a', [])] + ([rv['pl']] if 'pl' in rv else [])
                for pl in pls:
                    if pl:
                        for pp in pl.get('p', []):
                            if isinstance(pp, dict) and (pp.get('o'), pp.get('n')) in SECRET_FIELDS:
                                readers.add(p)
                # ---- aggregate sinks
                if rv['k'] == 'agg' and rv.get('ak') == 'adt':
                    adt = rv['adt']
                    if re.search(WRAPPERS, adt) or adt in BEARING:
                        continue
                    for fname, o in zip(rv.get('fields', []), rv['a']):
                        sinks += 1
                        lab = T.tainted(f, o)
                        if lab:
                            ctx.ob('C19.1', f, 'secret-into-aggregate:%s.%s' % (adt.rsplit('::', 1)[-1], fname), False,
                                   'a value derived from %s is stored into %s.%s (%s)' % (lab, adt, fname, 'a frame payload' if adt.startswith('rip_kernel::') else 'not a config type'), line=st.get('ln'))
            t = bl['t']
            if t['k'] != 'call' or 'p' not in t.get('f', {}):
                continue
            s = Site(f, bi, t)
            c = s.callee
            kind = None
            if re.search(r'^core::fmt::rt::Argument::<\'_>::new_|^core::fmt::rt::Argument::new_', c):
                kind = 'a formatting argument'
            elif re.search(r'^serde_json::(ser::to_|value::to_value|value::ser)|serde_core::ser::Serialize>::serialize$|Serialize::serialize$', c):
                kind = 'a serialiser'
            elif site_effects(s) & {'FsWrite'} or re.search(r'std::io::Write>::write|AsyncWriteExt::write', c):
                kind = 'a file write'
            elif re.search(r'^std::io::stdio::_e?print$|^tracing|^log::', c):
                kind = 'process output'
            elif re.search(r'serde_json::value::Value as core::convert::From<.*>>::from$|serde_json::value::Value::from', c):
                kind = 'a JSON value'
            if kind is None:
                continue
            for a in s.args:
                sinks += 1
                lab = T.tainted(f, a)
                if lab:
                    ctx.ob('C19.1', f, 'secret-into-sink:' + s.name, False, 'a value derived from %s reaches %s (%s)' % (lab, kind, c), line=s.line)
    ctx.floor('C19.1', 'functions reading a secret slot or source', len(readers), 4)
    ctx.floor('C19.1', 'secret source calls', nsrc, 4)
    for r in sorted(readers):
        ctx.touch(P.fns[r])
    ntf = len([p for p in T.t if T.t[p]])
    ctx.ob('C19.1', 'workspace', 'secret-flows-examined', True, '%d functions read a secret slot / source (%s); taint reached %d function(s); %d sink operands examined; fixpoint in %d rounds' % (
        len(readers), ', '.join(x.rsplit('::', 2)[-2] + '::' + x.rsplit('::', 1)[-1] if '{closure' not in x else x.split('::{closure')[0].rsplit('::', 1)[-1] + '{..}' for x in sorted(readers)), ntf, sinks, T.rounds))

    # ---------------------------------------------------------------- C19.5
    ctx.rule('C19.5', 'env-reading helpers are as silent as their most secret caller: a workspace function that looks an environment variable up under a key it receives as a parameter, and that some caller uses for a *API_KEY / configured key reference, does not hand the looked-up value (or the lookup error) to a formatting argument, process output, a serialiser or a file write inside its own body.')
    from ..prov import reads_locals
    nh = 0
    for hp in sorted(ENV_READERS):
        h = P.fns.get(hp)
        if h is None:
            continue
        lab = keyed_by_secret(hp)
        if not lab:
            continue
        nh += 1
        ctx.touch(h)
        looked = [s_.dest['l'] for s_ in h.sites() if s_.callee in ENV_READERS]
        leaks = []
        for s_ in h.sites():
            c = s_.callee
            if re.search(r"^core::fmt::rt::Argument::<'_>::new_|^core::fmt::rt::Argument::new_", c) or re.search(r'^serde_json::(ser::to_|value::to_value)', c) \
                    or re.search(r'^std::io::stdio::_e?print$|^tracing|^log::', c) or site_effects(s_) & {'FsWrite'} or re.search(r'std::io::Write>::write', c):
                for a in s_.args:
                    if reads_locals(h, a) & set(looked):
                        leaks.append(s_)
        ctx.ob('C19.5', h, 'env-helper-silent', not leaks,
               '%s is called with %s; inside it the looked-up value / error %s' % (hp.rsplit('::', 1)[-1], lab, 'reaches no formatting, output, serialiser or file sink' if not leaks else
                                                                                  'REACHES %s (line %d): the key value is printed for every variable this helper reads, the API key included' % (leaks[0].callee.rsplit('::', 1)[-1], leaks[0].line)),
               line=leaks[0].line if leaks else h.line)
    ctx.floor('C19.5', 'workspace env-reading helpers used for a secret key', nh, 1)

    # ---------------------------------------------------------------- C19.6
    ctx.rule('C19.6', 'the raw configuration document stays inside the loader: in ripd::config the text read from a config layer and the untyped serde_json::Value / Map it parses and merges into (inline API keys and secret header values are in there verbatim, before any typed slot exists for C19.1 to track) reach no file write, serialiser, formatting argument or process output — the only way out is the typed parse into RipConfig.')
    RAWTY = re.compile(r'serde_json::value::Value|serde_json::map::Map|serde_json::Value|serde_json::Map')
    nraw = 0
    nfn6 = 0
    for p_, g in sorted(P.fns.items()):
        if not p_.startswith('ripd::config::'):
            continue
        rawl = {l_ for l_ in range(len(g.locals)) if RAWTY.search(g.lty(l_) or '')}
        rawl |= {s_.dest['l'] for s_ in g.sites() if s_.dest and re.search(r'^std::fs::(read_to_string|read)$|^ripd::config::parse_jsonc$|^ripd::config::strip_json', s_.callee or '')}
        if not rawl:
            continue
        nfn6 += 1
        nraw += len(rawl)
        ctx.touch(g)
        out6 = []
        for s_ in g.sites():
            c = s_.callee or ''
            if re.search(r"^core::fmt::rt::Argument::<'_>::new_|^core::fmt::rt::Argument::new_", c) or re.search(r'^serde_json::(ser::to_|value::to_value)|Serialize>::serialize$|ToString>::to_string$', c) \
                    or re.search(r'^std::io::stdio::_e?print$|^tracing|^log::', c) or site_effects(s_) & {'FsWrite'} or re.search(r'std::io::Write>::write', c):
                if re.search(r'ToString>::to_string$', c) and not any(RAWTY.search(x) for x in s_.ga):
                    continue
                for a in s_.args:
                    if reads_locals(g, a) & rawl:
                        out6.append(s_)
                        break
        ctx.ob('C19.6', g, 'raw-config-stays-in-loader', not out6,
               'the raw document (%d local(s)) reaches no write / serialise / format sink here' % len(rawl) if not out6 else
               'the raw configuration document reaches %s (line %d): inline api keys and secret header values leave the loader verbatim (a cache / diagnostics file, a log line)' % (out6[0].callee.rsplit('::', 1)[-1], out6[0].line),
               line=out6[0].line if out6 else g.line)
    ctx.floor('C19.6', 'functions of ripd::config holding the raw document', nfn6, 3)

    # ---------------------------------------------------------------- C19.2
    bad = 0
    for p, f in sorted(P.fns.items()):
        if f.crate not in ('ripd', 'rip'):
            continue
        for s in f.sites():
            m = None
            if re.search(r'Argument::<\'_>::new_(debug|display)|Argument::new_(debug|display)', s.callee):
                m = 'formatting'
            elif re.search(r'^serde_json::ser::to_(string|vec|writer|string_pretty|vec_pretty)$|^serde_json::value::to_value$', s.callee):
                m = 'serialising'
            if not m:
                continue
            for g in s.ga:
                if any(g == t or g.startswith(t + '<') or ('<' + t) in g or g == '&' + t for t in BEARING + REQUEST_TYPES):
                    bad += 1
                    ctx.ob('C19.2', f, 'secret-bearing-type-formatted', False, '%s a secret-bearing type: %s::<%s>' % (m, s.name, g), line=s.line)
    ctx.ob('C19.2', 'workspace', 'no-secret-type-formatting', bad == 0, '%d formatting / serialising instantiation(s) on %s' % (bad, [t.rsplit('::', 1)[-1] for t in BEARING]))
    # the types really are dangerous (derive Debug): positive control so the rule is not vacuous
    derived = [i for i in P.impls if i['derived'] and i['trait'].endswith('fmt::Debug') and any(i['self'].startswith(t) for t in SECRET_TYPES)]
    ctx.ob('C19.2', 'workspace', 'control:types-derive-debug', len(derived) >= 3, '%d of the secret-bearing config types derive Debug (so one `{:?}` would leak)' % len(derived))

    # ---------------------------------------------------------------- C19.3
    n = 0
    for p, f in sorted(P.fns.items()):
        if f.crate not in ('ripd', 'rip'):
            continue
        for bi in f.reachable():
            for st in f.blocks[bi]['s']:
                rv = st.get('rv')
                if not rv:
                    continue
                pls = [(op_place(o), 'op') for o in rv.get('a', [])] + ([(rv['pl'], 'ref')] if 'pl' in rv else [])
                for pl, how in pls:
                    if not pl:
                        continue
                    if not any(isinstance(pp, dict) and (pp.get('o'), pp.get('n')) in HEADER_FIELDS for pp in pl.get('p', [])):
                        continue
                    n += 1
                    ctx.touch(f)
                    # classify the use of this read
                    dest = st['d']['l']
                    use = classify_header_use(P, f, dest, st)
                    ctx.ob('C19.3', f, 'header-read', use is not None, 'read of a `headers` slot: %s' % (use or 'flows somewhere other than a config slot / RequestBuilder::header / a names-only projection'), line=st.get('ln'))
    ctx.floor('C19.3', 'reads of headers slots', n, 3)


def classify_header_use(P, f, l, st):
    """follow the read forward a few steps and name its (only) consumer."""
    rv = st['rv']
    if rv['k'] == 'agg' and rv.get('adt') in BEARING:
        return 'moved into a config slot (%s)' % rv['adt'].rsplit('::', 1)[-1]
    cur = l
    for _ in range(14):
        nxt = None
        if cur == 0 and f.kind == 'Closure':
            # returned from a closure: continue in the function that hands the closure to a combinator
            parent = P.fns.get(f.path.rsplit('::{closure', 1)[0])
            if parent is None:
                return None
            for s in parent.sites():
                for a in s.args:
                    o = parent.origin(a)
                    if o[0] == 'rv' and o[1].get('ak') == 'closure' and o[1].get('def') == f.path:
                        return classify_header_use(P, parent, s.dest['l'], {'rv': {'k': 'use', 'a': []}, 'd': {'l': s.dest['l']}})
            return None
        for (bi, si, how, payload) in f.uses(cur):
            if how == 'drop':
                continue
            if how == 'stmt':
                r2 = payload['rv']
                if r2['k'] == 'agg' and r2.get('adt') in BEARING:
                    return 'moved into a config slot (%s)' % r2['adt'].rsplit('::', 1)[-1]
                if r2['k'] in ('use', 'ref', 'cast') and 'p' not in payload['d']:
                    nxt = payload['d']['l']
                    break
                if r2['k'] == 'agg':
                    return None
            elif how.startswith('arg'):
                s = Site(f, bi, payload)
                if re.search(r'Clone>::clone$|::clone$|::into_iter$|::iter$|IntoIterator>::into_iter$|::unwrap_or_default$|::unwrap_or_else$|Option::<T>::map$|::as_ref$|::deref$|Iterator::collect$|::collect$', s.callee):
                    if s.name == 'map' and len(s.args) > 1:
                        o = f.origin(s.args[1])
                        if o[0] == 'rv' and o[1].get('ak') == 'closure':
                            pass
                    nxt = s.dest['l']
                    break
                if re.search(r'Iterator::map$|::map$', s.callee) and len(s.args) > 1:
                    o = f.origin(s.args[1])
                    if o[0] == 'rv' and o[1].get('ak') == 'closure':
                        cf = P.fns.get(o[1]['def'])
                        if cf is not None and names_only(cf):
                            return 'names-only projection (closure returns tuple field 0)'
                    return None
                if re.search(r'Iterator::next$|::next$', s.callee):
                    # a for-loop over the headers: the body must hand them to RequestBuilder::header only
                    hdr = f.calls(r'RequestBuilder::header$')
                    other = [x for x in f.sites() if x.bb in f.reach_from_after(bi) and re.search(r'Argument::.*new_|serde_json::|^std::fs::', x.callee) and False]
                    return 'iterated into RequestBuilder::header' if hdr else None
                return None
        if nxt is None:
            return None
        cur = nxt
    return None


def names_only(cf):
    """closure whose return value is field 0 of its tuple argument."""
    for bi in cf.reachable():
        for st in cf.blocks[bi]['s']:
            if st.get('d', {}).get('l') == 0 and 'rv' in st:
                o = cf.origin(st['rv']['a'][0]) if st['rv'].get('a') else None
                if o and o[0] == 'local' and o[1] == 2 and o[2] and isinstance(o[2][0], dict) and o[2][0].get('f') == 0:
                    return True
                if o and o[0] == 'local':
                    # pattern binding `(name, _)`: name = _2.0
                    d = cf.defs(o[1])
                    for x in d:
                        if x[2] == 'rv' and x[3]['k'] == 'use':
                            pl = op_place(x[3]['a'][0])
                            if pl and pl['l'] == 2 and pl.get('p') and isinstance(pl['p'][0], dict) and pl['p'][0].get('f') == 0:
                                return True
    return False
