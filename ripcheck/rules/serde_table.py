"""C03.1 — writer / reader wire tables of the frame types agree (serde meta items read by the
syn helper /verif/serdetab from the definition files the exporter reports; cross-checked
against the exporter's ADT facts so that the two views cannot diverge silently)."""
import json
import os
import subprocess

from .. import driver
from ..core import CheckError

SERDETAB = os.path.join(driver.VERIF, 'serdetab', 'target', 'release', 'serdetab')
ENVELOPE = ['id', 'session_id', 'stream_kind', 'stream_id', 'timestamp_ms', 'seq', 'type']


def snake(s):
    o = ''
    for i, c in enumerate(s):
        if c.isupper():
            if i > 0:
                o += '_'
            o += c.lower()
        else:
            o += c
    return o


def table(files):
    if not os.path.exists(SERDETAB):
        lock = os.path.join(driver.REPO, 'Cargo.lock')
        if os.path.exists(lock):
            import shutil
            shutil.copy(lock, os.path.join(driver.VERIF, 'serdetab', 'Cargo.lock'))
        r = subprocess.run(['cargo', 'build', '--release', '--offline'], cwd=os.path.join(driver.VERIF, 'serdetab'), capture_output=True, text=True)
        if r.returncode != 0:
            raise CheckError('serdetab helper failed to build: ' + r.stderr[-1500:])
    r = subprocess.run([SERDETAB] + files, capture_output=True, text=True)
    if r.returncode != 0:
        raise CheckError('serdetab failed: ' + r.stderr[-500:])
    return json.loads(r.stdout)


def m(metas, key):
    return [v for k, v in metas if k == key]


def has(metas, key):
    return any(k == key for k, _ in metas)


def check(ctx):
    P = ctx.prog
    adt = P.adts.get('rip_kernel::EventKind')
    ev = P.adts.get('rip_kernel::Event')
    if adt is None or ev is None:
        raise CheckError('C03.1: rip_kernel::{Event,EventKind} missing from the ADT facts')
    src = os.path.join(P.root, adt['file'])
    tab = table([src])[0]['items']
    by = {i['name']: i for i in tab if i['module'] == ''}
    for need in ('Event', 'EventWire', 'EventKind'):
        if need not in by:
            raise CheckError('C03.1: %s not found by serdetab in %s' % (need, adt['file']))
    ek = by['EventKind']
    # ---- the two views agree
    names_syn = [v['name'] for v in ek['variants']]
    names_mir = [v['name'] for v in adt['variants']]
    if names_syn != names_mir:
        raise CheckError('C03.1: variant list of EventKind differs between rustc (%d) and syn (%d) — cfg or macro-generated variants' % (len(names_mir), len(names_syn)))
    for vs, vm in zip(ek['variants'], adt['variants']):
        if [f['name'] for f in vs['fields']] != [f['name'] for f in vm['fields']]:
            raise CheckError('C03.1: field list of EventKind::%s differs between rustc and syn' % vs['name'])
    fn_label = 'rip_kernel::EventKind'
    # ---- container
    ra = m(ek['serde'], 'rename_all')
    tag = m(ek['serde'], 'tag')
    ctx.ob('C03.1', fn_label, 'container', ra == ['snake_case'] and tag == ['type'] and not has(ek['serde'], 'deny_unknown_fields') and not has(ek['serde'], 'content'),
           'EventKind container attributes: %s' % ek['serde'], line=ek['line'])
    for nm in ('Event', 'EventWire'):
        ctx.ob('C03.1', 'rip_kernel::' + nm, 'no-deny-unknown', not has(by[nm]['serde'], 'deny_unknown_fields'),
               '%s container attributes: %s' % (nm, by[nm]['serde']), line=by[nm]['line'])
    # ---- (a) tags pairwise distinct
    seen = {}
    nfields = 0
    for v in ek['variants']:
        t = (m(v['serde'], 'rename') or [snake(v['name'])])[0]
        alist = [t] + m(v['serde'], 'alias')
        dup = [a for a in alist if a in seen]
        for a in alist:
            seen.setdefault(a, v['name'])
        ctx.ob('C03.1', fn_label, 'tag-distinct:' + v['name'], not dup and len(set(alist)) == len(alist),
               'wire tags %s %s' % (alist, 'are unique' if not dup else 'collide with variant ' + seen[dup[0]]), line=ek['line'])
        for k, val in v['serde']:
            if k in ('skip', 'skip_serializing', 'skip_deserializing', 'other', 'untagged'):
                ctx.ob('C03.1', fn_label, 'variant-attr:%s:%s' % (v['name'], k), False, 'variant attribute `%s` makes the variant one-directional' % k, line=ek['line'])
        wire_names = {}
        for f in v['fields']:
            nfields += 1
            w = (m(f['serde'], 'rename') or [f['name']])[0]
            names = [w] + m(f['serde'], 'alias')
            label = '%s.%s' % (v['name'], f['name'])
            # (b)
            if has(f['serde'], 'skip_serializing_if'):
                ok = has(f['serde'], 'default') or f['ty'].replace(' ', '').startswith('Option<')
                ctx.ob('C03.1', fn_label, 'skip-needs-default:' + label, ok,
                       'field is omitted when %s and %s' % (m(f['serde'], 'skip_serializing_if')[0], 'can be read back (default / Option)' if ok else 'has NO default: a frame written without it cannot be read back'), line=ek['line'])
            # (c)
            bad = [n for n in names if n in ENVELOPE]
            ctx.ob('C03.1', fn_label, 'no-envelope-collision:' + label, not bad,
                   'wire name(s) %s %s' % (names, 'do not collide with the envelope' if not bad else 'COLLIDE with the flattened envelope'), line=ek['line'])
            # (g) names unique inside the variant
            d2 = [n for n in names if n in wire_names]
            for n in names:
                wire_names.setdefault(n, f['name'])
            if d2:
                ctx.ob('C03.1', fn_label, 'field-name-unique:' + label, False, 'wire name %s is also used by field %s' % (d2[0], wire_names[d2[0]]), line=ek['line'])
            # (f)
            ks = {k for k, _ in f['serde']}
            onesided = ks & {'skip', 'skip_serializing', 'skip_deserializing'}
            if ('serialize_with' in ks) != ('deserialize_with' in ks):
                onesided.add('serialize_with/deserialize_with unpaired')
            if 'flatten' in ks:
                onesided.add('flatten inside a flattened payload')
            if onesided:
                ctx.ob('C03.1', fn_label, 'field-attr:' + label, False, 'field attribute(s) %s break the round trip' % sorted(onesided), line=ek['line'])
    ctx.floor('C03.1', 'EventKind variants', len(ek['variants']), 38)
    ctx.floor('C03.1', 'EventKind payload fields', nfields, 150)
    # ---- nested payload types defined in the same file
    for it in tab:
        if it['name'] in ('Event', 'EventWire', 'EventKind') or not ({'Serialize', 'Deserialize'} & set(it['derives'])):
            continue
        both = {'Serialize', 'Deserialize'} <= set(it['derives'])
        flds = it.get('fields') or [f for v in it.get('variants', []) for f in v['fields']]
        bad = []
        for f in flds:
            ks = {k for k, _ in f['serde']}
            if ks & {'skip', 'skip_serializing', 'skip_deserializing'}:
                bad.append('%s: skip' % f['name'])
            if ('serialize_with' in ks) != ('deserialize_with' in ks):
                bad.append('%s: unpaired with' % f['name'])
            if both and 'skip_serializing_if' in ks and 'default' not in ks and not f['ty'].replace(' ', '').startswith('Option<'):
                bad.append('%s: skip_serializing_if without default' % f['name'])
        if it['kind'] == 'enum':
            tags = {}
            ra2 = (m(it['serde'], 'rename_all') or [None])[0]
            for v in it['variants']:
                t = (m(v['serde'], 'rename') or [snake(v['name']) if ra2 == 'snake_case' else v['name']])[0]
                for a in [t] + m(v['serde'], 'alias'):
                    if a in tags:
                        bad.append('tag %s used by %s and %s' % (a, tags[a], v['name']))
                    tags[a] = v['name']
        ctx.ob('C03.1', 'rip_kernel::' + it['name'], 'nested-type', not bad,
               'nested wire type %s: %s' % (it['name'], 'round-trippable attributes' if not bad else '; '.join(bad)), line=it['line'])
    # ---- (e) EventWire writes what Event reads
    evf = {f['name']: f for f in by['Event']['fields']}
    wf = {f['name']: f for f in by['EventWire']['fields']}
    missing = [n for n in evf if n not in wf]
    ctx.ob('C03.1', 'rip_kernel::EventWire', 'writer-covers-reader', not missing,
           'EventWire writes %s; Event reads %s' % (sorted(wf), sorted(evf)), line=by['EventWire']['line'])
    for n in evf:
        if n in wf:
            same = sorted(k for k, _ in evf[n]['serde']) == sorted(k for k, _ in wf[n]['serde']) and \
                (m(evf[n]['serde'], 'rename') == m(wf[n]['serde'], 'rename'))
            ctx.ob('C03.1', 'rip_kernel::EventWire', 'same-wire-attrs:' + n, same,
                   'field %s: reader attrs %s, writer attrs %s' % (n, evf[n]['serde'], wf[n]['serde']), line=by['EventWire']['line'])
    extra = [n for n in wf if n not in evf]
    ctx.ob('C03.1', 'rip_kernel::EventWire', 'extra-writer-fields', set(extra) <= {'stream_kind', 'stream_id'},
           'fields written but not read: %s (tolerated because Event has no deny_unknown_fields)' % extra, line=by['EventWire']['line'])
    # the hand-written Serialize passes each field through unchanged
    ser = next((f for p, f in P.fns.items() if p.startswith('<rip_kernel::Event as ') and p.endswith('::Serialize>::serialize')), None)
    if ser is None:
        raise CheckError('C03.1: the hand-written Serialize impl of Event was not found in the facts')
    aggs = ser.aggregates(r'^rip_kernel::EventWire$')
    if len(aggs) != 1:
        raise CheckError('C03.1: expected one EventWire construction in Event::serialize, found %d' % len(aggs))
    rv = aggs[0][2]['rv']
    from ..prov import sources
    for fname, op in zip(rv['fields'], rv['a']):
        if fname in ('stream_kind', 'stream_id'):
            src = sources(ser, op)
            ok = any(x[0] == 'call' and x[1].endswith('Event::' + fname) for x in src)
            ctx.ob('C03.1', ser, 'wire-field-source:' + fname, ok, 'EventWire.%s comes from Event::%s()' % (fname, fname), line=aggs[0][2].get('ln'))
            continue
        o = ser.origin(op, through_calls=(r'::deref$', r'::as_str$', r'::as_ref$'))
        got = None
        if o[0] == 'local':
            fl = [p.get('n') for p in o[2] if isinstance(p, dict) and 'f' in p]
            got = fl[-1] if fl else None
        ctx.ob('C03.1', ser, 'wire-field-source:' + fname, got == fname and o[1] == 1,
               'EventWire.%s is filled from self.%s' % (fname, got), line=aggs[0][2].get('ln'))
