"""C07 — run lifecycle frames complete, unique, causally ordered (structural clauses)."""
import re

from .common import run_session_body
from ..core import CheckError, Site, op_base, op_const, op_local, switches
from ..effects import Effects
from ..prov import sources

STORE = 'ripd::continuities::ContinuityStore::'


def event_kind_of(f, op):
    """variant name of the EventKind of the Event an operand denotes (constructed in f)."""
    aggs = []
    o = f.origin(op)
    if o[0] == 'rv' and o[1]['k'] == 'agg' and o[1].get('adt') == 'rip_kernel::Event':
        aggs.append(o[1])
    elif o[0] == 'local':
        for (bi, si, kind, payload, ln) in f.defs(o[1]):
            if kind == 'rv' and payload['k'] == 'agg' and payload.get('adt') == 'rip_kernel::Event':
                aggs.append(payload)
    for payload in aggs:
        kop = payload['a'][payload['fields'].index('kind')]
        o = f.origin(kop)
        if o[0] == 'rv' and o[1]['k'] == 'agg' and o[1].get('adt') == 'rip_kernel::EventKind':
            return o[1]['variant']
        if o[0] == 'local':
            for d in f.defs(o[1]):
                if d[2] == 'rv' and d[3]['k'] == 'agg' and d[3].get('adt') == 'rip_kernel::EventKind':
                    return d[3]['variant']
        return '?'
    return None


def run_session_states(P):
    """flag-correlated abstract interpretation of run_session over (block, terminal frames
    emitted in {0,1,2+}, skip_runtime_loop in {None,F,T}). Returns a dict used by C07.2, C07.3
    and C01.7."""
    rs = run_session_body(P)
    term_blocks = {}
    for c in rs.calls(r'^ripd::session::emit_event$'):
        if event_kind_of(rs, c.args[0]) == 'SessionEnded':
            term_blocks[c.bb] = c.line
    if len(term_blocks) < 1:
        raise CheckError('C07.2: explicit SessionEnded emissions in run_session: found %d, at least 1 is needed to read the function at all' % len(term_blocks))
    kernel_loops = []
    for h, body in rs.loops().items():
        if any(c.bb in body for c in rs.calls(r'^rip_kernel::Session::next_event$')):
            kernel_loops.append((h, body))
    if len(kernel_loops) != 1:
        raise CheckError('C07.2: expected exactly one kernel next_event loop in run_session, found %d' % len(kernel_loops))
    kh, kbody = kernel_loops[0]
    # the flag that correlates "a terminal frame was already emitted" with "do not enter the kernel
    # loop": by name while it keeps it, otherwise the only named bool local of run_session that is
    # assigned nothing but constants, both true and false
    flag = [i for i, l in enumerate(rs.locals) if l.get('n') == 'skip_runtime_loop']
    if len(flag) != 1:
        flag = []
        for i, l in enumerate(rs.locals):
            if not l.get('n') or l['ty'] != 'bool' or i <= rs.argc:
                continue
            ks = []
            for (bi, si, kind, payload, ln) in rs.defs(i):
                k = op_const(payload['a'][0]) if kind == 'rv' and payload['k'] == 'use' else None
                ks.append(k.get('v') if k is not None and isinstance(k.get('v'), bool) else None)
            if ks and None not in ks and True in ks and False in ks:
                flag.append(i)
    if len(flag) != 1:
        raise CheckError('C07.2: the skip-the-kernel-loop flag of run_session was not identified (%d candidate bool locals assigned only constants)' % len(flag))
    flag = flag[0]
    sets = {}
    for (bi, si, kind, payload, ln) in rs.defs(flag):
        k = op_const(payload['a'][0]) if kind == 'rv' and payload['k'] == 'use' else None
        if k is None or not isinstance(k.get('v'), bool):
            # assigned from a computed value (`provider.is_some()`): unknown from here on — both edges of every test of the
            # flag are then explored, which is what the code can do
            sets[bi] = '?'
            continue
        sets[bi] = k['v']
    flag_switch = {}
    for (bi, on, ts, els) in switches(rs):
        l = op_local(on)
        neg = False
        cur = l
        for _ in range(4):
            if cur is None:
                break
            if cur == flag:
                break
            d = rs.single_def(cur)
            if d and d[2] == 'rv' and d[3]['k'] == 'un' and d[3]['op'] == 'Not':
                neg = not neg
                cur = op_local(d[3]['a'][0])
            elif d and d[2] == 'rv' and d[3]['k'] == 'use':
                cur = op_local(d[3]['a'][0])
            else:
                cur = None
        if cur == flag:
            flag_switch[bi] = (ts.get('0'), els, neg)
    if not flag_switch:
        raise CheckError('C07.2: no branch on skip_runtime_loop found')
    # abstract interpretation
    start = (0, 0, None)   # block, count, flag (None = unassigned yet)
    seen = set()
    work = [start]
    bad = []
    final = set()
    while work:
        b, cnt, fl = work.pop()
        if (b, cnt, fl) in seen:
            continue
        seen.add((b, cnt, fl))
        if b in sets:
            fl = sets[b]
        if b in term_blocks:
            cnt = min(cnt + 1, 2)
        t = rs.blocks[b]['t']
        if t['k'] == 'ret':
            final.add((cnt, fl))
            if cnt != 1:
                bad.append((b, cnt, fl))
            continue
        succ = list(rs.succs(b))
        if b in flag_switch and fl is not None and fl != '?':
            f_t, t_t, neg = flag_switch[b]
            val = (not fl) if neg else fl
            succ = [t_t if val else f_t]
        for s in succ:
            c2 = cnt
            if s == kh and b not in kbody:
                c2 = min(cnt + 1, 2)
            work.append((s, c2, fl))
    def succ_states(b, cnt, fl):
        """successor states of (b, cnt, fl) — same transfer as the exploration above."""
        if b in sets:
            fl = sets[b]
        if b in term_blocks:
            cnt = min(cnt + 1, 2)
        t = rs.blocks[b]['t']
        if t['k'] == 'ret':
            return []
        succ = list(rs.succs(b))
        if b in flag_switch and fl is not None and fl != '?':
            f_t, t_t, neg = flag_switch[b]
            val = (not fl) if neg else fl
            succ = [t_t if val else f_t]
        out = []
        for s2 in succ:
            c2 = cnt
            if s2 == kh and b not in kbody:
                c2 = min(cnt + 1, 2)
            out.append((s2, c2, fl))
        return out
    return dict(rs=rs, seen=seen, bad=bad, final=final, term_blocks=term_blocks, kh=kh, kbody=kbody, sets=sets, flag_switch=flag_switch, succ_states=succ_states)


def run(ctx):
    P = ctx.prog
    E = Effects(P)
    ctx.not_decided = 'a panic inside run_session (no unwinding model, A2); provider-side behaviours are covered only in so far as every path of the code is covered.'
    ctx.rule('C07.1', 'single exit: append_run_ended has exactly one call site in the workspace, in run_session, outside every loop, dominated by write_snapshot; every path from entry to return passes write_snapshot, and the only way around append_run_ended is the None edge of the continuity_run test; no frame is emitted after it.')
    ctx.rule('C07.2', 'exactly one terminal session frame on every path of run_session: abstract interpretation over (terminal frames emitted in {0,1,2+}, skip_runtime_loop in {F,T}); explicit SessionEnded emissions count 1, entering the kernel next_event loop counts 1; every return must be reached with count == 1. Session::next_event constructs SessionEnded only in stage End and in the hook-abort arm, both of which set stage Done.')
    ctx.rule('C07.3', 'order inside a run: selection_decided dominates context_compiled with no other truth append between; neither can follow the provider loop call; cursor_updated is dominated by the loop call and cannot follow the terminal emission.')
    ctx.rule('C07.4', 'post message: append_message dominates append_run_spawned dominates spawn_session; spawn_session is unreachable from the error edge of either; none is in a loop.')
    ctx.rule('C07.5', 'a compaction job is ended at most once: the append_job_ended sites are mutually unreachable and outside loops.')
    ctx.rule('C07.6', 'Runtime::register_hook has no caller in production code (an aborting hook would end a session before its start frame).')

    rs = run_session_body(P, note=ctx.note)
    ctx.touch(rs)
    rs_paths = {rs.path} | set(getattr(rs, 'inlined_bodies', ()))

    def in_rs(site):
        return site.fn.path in rs_paths
    # ---------------------------------------------------------------- C07.1
    enders = P.callers(r'^ripd::continuities::ContinuityStore::append_run_ended$')
    ctx.floor('C07.1', 'append_run_ended call sites', len(enders), 1)
    for s in enders:
        ctx.ob('C07.1', s.fn, 'run-ended-only-in-run_session', in_rs(s) and len(enders) == 1, 'append_run_ended called from %s (%d site(s) in the workspace)' % (s.fn.path, len(enders)), line=s.line)
    snaps = rs.calls(r'^rip_log::write_snapshot$')
    rets = rs.returns()
    if not snaps:
        raise CheckError('C07.1: run_session has no write_snapshot call')
    ctx.ob('C07.1', rs, 'snapshot-on-every-path', rs.must_pass([s.bb for s in snaps], 0, rets), 'every path from entry to return passes write_snapshot', line=snaps[0].line)
    end = rs.calls(r'ContinuityStore::append_run_ended$')
    if end:
        e = end[0]
        ctx.ob('C07.1', rs, 'run-ended-after-snapshot', any(rs.dom(s.bb, e.bb) for s in snaps), 'write_snapshot dominates append_run_ended', line=e.line)
        ctx.ob('C07.1', rs, 'run-ended-not-in-loop', not rs.in_loop(e.bb), 'append_run_ended is outside every loop', line=e.line)
        # the only bypass is the None edge of `if let Some(link) = continuity_run`
        none_edges = []
        for (bi, on, ts, els) in switches(rs):
            src = rs.origin(on)
            if src[0] == 'rv' and src[1]['k'] == 'discr':
                l = src[1]['pl']['l']
                if (rs.lname(l) == 'continuity_run' or re.search(r'Option<.*ContinuityRun', rs.lty(l))) and 'p' not in src[1]['pl']:
                    some = ts.get('1')
                    for tgt in set(list(ts.values()) + [els]):
                        if tgt != some:
                            none_edges.append((bi, tgt))
        if not none_edges:
            raise CheckError('C07.1: no test of `continuity_run` found in run_session')
        r = rs.reach(0, stop=[e.bb], skip_edges=none_edges)
        ctx.ob('C07.1', rs, 'run-ended-on-every-linked-path', not any(x in r for x in rets), 'a return is reachable without append_run_ended only through the None edge of the continuity_run test', line=e.line)
        after = rs.reach_from_after(e.bb)
        late = [c for c in rs.calls(r'^ripd::session::emit_events?$') if c.bb in after]
        ctx.ob('C07.1', rs, 'nothing-after-run-ended', not late, 'no session frame is emitted after append_run_ended', line=late[0].line if late else e.line)
        # terminal emissions precede it
        for c in rs.calls(r'^ripd::session::emit_event$'):
            if event_kind_of(rs, c.args[0]) == 'SessionEnded':
                ctx.ob('C07.1', rs, 'terminal-before-run-ended', rs.can_reach(c.bb, e.bb) and not rs.can_reach(e.bb, c.bb), 'SessionEnded emission precedes append_run_ended', line=c.line)

    # ---------------------------------------------------------------- C07.2
    st_ = run_session_states(P)
    seen, bad, final, term_blocks, kh, kbody, sets = st_['seen'], st_['bad'], st_['final'], st_['term_blocks'], st_['kh'], st_['kbody'], st_['sets']
    ctx.floor('C07.2', 'explicit SessionEnded emissions in run_session', len(term_blocks), 2)
    ctx.ob('C07.2', rs, 'exactly-one-terminal-frame', not bad,
           'abstract states at return: %s (explored %d (block,count,flag) states; %d explicit SessionEnded sites + the kernel loop)' % (sorted(final, key=str), len(seen), len(term_blocks))
           if not bad else 'a return is reachable with %d terminal session frame(s) (skip_runtime_loop=%s)' % (bad[0][1], bad[0][2]))
    # setting the flag accompanies each explicit terminal emission
    for b, ln in term_blocks.items():
        after = rs.reach_from_after(b, stop=[kh])
        setters = [x for x, v in sets.items() if v is True]
        ok = rs.must_pass(setters, b, [kh])
        ctx.ob('C07.2', rs, 'terminal-sets-skip', ok, 'after an explicit SessionEnded the kernel loop is reachable only through `skip_runtime_loop = true`', line=ln)
    ne = P.fn('rip_kernel::Session::next_event')
    ended = [(bi, st) for (bi, si, st) in ne.aggregates(r'^rip_kernel::EventKind$', 'SessionEnded')]
    ctx.floor('C07.2', 'SessionEnded constructions in Session::next_event', len(ended), 2)
    done_sets = []
    for bi in ne.reachable():
        for st in ne.blocks[bi]['s']:
            rv = st.get('rv')
            if rv and rv['k'] == 'agg' and rv.get('adt', '').endswith('::Stage') and rv.get('variant') == 'Done':
                done_sets.append(bi)
    for bi, st in ended:
        ok = ne.must_pass(done_sets, 0, [bi]) or ne.must_pass(done_sets, bi, ne.returns())
        ctx.ob('C07.2', ne, 'ended-sets-done', ok, 'a SessionEnded construction is followed by stage = Done', line=st.get('ln'))
    ctx.ob('C07.2', ne, 'no-loop-in-next_event', not any(True for h in ne.loops()), 'Session::next_event emits at most one frame per call (no loop)')

    # ---------------------------------------------------------------- C07.3
    loop = rs.calls(r'^ripd::session::run_openresponses_agent_loop$')

    def via_helper(rx):
        # the append itself, or a helper run_session calls for it (not the provider loop / tool runner)
        out = rs.calls(rx)
        for s_ in rs.sites():
            if s_.callee in P.fns and not s_.callee.startswith('ripd::continuities::') and not re.search(r'run_openresponses_agent_loop$|ToolRunner::', s_.callee):
                if any(re.search(rx, y) for y in P.reach_fns([s_.callee], stop_rx=r'^ripd::continuities::')):
                    out.append(s_)
        return out
    sel = via_helper(r'ContinuityStore::append_context_selection_decided$')
    comp = via_helper(r'ContinuityStore::append_context_compiled$')
    cur = via_helper(r'ContinuityStore::append_provider_cursor_updated$')
    if not (sel and comp and loop and cur):
        raise CheckError('C07.3: run_session lacks one of selection_decided / context_compiled / agent loop / cursor_updated')
    appenders = E.sites_with(rs, 'TruthAppend')
    for c in comp:
        ok = any(rs.dom(s.bb, c.bb) for s in sel)
        ctx.ob('C07.3', rs, 'decided-before-compiled', ok, 'append_context_selection_decided dominates append_context_compiled', line=c.line)
        between = [a for a in appenders if a.bb not in (c.bb,) and all(a.bb != s.bb for s in sel)
                   and any(rs.can_reach(s.bb, a.bb) for s in sel) and rs.can_reach(a.bb, c.bb)]
        ctx.ob('C07.3', rs, 'back-to-back', not between, 'no other truth append lies between decided and compiled', line=c.line)
    for l in loop:
        counts_here = {cnt for (b, cnt, fl) in seen if b == l.bb}
        ctx.ob('C07.3', rs, 'loop-before-terminal', counts_here <= {0}, 'the provider loop only runs while no terminal frame has been emitted (abstract counts at the call: %s)' % sorted(counts_here), line=l.line)
    for c in sel + comp:
        ok = not any(rs.can_reach(l.bb, c.bb) for l in loop)
        ctx.ob('C07.3', rs, 'context-before-loop:' + c.name, ok, '%s cannot follow the provider loop' % c.name, line=c.line)
    for c in cur:
        # flag-sensitive: the cursor block is only visited with zero terminal frames emitted so far
        counts_here = {cnt for (b, cnt, fl) in seen if b == c.bb}
        ok = any(rs.dom(l.bb, c.bb) for l in loop) and counts_here <= {0}
        ctx.ob('C07.3', rs, 'cursor-after-loop-before-end', ok, 'cursor_updated is dominated by the loop call and precedes the terminal frame', line=c.line)
    # a thread run that tried to compile its context reaches the provider only with the compiled frame written:
    # explore (block, terminal count, flag, compile attempted?) and stop at the compiled-frame appends
    attempts = via_helper(r'compile_context_bundle_for_run$') + [s_ for s_ in rs.calls(r'compile_context_bundle_for_run$')]
    if not attempts:
        attempts = sel      # the decision frame is written by the compile step: having decided is having attempted
    att_blocks = {a.bb for a in attempts}
    comp_blocks = {c.bb for c in comp}
    succ_states = st_['succ_states']
    seen4 = set()
    work4 = [(0, 0, None, False)]
    leak = None
    while work4:
        b4, c4, f4, a4 = work4.pop()
        if (b4, c4, f4, a4) in seen4:
            continue
        seen4.add((b4, c4, f4, a4))
        if b4 in comp_blocks:
            continue
        if b4 in att_blocks:
            a4 = True
        if a4 and any(l.bb == b4 for l in loop):
            leak = b4
            break
        for (s4, c5, f5) in succ_states(b4, c4, f4):
            work4.append((s4, c5, f5, a4))
    ctx.ob('C07.3', rs, 'compiled-before-provider', leak is None,
           'once a run has tried to compile its context, the provider loop is reachable only past append_context_compiled (explored %d states, flag-correlated)' % len(seen4) if leak is None else
           'the provider loop is reachable after a compile attempt WITHOUT the compiled frame (a failed compile falls through to the provider): the thread records a run that reached the provider with no selection / compiled frames',
           line=loop[0].line)
    # compiled bundle emitted only when compile succeeded: selection/compiled not in loops
    for c in sel + comp + cur:
        ctx.ob('C07.3', rs, 'once:' + c.name, not rs.in_loop(c.bb), '%s is outside loops (once per run)' % c.name, line=c.line)

    # the ordered lifecycle frames are written by run_session itself and by nothing it calls: a
    # cursor update (or a second selection / compile / run_ended) from inside the provider loop or
    # the tool runner would precede or repeat frames whose order the property fixes
    ORDERED = r'ContinuityStore::append_(provider_cursor_updated|context_selection_decided|context_compiled|run_ended|run_spawned)$'
    inner_roots = sorted({s_.callee for s_ in rs.sites() if re.search(r'run_openresponses_agent_loop$|ToolRunner::', s_.callee)})
    par_run = P.reach_fns(inner_roots)
    inner = []
    for pth in sorted(par_run):
        g = P.fns.get(pth)
        if g is None or g is rs or g.path.startswith('ripd::continuities::'):
            continue
        for c in g.calls(ORDERED):
            inner.append((g, c))
    ncallers = len(P.callers(ORDERED))
    ctx.floor('C07.3', 'call sites of the ordered lifecycle appends in the workspace', ncallers, 5)
    ctx.ob('C07.3', rs, 'ordered-frames-not-from-loop', not inner,
           '%d function(s) reachable from the provider loop and the tool runner scanned; %s' % (len(par_run), 'none of them appends selection / compiled / cursor / run_ended / run_spawned frames' if not inner else
           '%s (inside the provider loop / tool runner, line %d) ALSO appends %s: the thread can record it before the tool side effects, or twice' % (inner[0][0].path, inner[0][1].line, inner[0][1].name)),
           line=inner[0][1].line if inner else rs.line)

    # ---------------------------------------------------------------- C07.4
    pm = P.body('ripd::server::thread_post_message')
    from ..inline import inline_calls, contains
    _wpm = contains(rx_calls=r'ContinuityStore::append_(message|run_spawned)$|spawn_session$')
    pm = inline_calls(P, pm, lambda body, callee: callee.startswith('ripd::server::') and not re.search(r'spawn_session$', callee) and _wpm(body, callee), depth=2, note=ctx.note)
    ctx.touch(pm)
    am = pm.calls(r'ContinuityStore::append_message$')
    ar = pm.calls(r'ContinuityStore::append_run_spawned$')
    sp = pm.calls(r'SessionEngine::spawn_session$')
    if not (am and ar and sp):
        raise CheckError('C07.4: thread_post_message lacks append_message / append_run_spawned / spawn_session')
    ctx.ob('C07.4', pm, 'message-before-run-spawned', all(any(pm.dom(a.bb, r.bb) for a in am) for r in ar), 'append_message dominates append_run_spawned', line=ar[0].line)
    ctx.ob('C07.4', pm, 'run-spawned-before-spawn', all(any(pm.dom(r.bb, s.bb) for r in ar) for s in sp), 'append_run_spawned dominates spawn_session', line=sp[0].line)
    ctx.ob('C07.4', pm, 'one-each', len(am) == 1 and len(ar) == 1 and len(sp) == 1 and not any(pm.in_loop(x.bb) for x in am + ar + sp), 'one append_message, one append_run_spawned, one spawn_session, none in a loop', line=am[0].line)
    # spawn only on success: the result of each append is tested and the error edge returns
    for nm, c in (('append_message', am[0]), ('append_run_spawned', ar[0])):
        # find the switch testing the result and verify spawn is unreachable from its Err edge
        sw = result_switch(pm, c)
        if sw is None:
            ctx.ob('C07.4', pm, 'result-tested:' + nm, False, 'the result of %s is not tested before spawn_session' % nm, line=c.line)
            continue
        err_tgt, ok_tgt = sw
        reach_err = pm.reach(err_tgt)
        ctx.ob('C07.4', pm, 'no-spawn-on-error:' + nm, not any(s.bb in reach_err for s in sp), 'spawn_session is unreachable from the error edge of %s' % nm, line=c.line)
    # who spawns run frames
    rsp = P.callers(r'ContinuityStore::append_run_spawned$')
    ctx.ob('C07.4', pm, 'run-spawned-sites', len(rsp) == 1, 'append_run_spawned has %d call site(s) (one per posted message)' % len(rsp), line=ar[0].line)

    # ---------------------------------------------------------------- C07.5
    je = P.callers(r'ContinuityStore::append_job_ended$')
    ctx.floor('C07.5', 'append_job_ended sites', len(je), 2)
    for s in je:
        others = [o for o in je if o is not s and o.fn is s.fn]
        ok = not s.fn.in_loop(s.bb) and not any(s.fn.can_reach(s.bb, o.bb) for o in others)
        ctx.ob('C07.5', s.fn, 'job-ended-once', ok, 'append_job_ended site is outside loops and cannot be followed by another one', line=s.line)

    # the job runner ends the job itself on every path after the summariser ran (C09.1): a caller
    # that ends it again after the runner returned produces a second job_ended frame
    ended_fns = set()
    cg = P.callgraph()
    rev = {}
    for a_, outs in cg.items():
        for b_ in outs:
            rev.setdefault(b_, set()).add(a_)
    work = ['ripd::continuities::ContinuityStore::append_job_ended']
    while work:
        x = work.pop()
        if x in ended_fns:
            continue
        ended_fns.add(x)
        work.extend(rev.get(x, ()))
    for s in P.callers(r'ContinuityStore::compaction_auto_run_spawned_job_v1$'):
        g = s.fn
        after = g.reach_from_after(s.bb)
        again = [c for c in g.sites() if c.bb in after and c.callee in ended_fns and c.bb != s.bb and not c.callee.endswith('compaction_auto_run_spawned_job_v1')]
        ctx.ob('C07.5', g, 'no-second-end-after-runner', not again,
               'after the job runner returned %s' % ('nothing in the caller can append another job_ended' if not again else
                                                     '%s can append a SECOND continuity_job_ended for a job the runner already ended' % again[0].name), line=again[0].line if again else s.line)

    # ---------------------------------------------------------------- C07.7
    ctx.rule('C07.7', 'a session stream starts with its start frame at seq 0: every Session is constructed with the constant seq 0 and stage Start; stage Start yields SessionStarted; in run_session the first emission is that kernel frame (the emit of the first next_event() dominates every other emit, tool run, checkpoint and the provider loop).')
    for cpath in ('rip_kernel::Session::new', 'rip_kernel::Session::with_id'):
        cf = P.fn(cpath)
        ctx.touch(cf)
        ags = cf.aggregates(r'^rip_kernel::Session$')
        okc = False
        for (bi, si, st) in ags:
            rv = st['rv']
            k = op_const(rv['a'][rv['fields'].index('seq')])
            so = cf.origin(rv['a'][rv['fields'].index('stage')])
            okc = k is not None and k.get('v') == '0' and so[0] == 'rv' and so[1].get('variant') == 'Start'
        ctx.ob('C07.7', cf, 'session-starts-at-0', okc and len(ags) == 1, 'a new Session has seq 0 and stage Start', line=cf.line)
    others = [s for s in P.callers(r'^rip_kernel::Session::set_seq$') if not in_rs(s)]
    ctx.ob('C07.7', 'workspace', 'seq-setter-callers', not others, 'Session::set_seq is only called from run_session (%d other caller(s))' % len(others))
    first_next = [s for s in rs.calls(r'^rip_kernel::Session::next_event$') if not rs.in_loop(s.bb)]
    emits_all = rs.calls(r'^ripd::session::emit_events?$')
    if not first_next:
        raise CheckError('C07.7: run_session does not take the first kernel frame before its main match')
    fn0 = first_next[0]
    first_emit = [e for e in rs.calls(r'^ripd::session::emit_event$') if fn0.dest['l'] in _reads(rs, e.args[0]) and rs.dom(fn0.bb, e.bb)]
    ctx.ob('C07.7', rs, 'start-frame-emitted', bool(first_emit), 'the first kernel frame (SessionStarted) is emitted', line=fn0.line)
    if first_emit:
        fe = first_emit[0]
        later = [x for x in emits_all if x is not fe] + rs.calls(r'ToolRunner::(run|create_checkpoint|rewind_checkpoint)$') + rs.calls(r'^ripd::session::run_openresponses_agent_loop$')
        # the start frame is skipped only when next_event() returned None (cannot happen in stage Start)
        notdom = [x for x in later if not rs.dom(fn0.bb, x.bb) or rs.can_reach(x.bb, fe.bb)]
        ctx.ob('C07.7', rs, 'start-frame-first', not notdom, 'every other emission / tool run / provider loop comes after the start frame', line=fe.line)

    # ---------------------------------------------------------------- C07.6
    hooks = [s for s in P.callers(r'^rip_kernel::Runtime::register_hook$|^rip_kernel::hooks::HookEngine::register$') if not s.fn.path.startswith('rip_kernel::')]
    ctx.ob('C07.6', 'workspace', 'no-production-hooks', not hooks, 'Runtime::register_hook callers outside rip_kernel: %s' % [s.fn.path for s in hooks])

    # ---------------------------------------------------------------- C07.9
    ctx.rule('C07.9', 'every run ends: each iteration of the per-call loop of the provider agent loop passes the increment of the bounded tool-call counter (shared with C16.1) — a provider that keeps sending calls which are answered but not counted would keep the run, and its session_ended / run_ended frames, from ever coming.')
    from .c16 import counted_every_iteration
    okit, whyit, lnit = counted_every_iteration(P)
    ctx.ob('C07.9', P.body('ripd::session::run_openresponses_agent_loop'), 'bounded-agent-loop', okit, whyit, line=lnit)

    # ---------------------------------------------------------------- C07.8
    from .common import char_boundary_ops
    ctx.rule('C07.8', 'the run cannot die on text it does not control: in everything reachable from run_session (provider pipe, agent loop, tool runner, store appends) there is no byte-offset string operation that panics off a UTF-8 character boundary (String::truncate / split_off / insert / remove / drain / replace_range, str::split_at, str range indexing) unless the same function derives or tests the offset (is_char_boundary, char_indices, find, len_utf8). A panic in the spawned run task leaves the session without its end frame and the run without run_ended.')
    par = P.reach_fns([rs.path])
    scope = [P.fns[p] for p in sorted(par) if p in P.fns and P.fns[p].crate.startswith('rip') and P.fns[p].crate not in ('rip', 'rip_tui', 'rip_cli')]
    ops = char_boundary_ops(P, scope)
    witness = char_boundary_ops(P, [f for f in P.fns.values() if f.crate in ('rip', 'rip_tui')])
    ctx.ob('C07.8', 'workspace', 'matcher-alive', len(witness) >= 1, 'the same matcher finds %d byte-offset string operation(s) in the terminal client crates (positive example); %d function(s) reachable from run_session scanned, %d operation(s) found there' % (len(witness), len(scope), len(ops)))
    for (f, s_, g) in ops:
        ctx.ob('C07.8', f, 'char-boundary:' + s_.name, g,
               '%s on run-path text %s' % (s_.name, 'with the offset derived / tested in the same function' if g else
                                           'with an UNCHECKED byte offset: a multi-byte character straddling it panics the run task — no session_ended, no continuity_run_ended'), line=s_.line)


def _reads(f, op):
    from ..prov import reads_locals
    return reads_locals(f, op)


def result_switch(f, site):
    """(err_target, ok_target) of the branch testing the Result of `site` (match / is_err)."""
    l = site.dest['l']
    cur = {l}
    neg = False
    frontier = list(f.succs(site.bb))
    seen = set()
    is_err = False
    while frontier:
        b = frontier.pop(0)
        if b in seen:
            continue
        seen.add(b)
        bl = f.blocks[b]
        for st in bl['s']:
            rv = st.get('rv')
            if not rv:
                continue
            if rv['k'] == 'discr' and rv['pl']['l'] in cur:
                cur.add(st['d']['l'])
            elif rv['k'] in ('use', 'ref') and (op_base(rv['a'][0]) if rv['k'] == 'use' else rv['pl']['l']) in cur:
                cur.add(st['d']['l'])
        t = bl['t']
        if t['k'] == 'call':
            s2 = Site(f, b, t)
            if any(op_base(a) in cur for a in s2.args):
                if s2.name in ('is_err',):
                    is_err = True
                    cur = {s2.dest['l']}
                elif s2.name in ('is_ok',):
                    is_err = False
                    neg = True
                    cur = {s2.dest['l']}
                elif s2.name in ('branch',):
                    cur = {s2.dest['l']}
                else:
                    return None
            frontier += list(f.succs(b))
        elif t['k'] == 'switch' and op_base(t['on']) in cur:
            ts = {v: tb for v, tb in t['ts']}
            if is_err:       # bool: 0 -> not err
                return (t['else'], ts.get('0'))
            if neg:
                return (ts.get('0'), t['else'])
            # discriminant of Result: 0 = Ok, 1 = Err
            return (ts.get('1', t['else']), ts.get('0'))
        else:
            frontier += list(f.succs(b))
        if len(seen) > 12:
            return None
    return None
