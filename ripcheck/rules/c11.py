"""C11 — workspace mutations never overlap; side effects logged inside the lock."""
import re

from ..core import CheckError, Site, op_const, switches
from ..effects import Effects
from ..prov import reads_locals, sources
from .common import str_consts_compared, tool_registry

GUARD = r'^ripd::workspace_lock::WorkspaceGuard$'
RUN = r'^rip_tools::runtime::ToolRunner::run$'
MUTATORS = r'^rip_tools::runtime::ToolRunner::(create_checkpoint|rewind_checkpoint)$|^ripd::tasks::pipes::run_pipes_task$|^ripd::tasks::pty::run_pty_task$'


def polls_of(f, site):
    """blocks polling the future created by an async call site."""
    out = []
    d = site.dest['l']
    for p in f.calls(r'Future>::poll$|future::future::Future::poll$|::\{closure#0\}$'):
        if p.bb == site.bb:
            continue
        if p.args and d in reads_locals(f, p.args[0]) and re.search(r'poll$', p.declared or p.callee):
            out.append(p)
    return out


def not_locked_edge(f, site):
    """is the site reachable only through the false edge of requires_workspace_lock(&X.name)
    where X is the invocation handed to the site?"""
    inv = f.root_local(site.args[3]) if len(site.args) > 3 else None
    for t in f.calls(r'^ripd::workspace_lock::requires_workspace_lock$'):
        sw = f.switch_on_call(t)
        if sw is None:
            continue
        bb, ts, els, neg = sw
        false_tgt = ts.get('0')
        if false_tgt is None:
            continue
        tl = f.root_local(t.args[0], through_calls=(r'::deref$', r'::as_str$'))
        if f.edge_dom(bb, false_tgt, site.bb):
            return True, (tl is not None and tl == inv)
    return False, False


def run(ctx):
    P = ctx.prog
    E = Effects(P)
    ctx.not_decided = 'nothing beyond A2 (ordering of the frames follows from C11.1 + C11.2 + C01).'
    ctx.rule('C11.1', 'every ToolRunner::run in ripd is created and polled inside the live range of a WorkspaceGuard, or is reachable only through the false edge of requires_workspace_lock(&invocation.name) on the same invocation; checkpoint create / rewind and both task runners are inside a guard.')
    ctx.rule('C11.2', 'every append_tool_side_effects is inside the same guard as the run that produced the frames, dominated by that run and by the emission of the tool\'s frames, in the same loop nest (one per run).')
    ctx.rule('C11.3', 'classification: requires_workspace_lock is evaluated concretely for every registered tool name and alias (allow-list or deny-list alike); every name for which it answers "no lock" is a tool whose handler reaches no FsWrite and no ProcSpawn effect.')
    ctx.rule('C11.5', 'each mutating call yields its frame however the tool ended: in summarize_continuity_tool_side_effects every `?` that can turn the summary into None is applied to a search whose closure looks at ToolStarted frames only — whether a side-effects frame is written must not depend on tool_ended / tool_failed / checkpoint frames being present (a failed or timed-out mutating call has none of them).')
    ctx.rule('C11.4', 'one lock: WorkspaceLock::new has one caller, its semaphore has the constant 1 permit, and the same Arc reaches the task engine and every session.')

    runs = [s for s in P.callers(RUN) if s.fn.crate == 'ripd']
    ctx.floor('C11.1', 'ToolRunner::run sites in ripd', len(runs), 4)
    for s in runs:
        f = s.fn
        held = f.held_at(s.bb, GUARD)
        if held:
            polls = polls_of(f, s)
            okp = all(held[0] in f.held_at(p.bb, GUARD) for p in polls) and bool(polls)
            ctx.ob('C11.1', f, 'run-under-lock', okp, 'tool run is created under `%s` and %s' % (f.lname(held[0]), 'polled under it (%d poll site(s))' % len(polls) if okp else 'NOT polled under it'), line=s.line)
        else:
            edge, same = not_locked_edge(f, s)
            ctx.ob('C11.1', f, 'run-under-lock', edge and same,
                   'tool run without the lock is %s' % ('only reachable when requires_workspace_lock(&invocation.name) is false for the same invocation' if edge and same else
                                                       'reachable although requires_workspace_lock may be true' if not edge else 'guarded by a test on a DIFFERENT value than the invocation that runs'), line=s.line)
    muts = [s for s in P.callers(MUTATORS) if s.fn.crate == 'ripd']
    ctx.floor('C11.1', 'checkpoint / task-run sites', len(muts), 4)
    for s in muts:
        f = s.fn
        held = f.held_at(s.bb, GUARD)
        ok = bool(held)
        if ok and re.search(r'run_(pipes|pty)_task$', s.callee):
            polls = polls_of(f, s)
            ok = bool(polls) and all(held[0] in f.held_at(p.bb, GUARD) for p in polls)
        ctx.ob('C11.1', f, 'mutation-under-lock:' + s.name, ok, '%s %s a WorkspaceGuard' % (s.name, 'runs inside' if ok else 'runs OUTSIDE'), line=s.line)

    # ---------------------------------------------------------------- C11.2
    # seen from the function that runs the tool: a recording block extracted into a helper is followed to its call sites
    se = P.lift_sites([s for s in P.callers(r'ContinuityStore::append_tool_side_effects$')], lambda g: bool(g.calls(RUN)))
    ctx.floor('C11.2', 'append_tool_side_effects sites', len(se), 2)
    for s in se:
        f = s.fn
        held = f.held_at(s.bb, GUARD)
        rs = [r for r in f.calls(RUN) if f.dom(r.bb, s.bb)]
        same_guard = bool(held) and any(held[0] in f.held_at(r.bb, GUARD) for r in rs)
        ctx.ob('C11.2', f, 'side-effects-under-same-lock', same_guard, 'append_tool_side_effects %s' % ('is inside the guard of the dominating tool run' if same_guard else 'is NOT inside the guard that covered the tool run (another mutation can be logged first)'), line=s.line)
        emits = [e for e in f.calls(r'EventSink::emit_all$|^ripd::session::emit_events$') if f.dom(e.bb, s.bb) and any(f.dom(r.bb, e.bb) for r in rs)]
        ctx.ob('C11.2', f, 'after-tool-frames', bool(emits), 'the side-effects frame follows the emission of the tool\'s frames', line=s.line)
        ctx.ob('C11.2', f, 'one-per-run', bool(rs) and all(f.innermost_loop(r.bb) == f.innermost_loop(s.bb) for r in rs[-1:]), 'same loop nest as the run (one frame per mutating call)', line=s.line)
    # trigger side: every locked run is followed by a side-effects append in the same guard
    for r in runs:
        f = r.fn
        if not f.held_at(r.bb, GUARD):
            continue
        post = [s for s in se if s.fn is f and f.dom(r.bb, s.bb)]
        ctx.ob('C11.2', f, 'locked-run-logs-side-effects', bool(post), 'a mutating tool run %s' % ('is followed by append_tool_side_effects' if post else 'is NOT followed by append_tool_side_effects'), line=r.line)

    # ---------------------------------------------------------------- C11.3
    rq = P.fn('ripd::workspace_lock::requires_workspace_lock')
    ctx.touch(rq)
    names = sorted({n for n, _ in str_consts_compared(rq)})
    ctx.floor('C11.3', 'tool names the classifier compares against', len(names), 3)
    tools, aliases = tool_registry(P)
    from .common import eval_str_predicate
    # the classifier is evaluated concretely for every registered name and alias (polarity-independent:
    # allow-list or deny-list, match or if-chain): a name for which it answers "no lock" must be a tool
    # without a write / spawn effect; a name it has never heard of must take the lock
    verdicts = {n: eval_str_predicate(rq, n) for n in sorted(set(tools) | set(aliases))}
    unknown = eval_str_predicate(rq, '\x00no-such-tool')
    if None in verdicts.values() or unknown is None:
        raise CheckError('C11.3: requires_workspace_lock is not a literal string classifier any more (construct not modelled by the evaluator)')
    for nme in sorted(verdicts):
        if verdicts[nme]:
            continue
        target = aliases.get(nme, nme)
        par = P.reach_fns([tools[target]])
        bad = []
        for eff in ('FsWrite', 'ProcSpawn'):
            for p in par:
                d = E.direct(p)
                if eff in d:
                    bad.append((eff, P.chain(par, p), d[eff][0]))
        ctx.ob('C11.3', rq, 'unlocked-tool-has-no-write:' + nme, not bad,
               'requires_workspace_lock("%s") = false; the tool%s (%d functions reachable) %s' % (nme, ' (alias of %s)' % target if target != nme else '', len(par), 'has no FsWrite / ProcSpawn effect' if not bad else
                                                          'RUNS WITHOUT THE WORKSPACE LOCK but reaches %s: %s' % (bad[0][0], ' -> '.join(x.split('::')[-1] for x in bad[0][1]) + ' -> ' + bad[0][2].callee)), line=rq.line)
    ctx.note('C11.3: a name the classifier has never heard of %s (not an obligation: only registered tools can run)' % ('takes the lock' if unknown else 'runs without the lock'))
    ctx.floor('C11.3', 'registered tool names and aliases evaluated', len(verdicts), 8)
    ctx.note('C11.3 classifier verdicts: ' + ', '.join('%s=%s' % (k, 'lock' if v else 'no-lock') for k, v in sorted(verdicts.items())))

    # ---------------------------------------------------------------- C11.4
    news = P.callers(r'^ripd::workspace_lock::WorkspaceLock::new$')
    ctx.ob('C11.4', 'workspace', 'one-lock-instance', len(news) == 1 and not news[0].fn.in_loop(news[0].bb), 'WorkspaceLock::new is called from %s' % [s.fn.path for s in news])
    wl = P.fn('ripd::workspace_lock::WorkspaceLock::new')
    sem = wl.calls(r'tokio::sync::batch_semaphore::Semaphore::new$|tokio::sync::semaphore::Semaphore::new$')
    okp = len(sem) == 1 and op_const(sem[0].args[0]) is not None and op_const(sem[0].args[0]).get('v') == '1'
    ctx.ob('C11.4', wl, 'one-permit', okp, 'Semaphore::new(%s)' % (op_const(sem[0].args[0]).get('v') if sem and op_const(sem[0].args[0]) else '?'), line=wl.line)
    acq = P.body('ripd::workspace_lock::WorkspaceLock::acquire')
    ao = acq.calls(r'Semaphore::acquire_owned$|Semaphore::acquire$|acquire_many')
    ctx.ob('C11.4', acq, 'acquire-one', len(ao) == 1 and ao[0].name == 'acquire_owned', 'acquire takes one owned permit (%s)' % [a.name for a in ao], line=acq.line)
    # the guard IS the permit: whoever holds a WorkspaceGuard holds the one permit (a guard that can exist without it — an Option that a
    # timed-out wait leaves None — lets the queued mutation run alongside the holder)
    ctx.rule('C11.7', 'the guard is the permit: the WorkspaceGuard type carries an OwnedSemaphorePermit by value (not an Option of one), and WorkspaceLock::acquire waits for it unconditionally — no timeout / select / try_acquire stands between the caller and the permit. A long-running task holds the lock for its whole execution; a bounded wait that gives up and proceeds overlaps with it.')
    gadt = P.adts.get('ripd::workspace_lock::WorkspaceGuard')
    if gadt is None:
        raise CheckError('C11.7: ADT ripd::workspace_lock::WorkspaceGuard missing')
    gf = [fl for v in gadt['variants'] for fl in v['fields']]
    permit_by_value = [fl for fl in gf if re.search(r'^tokio::sync::(semaphore::)?OwnedSemaphorePermit$', fl['ty'])]
    ctx.ob('C11.7', 'ripd::workspace_lock::WorkspaceGuard', 'guard-carries-permit', bool(permit_by_value),
           'WorkspaceGuard fields: %s' % ', '.join('%s: %s' % (fl['name'], fl['ty']) for fl in gf))
    bounded = acq.calls(r'^tokio::time::timeout::timeout$|^tokio::time::timeout_at$|^tokio::time::timeout::timeout_at$|Semaphore::try_acquire|^tokio::time::sleep::sleep$|^futures_util::future::select|tokio::macros::support::poll_fn')
    ctx.ob('C11.7', acq, 'acquire-waits-unconditionally', not bounded,
           'acquire %s' % ('awaits the permit with nothing that can give up' if not bounded else 'wraps the wait in %s: when it gives up the caller proceeds without the lock' % bounded[0].callee),
           line=bounded[0].line if bounded else acq.line)


    # ---------------------------------------------------------------- C11.8
    ctx.rule('C11.8', 'nothing of a tool outlives the call that held the lock: the tool runner drops a handler future when its timeout expires, and the session then releases the '
             'workspace lock — so every child process a tool handler of rip_tools::builtins starts (tokio::process::Command::spawn) is configured with kill_on_drop(true) on the same '
             'command before the spawn. (A std::process child, or a tokio child without it, keeps running and keeps writing after tool_failed: timeout — the repaired F-C11-timeout. '
             'Not decided here: a spawn_blocking file tool that is still inside its write when the timeout fires.)')
    n8 = 0
    for g in [x for x in P.fns.values() if x.crate == 'rip_tools' and re.match(r'^rip_tools::builtins::', x.path)]:
        for sp in g.calls(r'^tokio::process::Command::spawn$|^std::process::Command::(spawn|output|status)$|^tokio::process::Command::(output|status)$'):
            n8 += 1
            cmd = g.root_local(sp.args[0]) if sp.args else None
            kod = [k for k in g.calls(r'^tokio::process::Command::kill_on_drop$') if k.args and g.root_local(k.args[0]) == cmd and g.dom(k.bb, sp.bb)
                   and (op_const(k.args[1]) or {}).get('v') is True]
            is_tokio = sp.callee.startswith('tokio::')
            if not kod and cmd is not None:
                # `let mut cmd = base_command(..)`: a helper of the crate that builds the command and ties it to the future itself
                for d8 in g.defs(cmd):
                    if d8[2] == 'call':
                        H8 = P.fns.get(Site(g, d8[0], d8[3]).callee or '')
                        if H8 is not None and H8.crate == 'rip_tools' and any((op_const(k.args[1]) or {}).get('v') is True for k in H8.calls(r'^tokio::process::Command::kill_on_drop$') if len(k.args) > 1):
                            kod = [Site(g, d8[0], d8[3])]
            ok8 = bool(kod) and is_tokio
            ctx.ob('C11.8', g, 'child-dies-with-the-call:' + sp.name, ok8,
                   '%s %s' % (sp.callee, 'on a command configured with kill_on_drop(true)' if ok8 else
                              ('of a std::process child: it cannot be tied to the handler future' if not is_tokio else
                               'WITHOUT kill_on_drop(true) on that command: when the runner drops the handler at a timeout the child keeps running outside the workspace lock')), line=sp.line)
    ctx.floor('C11.8', 'child processes started by tool handlers', n8, 1)

    # ---------------------------------------------------------------- C11.5
    from .c01 import ok_edge_of_try
    sm = P.fn('ripd::session::summarize_continuity_tool_side_effects')
    ctx.touch(sm)
    ek = P.adts.get('rip_kernel::EventKind')
    vnames = [v['name'] for v in ek['variants']] if ek else []
    ntry = 0
    for s_ in sm.sites():
        if re.search(r'Try>::branch$|::map_err$', s_.callee):
            continue
        if ok_edge_of_try(sm, s_) is None:
            continue
        # closures handed to the searched call (find_map / find / position / and_then ...)
        tested = set()
        ncl = 0
        for a in s_.args:
            o = sm.origin(a)
            if o[0] == 'rv' and o[1].get('ak') == 'closure' and o[1].get('def') in P.fns:
                ncl += 1
                cf = P.fns[o[1]['def']]
                for (bi, on, ts, els) in switches(cf):
                    oo = cf.origin(on)
                    if oo[0] == 'rv' and oo[1]['k'] == 'discr' and (re.search(r'rip_kernel::EventKind$', cf.lty(oo[1]['pl']['l'])) and all(pp == '*' for pp in oo[1]['pl'].get('p', [])) or any(isinstance(pp, dict) and pp.get('n') == 'kind' and pp.get('o') == 'rip_kernel::Event' for pp in oo[1]['pl'].get('p', [])) and not any(isinstance(pp, dict) and pp.get('o') == 'rip_kernel::EventKind' for pp in oo[1]['pl'].get('p', []))):
                        for k in ts:
                            if str(k).isdigit() and int(k) < len(vnames):
                                tested.add(vnames[int(k)])
        if not ncl:
            continue
        ntry += 1
        other = sorted(tested - {'ToolStarted'})
        ctx.ob('C11.5', sm, 'none-only-without-tool-started:' + s_.name, not other,
               'the `?` on %s looks for %s' % (s_.name, 'ToolStarted only: no tool ran, nothing to record' if not other else
               '%s: a mutating call whose run produced no such frame (tool_failed, timeout, unknown tool) leaves NO side-effects frame on the thread' % ', '.join(other)), line=s_.line)
    ctx.floor('C11.5', '`?` on frame searches in summarize_continuity_tool_side_effects', ntry, 1)

    # ---------------------------------------------------------------- C11.6
    ctx.rule('C11.6', 'the lock outlives every process of the task: a task runner that puts its child into a process group of its own (Command::process_group) must, wherever it kills the child, also signal the group (a foreign kill / killpg with a negated pid, directly or through a workspace helper) — killing the shell leader alone lets its workers go on mutating the workspace after the task ended and the workspace lock was released.')
    def group_killers():
        out = set()
        for p_, g in P.fns.items():
            for s_ in g.sites():
                c = s_.callee or ''
                if c in P.fns or not re.search(r'::(kill|killpg)$', c) or not s_.args:
                    continue
                o = g.origin(s_.args[0])
                if c.endswith('killpg') or (o[0] == 'rv' and o[1].get('k') == 'un' and o[1].get('op') == 'Neg'):
                    out.add(p_)
        return out
    gk = group_killers()
    n6 = 0
    for p_, g in sorted(P.fns.items()):
        if not g.crate.startswith('rip') or not g.calls(r'process::Command::process_group$|CommandExt::process_group$'):
            continue
        fam = P.family(p_.split('::{closure')[0])
        for h in fam:
            lk = h.calls(r'process::Child::(start_kill|kill)$')
            gks = [s_ for s_ in h.sites() if s_.callee in gk]
            for k_ in lk:
                n6 += 1
                ctx.touch(h)
                ok6 = any(h.can_reach(x.bb, k_.bb) or h.can_reach(k_.bb, x.bb) for x in gks)
                ctx.ob('C11.6', h, 'cancel-kills-the-group', ok6,
                       'the child was given its own process group (line %s); %s' % (g.calls(r'process_group$')[0].line, 'the kill at this site is accompanied by a signal to the whole group' if ok6 else
                       'only the leader is killed here (%s) and NO group signal is sent: its descendants keep running — and writing — after the task reported its end and released the workspace lock' % k_.name), line=k_.line)
    ctx.floor('C11.6', 'kill sites in runners that create a process group', n6, 1)
