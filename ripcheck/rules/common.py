"""shared discovery helpers (tool registry, frame constructions)."""
import re

from ..core import CheckError, op_const


def tool_registry(P):
    """({tool name: handler closure path}, {alias: target}) from register_builtin_tools."""
    f = P.fn('rip_tools::builtins::register_builtin_tools')
    tools, aliases = {}, {}
    for s in f.calls(r'^rip_tools::runtime::ToolRegistry::register$'):
        k = op_const(s.args[1])
        if k is None or 'str' not in k:
            o = f.origin(s.args[1])
            k = o[1] if o[0] == 'const' else None
        if k is None or 'str' not in k:
            raise CheckError('tool registry: a tool is registered under a non-constant name (%s:%d)' % (f.file, s.line))
        o = f.origin(s.args[2], through_calls=(r'alloc::sync::Arc::<T>::new$', r'Arc::new$'))
        if not (o[0] == 'rv' and o[1].get('ak') == 'closure'):
            raise CheckError('tool registry: handler of %s is not a closure literal (unrecognised idiom)' % k['str'])
        tools[k['str']] = o[1]['def']
    for s in f.calls(r'^rip_tools::runtime::ToolRegistry::register_alias$'):
        a, b = f.origin(s.args[1]), f.origin(s.args[2])
        if a[0] != 'const' or b[0] != 'const':
            raise CheckError('tool registry: alias with non-constant names')
        aliases[a[1]['str']] = b[1]['str']
    if len(tools) < 7:
        raise CheckError('tool registry: found %d registered tools, floor is 7' % len(tools))
    return tools, aliases


def str_consts_compared(f):
    """string constants the function compares its input against (<str as PartialEq>::eq)."""
    out = []
    for s in f.calls(r'PartialEq(::|.*>::)(eq|ne)$'):
        for a in s.args:
            o = f.origin(a)
            if o[0] == 'const' and 'str' in o[1]:
                out.append((o[1]['str'], s))
    return out


def log_append_body(P):
    """EventLog::append with the private helpers of rip-log it delegates to spliced in (`serialize_frame(event)?`)."""
    if not hasattr(P, '_log_app'):
        from ..inline import inline_calls
        P._log_app = inline_calls(P, P.fn('rip_log::EventLog::append'), lambda body, callee: callee.startswith('rip_log::') and not callee.endswith('::append'), depth=2)
    return P._log_app


def log_writer_calls(P):
    """EventLog::append: every call that is handed the guarded log writer (whatever its name:
    write_all / write / write_fmt / serde_json::to_writer / io::copy), flush excluded.
    returns (append fn, all such calls, those from which the Ok return is reachable)."""
    import re as _re
    from ..core import CheckError
    app = log_append_body(P)
    guards = [s.dest['l'] for s in app.calls(r'Mutex::<T>::lock$')]
    guards += [s.dest['l'] for s in app.calls(r'Result::<T, E>::(expect|unwrap)$|unwrap_or_else$') if 'MutexGuard' in app.lty(s.dest['l'])]
    if not guards:
        raise CheckError('EventLog::append does not lock a writer (anchor missing)')
    DER = (r'::deref$', r'::deref_mut$', r'::as_mut$', r'::by_ref$', r'::get_mut$')
    writes = []
    for s_ in app.sites():
        if _re.search(r'::(deref|deref_mut|as_mut|by_ref|get_mut|flush|drop|lock|expect|unwrap|unwrap_or_else)$', s_.callee) or s_.name == 'drop':
            continue
        if any(app.root_local(a, through_calls=DER) in guards for a in s_.args):
            writes.append(s_)
    okret = [bi for (bi, si, st) in app.aggregates(r'^core::result::Result$', 'Ok')]
    on_ok = [w for w in writes if any(r in app.reach(w.bb) for r in okret)]
    return app, writes, on_ok


CHAR_BOUNDARY_OPS = (r'^alloc::string::String::(truncate|split_off|insert|insert_str|remove|drain|replace_range)$'
                     r'|^core::str::<impl str>::split_at(_mut)?$'
                     r'|impl core::ops::index::Index(Mut)?<I> for str>::index(_mut)?$'
                     r'|^<alloc::string::String as core::ops::index::Index(Mut)?<I>>::index(_mut)?$')
CHAR_BOUNDARY_GUARDS = r'::is_char_boundary$|::char_indices$|::floor_char_boundary$|::ceil_char_boundary$|::find$|::rfind$|::len_utf8$|::match_indices$|::split_at_checked$'


def char_boundary_ops(P, fns):
    """byte-offset string operations that PANIC when the offset is not on a UTF-8 character
    boundary (String::truncate / split_off / insert / remove / drain / replace_range, str::split_at,
    str / String range indexing). returns [(fn, site, guarded)] — guarded when the same function
    derives or tests offsets with is_char_boundary / char_indices / find / len_utf8 (the repo's idioms)."""
    import re as _re
    from ..prov import reads_locals as _rl
    out = []
    for f in fns:
        guards = None
        for s_ in f.sites():
            if _re.search(CHAR_BOUNDARY_OPS, s_.callee):
                # a full-range index str[..] cannot panic
                if 'RangeFull' in s_.full:
                    continue
                if guards is None:
                    guards = f.calls(CHAR_BOUNDARY_GUARDS)
                # the guard has to be about THIS offset: the offset operand is computed from a guard's result
                # (char_indices / find / len_utf8 arithmetic), or the very local is tested with is_char_boundary;
                # an unrelated `'…'.len_utf8()` elsewhere in the function guards nothing
                offs = set()
                for a in s_.args[1:]:
                    offs |= _rl(f, a)
                # the constant 0 (`insert(0, ..)`) is always a boundary; any other constant is not
                g = False
                for c_ in guards:
                    if c_.dest and c_.dest['l'] in offs:
                        g = True
                    if c_.name in ('is_char_boundary', 'floor_char_boundary', 'ceil_char_boundary') and len(c_.args) > 1 and (_rl(f, c_.args[1]) & offs):
                        g = True
                if not g and s_.args[1:] and all(op_const(a) is not None and str(op_const(a).get('v')) == '0' for a in s_.args[1:]):
                    g = True
                out.append((f, s_, g))
    return out


def eval_str_predicate(f, value, param=1, fuel=400):
    """concretely evaluate a small `fn(&str) -> bool` classifier (a matches! / match / if-chain
    over string literals) for one input: interprets const / copy / Not statements, <str as
    PartialEq>::eq|ne calls against literals, switches and gotos. returns True / False, or None
    when it meets a construct it does not model (the caller then falls back or fails closed)."""
    import re as _re
    env = {}
    STR = object()

    def val(op):
        k = op_const(op)
        if k is not None:
            if 'str' in k:
                return k['str']
            if isinstance(k.get('v'), bool):
                return k['v']
            return None
        pl = op.get('c') or op.get('m')
        if pl is None:
            return None
        if pl['l'] == param:
            return STR
        return env.get(pl['l'])
    bi = 0
    while fuel > 0:
        fuel -= 1
        b = f.blocks[bi]
        for st in b['s']:
            rv = st.get('rv')
            if not rv or 'p' in st['d']:
                continue
            d = st['d']['l']
            if rv['k'] == 'use':
                env[d] = val(rv['a'][0])
            elif rv['k'] == 'ref' and rv['pl']['l'] == param:
                env[d] = STR
            elif rv['k'] == 'ref':
                env[d] = env.get(rv['pl']['l'])
            elif rv['k'] == 'un' and rv['op'] == 'Not':
                v = val(rv['a'][0])
                env[d] = (not v) if isinstance(v, bool) else None
            else:
                env[d] = None
        t = b['t']
        if t['k'] == 'goto':
            bi = t['to'][0]
        elif t['k'] == 'ret':
            r = env.get(0)
            return r if isinstance(r, bool) else None
        elif t['k'] == 'call':
            cal = (t['f'].get('r') or t['f'].get('p') or '')
            m = _re.search(r'PartialEq(::|.*>::)(eq|ne)$', cal)
            if not m or len(t['a']) != 2:
                return None
            a, b2 = val(t['a'][0]), val(t['a'][1])
            if a is STR and isinstance(b2, str):
                r = (value == b2)
            elif b2 is STR and isinstance(a, str):
                r = (value == a)
            else:
                return None
            env[t['d']['l']] = r if m.group(2) == 'eq' else (not r)
            bi = t['to'][0]
        elif t['k'] == 'switch':
            v = val(t['on'])
            if not isinstance(v, bool):
                return None
            tgt = None
            for (c, tb) in t['ts']:
                if str(c) == ('1' if v else '0'):
                    tgt = tb
            bi = tgt if tgt is not None else t['else']
        else:
            return None
    return None


RS_INTEREST = (r'^ripd::session::emit_events?$|ContinuityStore::append_\w+$|^rip_log::write_snapshot$|^rip_kernel::Session::(set_seq|next_event|seq)$'
               r'|^ripd::session::run_openresponses_agent_loop$|ToolRunner::(run|create_checkpoint|rewind_checkpoint)$')
RS_KEEP = r'^ripd::session::(emit_events?|run_openresponses_agent_loop|compile_context_bundle_for_run|summarize_continuity_tool_side_effects)$|^ripd::continuities::|^rip_'


def run_session_body(P, note=None):
    """the body of run_session as the rules read it: private helpers of session.rs that hold one
    of the lifecycle constructs (an emit, a store append, the snapshot, the kernel seq / next_event,
    the provider loop, a tool run) are spliced in at their call sites, so a terminal emission or a
    recording block that was extracted into a helper is still seen on the path where it runs."""
    if not hasattr(P, '_rs_inl'):
        import re as _re
        from ..inline import inline_calls, contains
        base = P.body('ripd::session::run_session')
        c = contains(rx_calls=RS_INTEREST)
        P._rs_inl = inline_calls(P, base, lambda body, callee: not _re.search(RS_KEEP, callee) and c(body, callee), depth=2, note=note)
    return P._rs_inl


def sidecar_appenders(P):
    """the entry points that mirror one frame into the per-thread sidecar: methods of ContinuityStreamCache that take
    an &Event, reach a line write (write_all) inside the cache module, and are called from outside that module.
    (`append_best_effort` on the pinned tree; a fallible twin or a renamed entry point is found the same way.)"""
    if hasattr(P, '_sc_app'):
        return P._sc_app
    MOD = 'ripd::continuity_stream_cache::'
    out = []
    for p, f in sorted(P.fns.items()):
        if not p.startswith(MOD + 'ContinuityStreamCache::') or '{closure' in p or re.search(r'::rebuild_\w*$', p):
            continue
        if not any('rip_kernel::Event' in (f.lty(i) or '') and 'Vec<' not in (f.lty(i) or '') and '[' not in (f.lty(i) or '') for i in range(1, f.argc + 1)):
            continue
        reach = P.reach_fns([p], stop_rx=r'::rebuild_\w*$')
        if not any(re.search(r'std::io::Write>::write_all$', x) for x in reach):
            continue
        if any(not s.fn.path.startswith(MOD) for s in P.callers('^' + re.escape(p) + '$')):
            out.append(p)
    if not out:
        raise CheckError('no entry point of ContinuityStreamCache mirrors a frame into the sidecar (anchor missing)')
    P._sc_app = out
    return out


def sidecar_append_rx(P):
    return '^(' + '|'.join(re.escape(p) for p in sidecar_appenders(P)) + ')$'


WS_RESOLVERS = r'^rip_workspace::Workspace::(to_relative|safe_join)$|^rip_workspace::(normalize_rel|hash_bytes|now_ms)$|^rip_workspace::patch::'


def workspace_helpers_of(P, root, depth=2):
    """root plus the private helpers of rip_workspace it delegates to (transitively, `depth` levels), resolvers and the
    patch parser excluded: the functions among which a rule about `root` has to look for its sites once the body
    was split up ("snapshot one file", "resolve all inputs")."""
    out = [root]
    frontier = [root]
    for _ in range(depth):
        nxt = []
        for p in frontier:
            f = P.fns.get(p)
            if f is None:
                continue
            for g in P.family(p):
                for s in g.sites():
                    c = s.callee or ''
                    if c.startswith('rip_workspace::') and c in P.fns and '{closure' not in c and not re.search(WS_RESOLVERS, c) and c not in out:
                        out.append(c)
                        nxt.append(c)
        frontier = nxt
    return out


def workspace_body(P, root, depth=2):
    """`root` with those helpers spliced in (one body, for order-of-effects rules)."""
    from ..inline import inline_calls
    key = '_wsb_' + root
    if not hasattr(P, key):
        setattr(P, key, inline_calls(P, P.fn(root), lambda body, callee: callee.startswith('rip_workspace::') and not re.search(WS_RESOLVERS, callee), depth=depth))
    return getattr(P, key)
