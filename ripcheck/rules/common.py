"""shared discovery helpers (tool registry, frame constructions)."""
import re

from ..core import CheckError, op_const


def tool_registry(P):
    """({tool name: handler closure path}, {alias: target}) from register_builtin_tools."""
    f = P.fn('rip_tools::builtins::register_builtin_tools')
    tools, aliases = {}, {}
    for s in f.calls(r'^rip_tools::runtime::ToolRegistry::register$'):
        k = op_const(s.args[1])
        if k is None or 'str' not in k:
            o = f.origin(s.args[1])
            k = o[1] if o[0] == 'const' else None
        if k is None or 'str' not in k:
            raise CheckError('tool registry: a tool is registered under a non-constant name (%s:%d)' % (f.file, s.line))
        o = f.origin(s.args[2], through_calls=(r'alloc::sync::Arc::<T>::new$', r'Arc::new$'))
        if not (o[0] == 'rv' and o[1].get('ak') == 'closure'):
            raise CheckError('tool registry: handler of %s is not a closure literal (unrecognised idiom)' % k['str'])
        tools[k['str']] = o[1]['def']
    for s in f.calls(r'^rip_tools::runtime::ToolRegistry::register_alias$'):
        a, b = f.origin(s.args[1]), f.origin(s.args[2])
        if a[0] != 'const' or b[0] != 'const':
            raise CheckError('tool registry: alias with non-constant names')
        aliases[a[1]['str']] = b[1]['str']
    if len(tools) < 7:
        raise CheckError('tool registry: found %d registered tools, floor is 7' % len(tools))
    return tools, aliases


def str_consts_compared(f):
    """string constants the function compares its input against (<str as PartialEq>::eq)."""
    out = []
    for s in f.calls(r'PartialEq(::|.*>::)(eq|ne)$'):
        for a in s.args:
            o = f.origin(a)
            if o[0] == 'const' and 'str' in o[1]:
                out.append((o[1]['str'], s))
    return out
