"""C02 — truth log append-only; read-only / no-op capabilities never write (structural)."""
import re

from ..core import CheckError, op_const, switches
from ..effects import Effects
from ..prov import reads_locals, sources

READ_ONLY_STORE = {
    'list': 'thread listing', 'get': 'thread lookup', 'subscribe': 'live stream', 'replay_events': 'replay',
    'compaction_cut_points_v1': 'cut points', 'compaction_status_v1': 'compaction status',
    'provider_cursor_status_v1': 'cursor status', 'context_selection_status_v1': 'selection status',
    'load_context_compile_input_recent_messages_v1': 'compile input read path',
    'latest_compaction_checkpoint_for_compile_v1': 'checkpoint selection read path',
    'hierarchical_compaction_checkpoints_for_compile_v1': 'checkpoint hierarchy read path',
}
READ_ONLY_HANDLERS = {
    'openapi_spec': 'GET /openapi.json', 'config_doctor': 'GET diagnostics', 'stream_events': 'GET session stream',
    'thread_list': 'GET', 'thread_get': 'GET', 'thread_stream_events': 'GET thread stream', 'list_tasks': 'GET',
    'task_status': 'GET', 'task_output': 'GET', 'stream_task_events': 'GET task stream',
    'thread_compaction_cut_points': 'POST-with-body cut-point query', 'thread_compaction_status': 'POST-with-body status query',
    'thread_provider_cursor_status': 'POST-with-body status query', 'thread_context_selection_status': 'POST-with-body status query',
}
CACHE_MODULES = ['ripd::continuity_stream_cache::', 'ripd::continuity_seek_index::', 'ripd::message_ordinal_index::',
                 'ripd::compaction_checkpoint_index::']
STORE = 'ripd::continuities::ContinuityStore::'


def run(ctx):
    P = ctx.prog
    E = Effects(P)
    ctx.not_decided = 'OS semantics of O_APPEND; byte-prefix preservation is implied by (append-only open mode) + (single writer set) + (no other code can name the file), not observed.'
    c028(ctx)
    ctx.rule('C02.1', 'EventLog::new opens the truth file with create(true)+append(true) and nothing else (no truncate/write/create_new); no function of crate rip_log calls File::create, set_len, seek, fs::write, rename, remove_file or copy.')
    ctx.rule('C02.2', 'in EventLog::append serde_json::to_string dominates the first write (a serialisation error writes nothing) and flush is passed on every path from a write to the Ok return.')
    ctx.rule('C02.3', 'the literal "events.jsonl" occurs in production code only where it flows into EventLog::new; EventLog fields are private; cache modules never call into rip_log write APIs and never name EventLog.')
    ctx.rule('C02.4', 'no read-only capability (11 store methods, 14 HTTP handlers) can reach EventLog::append over the call graph.')
    ctx.rule('C02.5', 'in the compaction spawn/schedule entry points every call that can reach EventLog::append is reachable only through the false edge of the dry_run test and of planned.is_empty(); provider_cursor_rotate_v1 appends only on the Some(target) edge.')

    # ---------------------------------------------------------------- C02.1
    from ..inline import inline_calls as _inl_new
    # a private `open_for_append(path)` helper of rip-log is spliced into the constructor
    new = _inl_new(P, P.fn('rip_log::EventLog::new'), lambda body, callee: callee.startswith('rip_log::') and not callee.endswith('::new'), depth=2, note=ctx.note)
    oo = new.calls(r'^std::fs::OpenOptions::')
    names = [s.name for s in oo]
    ctx.floor('C02.1', 'OpenOptions calls in EventLog::new', len(oo), 3)
    for s in oo:
        if s.name in ('new', 'open'):
            continue
        if s.name in ('create', 'append'):
            k = op_const(s.args[1])
            ok = k is not None and k.get('v') is True
            ctx.ob('C02.1', new, 'open-mode:' + s.name, ok, 'OpenOptions::%s(%s)' % (s.name, k.get('v') if k else 'non-constant'), line=s.line)
        elif s.name == 'read':
            ctx.ob('C02.1', new, 'open-mode:' + s.name, True, 'read access is harmless', line=s.line)
        else:
            ctx.ob('C02.1', new, 'open-mode:' + s.name, False, 'OpenOptions::%s on the truth file: only create+append keep the file append-only' % s.name, line=s.line)
    ctx.ob('C02.1', new, 'open-mode:append-present', 'append' in names, 'append(true) %s' % ('present' if 'append' in names else 'MISSING'), line=new.line)
    # the file handle handed to the writer is that OpenOptions result
    # whatever is stored as the log's writer (a BufWriter around the file, the file itself, ...) is that handle
    aggs = [(bi, si, st) for (bi, si, st) in new.aggregates(r'^rip_log::EventLog$')]
    ctx.floor('C02.1', 'EventLog constructions in EventLog::new', len(aggs), 1)
    for (bi, si, st) in aggs:
        rv = st['rv']
        for fld, op in zip(rv['fields'], rv['a']):
            if not re.search(r'File|Write', next((x['ty'] for v_ in (P.adts.get('rip_log::EventLog') or {'variants': []})['variants'] for x in v_['fields'] if x['name'] == fld), '')):
                continue
            rl = reads_locals(new, op)
            ok = any(c_.dest and c_.dest['l'] in rl for c_ in new.calls(r'^std::fs::OpenOptions::open$')) and not any(
                c_.dest and c_.dest['l'] in rl for c_ in new.calls(r'File::(create|create_new|options)$'))
            ctx.ob('C02.1', new, 'writer-handle', ok, 'the writer (field `%s`) wraps the handle opened with the append-only OpenOptions chain' % fld, line=st.get('ln'))
    n = 0
    for f in P.find_fns(r'^rip_log::'):
        for s in f.calls(r'^std::fs::(write|rename|remove_file|copy|remove_dir_all)$|^std::fs::File::(create|create_new|set_len)$|std::io::Seek>::seek$|^std::fs::OpenOptions::(truncate|write|create_new)$'):
            n += 1
            # write_snapshot legitimately creates snapshot files: allowed only outside EventLog's impl
            inside = f.path.startswith('rip_log::EventLog::')
            ctx.ob('C02.1', f, 'destructive-fs-in-rip_log:' + s.name, not inside,
                   '%s in %s' % (s.callee, 'EventLog impl (can reach the truth handle)' if inside else 'snapshot code (separate file, path given by caller)'), line=s.line)
        ctx.touch(f)

    # no store file — the truth log first of all — is ever resized in place (C04.9 under this property's id)
    from .c04 import c049
    c049(ctx, rid='C02.7')

    # ---------------------------------------------------------------- C02.2
    from .common import log_append_body
    app = log_append_body(P)
    ser = app.calls(r'^serde_json::ser::to_string$|^serde_json::ser::to_vec$|^serde_json::ser::to_writer$')
    from .common import log_writer_calls
    _, writes, on_ok = log_writer_calls(P)
    flush = app.calls(r'std::io::Write>::flush$')
    one = len(on_ok) == 1 and not app.in_loop(on_ok[0].bb) and on_ok[0].name == 'write_all'
    ctx.ob('C02.2', app, 'whole-frame-single-write', one,
           '%d call(s) hand bytes to the log writer on the success path of one append (%s)%s' % (len(on_ok), ', '.join(w.name for w in on_ok), '' if one else
           ': only whole newline-terminated frames may be added, so body and newline must reach the file as ONE write_all; a streaming serialiser / several writes / a partial `write` flush the BufWriter mid-frame'),
           line=on_ok[0].line if on_ok else app.line)
    writes = [w for w in writes if w.bb not in {x.bb for x in ser}]
    if not ser or not writes:
        raise CheckError('C02.2: EventLog::append has no serialisation / write call (anchor missing)')
    for w in writes:
        ctx.ob('C02.2', app, 'serialise-before-write', any(app.dom(s.bb, w.bb) for s in ser), 'serialisation dominates the write', line=w.line)
        okrets = app.returns()
        ok = bool(flush) and app.must_pass([f.bb for f in flush] + _err_blocks(app), w.bb, okrets)
        ctx.ob('C02.2', app, 'flush-after-write', ok, 'every path from the write to a return passes flush (or is an error exit)', line=w.line)

    # ---------------------------------------------------------------- C02.3
    lits = []
    for p, f in sorted(P.fns.items()):
        for bi in f.reachable():
            bl = f.blocks[bi]
            ops = [o for st in bl['s'] if 'rv' in st for o in st['rv'].get('a', [])]
            if bl['t']['k'] == 'call':
                ops += bl['t']['a']
            for o in ops:
                k = op_const(o)
                if k and k.get('str') == 'events.jsonl':
                    lits.append((f, bi))
    ctx.floor('C02.3', '"events.jsonl" literal sites', len(lits), 1)
    for f, bi in lits:
        news = f.calls(r'^rip_log::EventLog::new$')
        ok = False
        for s in news:
            src = sources(f, s.args[0])
            if ('const', 'events.jsonl', None) in src:
                ok = True
        ctx.ob('C02.3', f, 'truth-file-literal', ok, '"events.jsonl" %s' % ('flows into EventLog::new' if ok else 'is named by code that does not hand it to EventLog::new'),
               line=f.blocks[bi]['t'].get('ln', f.line))
    adt = P.adts.get('rip_log::EventLog')
    if adt is None:
        raise CheckError('C02.3: ADT rip_log::EventLog missing')
    for fld in adt['variants'][0]['fields']:
        ctx.ob('C02.3', 'rip_log::EventLog', 'private-field:' + fld['name'], fld['vis'].startswith('Restricted'),
               'field %s is %s' % (fld['name'], fld['vis'].split('(')[0]), line=adt['line'])
    for sg in P.sigs.values():
        if sg['path'].startswith('rip_log::') and sg['vis'] == 'Public':
            leak = re.search(r'std::fs::File|BufWriter', sg['output'])
            if leak:
                ctx.ob('C02.3', sg['path'], 'no-handle-leak', False, 'public rip_log function returns a type mentioning the file handle: ' + sg['output'])
    ncache = 0
    for f in P.find_fns('^(' + '|'.join(re.escape(m) for m in CACHE_MODULES) + ')'):
        ncache += 1
        ctx.touch(f)
        bad = f.calls(r'^rip_log::(EventLog::(append|new)|write_snapshot)')
        mentions = [i for i, l in enumerate(f.locals) if 'rip_log::EventLog' in l['ty']]
        ctx.ob('C02.3', f, 'cache-cannot-name-truth', not bad and not mentions,
               'cache code %s' % ('does not touch rip_log writers / EventLog' if not bad and not mentions else 'reaches the truth log: %s' % (bad[0].callee if bad else f.lty(mentions[0]))))
    ctx.floor('C02.3', 'cache module functions', ncache, 100)

    # ---------------------------------------------------------------- C02.4
    roots = []
    for name, why in READ_ONLY_STORE.items():
        P.fn(STORE + name)
        roots.append((STORE + name, why))
    for name, why in READ_ONLY_HANDLERS.items():
        P.fn('ripd::server::' + name)
        roots.append(('ripd::server::' + name, why))
    for r, why in roots:
        found, par = E.find([r], 'TruthAppend')
        ctx.touch(P.fns[r])
        for p in par:
            if p in P.fns:
                ctx.touch(P.fns[p])
        if found:
            chain, site = found[0]
            ctx.ob('C02.4', P.fns[r], 'read-only-reaches-append', False,
                   'read-only capability (%s) can reach EventLog::append: %s' % (why, ' -> '.join(c.replace('ripd::', '') for c in chain)), line=site.line)
        else:
            ctx.ob('C02.4', P.fns[r], 'read-only-reaches-append', True, 'read-only capability (%s): %d functions reachable, none appends to truth' % (why, len(par)))

    # ---------------------------------------------------------------- C02.5
    for name, conds in (('compaction_auto_spawn_job_v1', ('dry_run', 'planned')),
                        ('compaction_auto_schedule_spawn_job_v1', ('dry_run', 'planned'))):
        f = P.fn(STORE + name)
        guards = {'dry_run': [], 'planned': []}
        for (bi, on, ts, els) in switches(f):
            # the dry_run test: a branch on a value read from the request's `dry_run` field (by provenance, not by local name)
            from ..prov import fields_read
            if any('dry_run' in fields_read(f, on, owner) for owner in (STORE[:-len('ContinuityStore::')] + 'CompactionAutoScheduleV1Request', STORE[:-len('ContinuityStore::')] + 'CompactionAutoV1Request')):
                guards['dry_run'].append((bi, ts.get('0')))
            o = f.origin(on)
            if o[0] == 'call' and re.search(r'alloc::vec::Vec::<T, A>::is_empty$', o[1].callee):
                rl = f.root_local(o[1].args[0])
                # the plan: the Vec of planned cut points (by element type)
                if rl is not None and 'CompactionPlannedCutPointV1' in f.lty(rl):
                    guards['planned'].append((bi, ts.get('0')))
        for g in conds:
            if not guards[g]:
                raise CheckError('C02.5: %s has no branch on `%s` (anchor missing)' % (name, g))
        appenders = E.sites_with(f, 'TruthAppend')
        ctx.floor('C02.5', 'appending calls in ' + name, len(appenders), 1)
        for s in appenders:
            for g in conds:
                edges = [(bi, t) for (bi, t) in guards[g] if t is not None]
                ok = s.bb not in f.reach(0, skip_edges=edges)
                ctx.ob('C02.5', f, 'append-guarded-by-not-%s:%s' % (g, s.name), ok,
                       '%s is %s' % (s.name, 'reachable only through the false edge of the `%s` test' % g if ok else 'reachable WITHOUT passing the false edge of the `%s` test' % g), line=s.line)
    c026(ctx)
    rot = P.fn(STORE + 'provider_cursor_rotate_v1')
    apps = E.sites_with(rot, 'TruthAppend')
    ctx.floor('C02.5', 'appending calls in provider_cursor_rotate_v1', len(apps), 1)
    for s in apps:
        # validation errors (empty actor / origin) must dominate-return before it: every `return Err` built locally precedes
        ctx.ob('C02.5', rot, 'append-not-in-loop', not rot.in_loop(s.bb), 'the cursor append is outside every loop (one frame per call)', line=s.line)


def c026(ctx):
    """thread ids are used verbatim as file names under continuity_streams/ (`<id>.jsonl`), and
    `../events` names the truth file. The only creating / truncating cache entry point reachable
    with an id that truth does not know is rebuild_best_effort; it must stay behind the
    non-empty test of the truth replay."""
    P = ctx.prog
    ctx.rule('C02.6', 'a cache file named by a caller-supplied thread id is (re)created only when truth has frames for that id: every call of ContinuityStreamCache::rebuild_best_effort from the store is reachable only through the non-empty edge of `events.is_empty()` on the very events it passes (thread ids are not sanitised, so `../events` would otherwise let a read-only call truncate events.jsonl).')
    sites = [s for s in P.callers(r'ContinuityStreamCache::rebuild_best_effort$') if s.fn.path.startswith(STORE)]
    ctx.floor('C02.6', 'rebuild_best_effort calls from the store', len(sites), 1)
    for s in sites:
        f = s.fn
        ev = f.root_local(s.args[2], through_calls=(r'::deref$', r'::as_slice$', r'::as_ref$'))
        ok = False
        for e in f.calls(r'alloc::vec::Vec::<T, A>::is_empty$|::is_empty$'):
            if f.root_local(e.args[0], through_calls=(r'::deref$',)) != ev:
                continue
            sw = f.switch_on_call(e)
            if sw is None:
                continue
            bb, ts, els, neg = sw
            nonempty = els if neg else ts.get('0')
            if nonempty is not None and f.edge_dom(bb, nonempty, s.bb):
                ok = True
        ctx.ob('C02.6', f, 'rebuild-only-for-known-thread', ok, 'rebuild_best_effort(id, events) is %s' % ('reachable only when events is non-empty' if ok else
               'reachable with an EMPTY event list: File::create(<dir>/<id>.jsonl) runs for ids truth does not know, and the id `../events` names the truth log'), line=s.line)


def _err_blocks(fn):
    """blocks that construct the error return (from_residual calls)."""
    return [s.bb for s in fn.calls(r'FromResidual<.*>>::from_residual$')]


def c028(ctx):
    """who may touch the log's writer handle"""
    from ..core import op_place as _opl
    P = ctx.prog
    ctx.rule('C02.8', 'reading the log writes nothing: inside rip_log the writer handle of the EventLog (its `writer` field) is touched by `append` and the constructor only — '
             'no replay / read function locks, flushes or writes it, and there is no second appending entry point beside the audited one (C01.2). A replay that "flushes first" turns every '
             'read-only capability that falls back to the truth log into a writer of events.jsonl.')
    touching = []
    nfn = 0
    for p_, f in sorted(P.fns.items()):
        if f.crate != 'rip_log':
            continue
        nfn += 1
        hit = False
        for bi in f.reachable():
            for st in f.blocks[bi]['s']:
                rv = st.get('rv') or {}
                for pl in ([rv.get('pl')] if rv.get('pl') else []) + [_opl(a) for a in rv.get('a', [])] + [st.get('d')]:
                    for pp in (pl or {}).get('p', []):
                        if isinstance(pp, dict) and pp.get('n') == 'writer' and pp.get('o', '').endswith('EventLog'):
                            hit = True
        if hit:
            touching.append(f)
    ctx.floor('C02.8', 'functions of rip_log scanned', nfn, 8)
    ctx.floor('C02.8', 'functions of rip_log that touch the writer handle', len(touching), 1)
    allowed = lambda f: bool(re.search(r'^rip_log::EventLog::(append|new)$', f.path)) or any(
        re.search(r'^rip_log::EventLog::(append|new)$', c.fn.path) for c in P.callers('^' + re.escape(f.path) + '$')) and not any(
        not re.search(r'^rip_log::EventLog::(append|new)', c.fn.path) for c in P.callers('^' + re.escape(f.path) + '$'))
    for f in touching:
        ok = allowed(f)
        ctx.ob('C02.8', f, 'writer-handle-owner', ok, '%s touches EventLog.writer%s' % (f.path, '' if ok else
               ': only append (and helpers only it calls) may — a read path that flushes or a second append entry point writes the truth log outside the audited writer'), line=f.line)
