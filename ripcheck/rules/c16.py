"""C16 — tool loop: bound, barred tools, validation gate, one answer per call."""
import re

from ..core import CheckError, Site, op_const, op_place, switches
from ..prov import fields_read, reads_locals, sources

LOOP = 'ripd::session::run_openresponses_agent_loop'
STREAM = 'ripd::session::stream_openresponses_request'
RUN = r'^rip_tools::runtime::ToolRunner::run$'
MAXC = 'DEFAULT_MAX_TOOL_CALLS'


def loop_body(P):
    """the agent loop with the per-call helpers of the session module spliced in (`run_function_call(env, seq, &call)`):
    whatever runs a tool / consults tool_choice / records side effects is read as part of the loop."""
    if not hasattr(P, '_agent_loop'):
        from ..inline import inline_calls, contains
        w = contains(rx_calls=RUN + r'|ToolChoiceEnforcement::allows_function$|append_tool_side_effects$')
        P._agent_loop = inline_calls(P, P.body(LOOP), lambda body, callee: callee.startswith('ripd::session::') and not re.search(r'::(run_openresponses_agent_loop|stream_openresponses_request|summarize_continuity_tool_side_effects|tool_events_to_function_call_output|rejected_tool_invocation_events)$', callee) and w(body, callee), depth=2)
    return P._agent_loop


def counted_every_iteration(P):
    """every iteration of the per-call loop of the agent loop that comes back to the loop head passed the
    increment of the bounded call counter: a call that is answered without being counted (refused by
    tool_choice, invalid arguments, ...) lets a provider that keeps sending such calls drive the run for ever."""
    f = loop_body(P)
    runs = f.calls(RUN)
    cands = set()
    for (bi, on, ts, els) in switches(f):
        o = f.origin(on)
        if o[0] == 'rv' and o[1]['k'] == 'bin' and o[1]['op'] in ('Ge', 'Gt', 'Lt', 'Le'):
            a, b = o[1]['a']
            kb = op_const(b)
            if kb is not None and str(kb.get('def', '')).endswith(MAXC) and f.root_local(a) is not None:
                cands.add(f.root_local(a))
    if len(cands) != 1 or not runs:
        return False, 'the bounded call counter of the agent loop was not identified', f.line
    cnt = next(iter(cands))
    incs = []
    for bi in f.reachable():
        for st in f.blocks[bi]['s']:
            rv = st.get('rv')
            if rv and rv['k'] == 'bin' and rv['op'].startswith('Add') and f.root_local(rv['a'][0]) == cnt:
                incs.append(bi)
    h = f.innermost_loop(runs[0].bb)
    if h is None or not incs:
        return False, 'no per-call loop / no increment of `%s`' % f.lname(cnt), f.line
    body = f.loops()[h]
    succ_in = [s_ for s_ in f.succs(h) if s_ in body]
    r = f.reach(succ_in, stop=incs)
    back = any(h in f.succs(b) for b in r if b in body and b not in incs)
    return (not back, 'every iteration of the per-call loop %s the increment of `%s`' % ('passes' if not back else 'can come back to the loop head WITHOUT', f.lname(cnt))
            + ('' if not back else ': calls that are answered but not counted never reach the bound, the run need not end'), f.blocks[incs[0]]['s'][0].get('ln', f.line) if f.blocks[incs[0]]['s'] else f.line)


def run(ctx):
    P = ctx.prog
    ctx.not_decided = 'provider scripts with duplicate call ids, calls arriving after a [DONE]-less termination (collector semantics are value level); ordering by output_index.'
    ctx.rule('C16.1', 'bound: every ToolRunner::run in the agent loop is reachable only through the false edge of `tool_call_count >= DEFAULT_MAX_TOOL_CALLS`, the counter is incremented exactly once per executed call (dominating the run, inside the per-call loop), and every request builder passes the same constant to max_tool_calls.')
    ctx.rule('C16.2', 'barred tool: every run site is reachable only through the true edge of tool_choice_enforcement.allows_function(&invocation.name) on the invocation that runs.')
    ctx.rule('C16.3', 'validation gate: RequestBuilder::send is reachable only when payload.errors().is_empty(); the JSON body is payload.body() of that payload; CreateResponsePayload has private fields, one constructor that validates, and no method handing out &mut.')
    ctx.rule('C16.4', 'one answer per call: every iteration of `for call in tool_calls` that comes back to the loop head passed exactly one tool_outputs.push whose call id is call.call_id; the collector is constructed per request.')
    ctx.rule('C16.5', 'history only grows: after initialisation history_items is only pushed / extended / cloned; and between the history and the request body (request builders, payload builder, the loop itself) no filter / dedup / truncation is applied to a sequence of request items.')

    f = loop_body(P)
    ctx.touch(f)
    runs = f.calls(RUN)
    ctx.floor('C16.1', 'run sites in the agent loop', len(runs), 2)
    # the counter is found by what it does, not by its name: the integer local that is compared with the bound constant
    cands = set()
    for (bi, on, ts, els) in switches(f):
        o = f.origin(on)
        if o[0] == 'rv' and o[1]['k'] == 'bin' and o[1]['op'] in ('Ge', 'Gt', 'Lt', 'Le'):
            a, b = o[1]['a']
            kb = op_const(b)
            if kb is not None and str(kb.get('def', '')).endswith(MAXC) and f.root_local(a) is not None:
                cands.add(f.root_local(a))
    if len(cands) != 1:
        raise CheckError('C16.1: expected one counter compared with %s in the agent loop, found %d' % (MAXC, len(cands)))
    cnt = next(iter(cands))
    bound_switches = []
    for (bi, on, ts, els) in switches(f):
        o = f.origin(on)
        if o[0] == 'rv' and o[1]['k'] == 'bin' and o[1]['op'] in ('Ge', 'Gt', 'Lt', 'Le'):
            a, b = o[1]['a']
            kb = op_const(b)
            if f.root_local(a) == cnt and kb is not None and str(kb.get('def', '')).endswith(MAXC):
                # Ge / Gt: true edge = bound hit; Lt / Le: false edge = bound hit
                below = ts.get('0') if o[1]['op'] in ('Ge', 'Gt') else els
                bound_switches.append((bi, below, o[1]['op']))
    ctx.floor('C16.1', 'comparisons of tool_call_count with the bound', len(bound_switches), 1)
    incs = []
    for bi in f.reachable():
        for st in f.blocks[bi]['s']:
            rv = st.get('rv')
            if rv and rv['k'] == 'bin' and rv['op'].startswith('Add') and f.root_local(rv['a'][0]) == cnt:
                k = op_const(rv['a'][1])
                incs.append((bi, st.get('ln'), k.get('v') if k else None))
    for r in runs:
        inner = f.innermost_loop(r.bb)
        ok = any(below is not None and f.edge_dom(bi, below, r.bb) and f.innermost_loop(bi) == inner for (bi, below, op) in bound_switches)
        ctx.ob('C16.1', f, 'bounded-run', ok, 'tool run is %s' % ('reachable only below the bound, tested in the same per-call loop' if ok else 'reachable WITHOUT the per-call bound test'), line=r.line)
        ok2 = len([i for i in incs if f.dom(i[0], r.bb) and f.innermost_loop(i[0]) == inner and i[2] == '1']) == 1
        ctx.ob('C16.1', f, 'counted-run', ok2, 'exactly one `tool_call_count += 1` dominates the run inside the per-call loop', line=r.line)
    okit, whyit, lnit = counted_every_iteration(P)
    ctx.ob('C16.1', f, 'counted-every-iteration', okit, whyit, line=lnit)
    ctx.ob('C16.1', f, 'single-increment', len(incs) == 1, 'tool_call_count is incremented at %d site(s)' % len(incs), line=incs[0][1] if incs else f.line)
    mt = P.callers(r'::max_tool_calls$')
    mt = [s for s in mt if s.fn.crate == 'ripd']
    ctx.floor('C16.1', 'max_tool_calls(..) builder calls', len(mt), 3)
    for s in mt:
        k = s.fn.origin(s.args[1])
        ok = k[0] == 'const' and str(k[1].get('def', '')).endswith(MAXC)
        ctx.ob('C16.1', s.fn, 'builder-bound', ok, 'max_tool_calls(%s)' % (k[1].get('def') or k[1].get('v') if k[0] == 'const' else 'non-constant'), line=s.line)

    # ---------------------------------------------------------------- C16.2
    allows = f.calls(r'ToolChoiceEnforcement::allows_function$')
    if not allows:
        raise CheckError('C16.2: allows_function is not called in the agent loop')
    for r in runs:
        inv = f.root_local(r.args[3])
        ok = False
        same = False
        for a in allows:
            sw = f.switch_on_call(a)
            if sw is None:
                continue
            bb, ts, els, neg = sw
            true_tgt = ts.get('0') if neg else els
            if true_tgt is not None and f.edge_dom(bb, true_tgt, r.bb):
                ok = True
                o = f.origin(a.args[1], through_calls=(r'::deref$', r'::as_str$'))
                same = o[0] == 'local' and o[1] == inv
        ctx.ob('C16.2', f, 'allowed-before-run', ok and same, 'tool run is %s' % ('reachable only when allows_function(&invocation.name) is true for the invocation that runs' if ok and same else
                                                                            'reachable although tool_choice may bar the tool' if not ok else 'guarded by a test on a different value'), line=r.line)

    # restrictive choices fail closed
    # ---------------------------------------------------------------- C16.9
    ctx.rule('C16.9', 'the bar is the configured one, for the whole run: the ToolChoiceEnforcement that allows_function is asked on has exactly one definition in the agent loop, it is '
             'computed from the tool_choice of the configuration (OpenResponsesConfig.tool_choice), and that definition is not inside the request loop. An enforcement refreshed from what '
             'a request happened to send (follow-up requests may relax a forcing choice so that the model can finish) executes tools the configuration bars.')
    from ..prov import fields_read
    n9 = 0
    for a in allows:
        recv = f.root_local(a.args[0], through_calls=(r'::deref$', r'::as_ref$'))
        # a bundle of shared references handed to a per-call helper (`env.tool_choice`): follow the field to what was put into it
        cur9 = a.args[0]
        for _ in range(4):
            o9 = f.origin(cur9, through_calls=(r'::deref$', r'::as_ref$'))
            if o9[0] != 'local':
                break
            names9 = [pp.get('n') for pp in o9[2] if isinstance(pp, dict) and 'n' in pp]
            ds9 = [d for d in f.defs(o9[1]) if d[2] == 'rv']
            if names9 and len(ds9) == 1 and ds9[0][3]['k'] == 'agg' and names9[0] in (ds9[0][3].get('fields') or []):
                cur9 = ds9[0][3]['a'][ds9[0][3]['fields'].index(names9[0])]
                recv = f.root_local(cur9, through_calls=(r'::deref$', r'::as_ref$'))
                continue
            break
        if recv is None:
            continue
        n9 += 1
        ds = [d for d in f.defs(recv) if d[2] in ('call', 'rv')]
        okd, whyd = True, 'one definition, from the configured tool_choice, before the request loop'
        if len(ds) != 1:
            okd, whyd = False, 'the enforcement local has %d definitions: it is re-derived while the run goes on' % len(ds)
        else:
            bi, si, kind, payload, _ln = ds[0]
            if kind != 'call' or not re.search(r'ToolChoiceEnforcement::from_(tool_choice|value)$', Site(f, bi, payload).callee):
                okd, whyd = False, 'the enforcement is not built by ToolChoiceEnforcement::from_tool_choice / from_value'
            else:
                site = Site(f, bi, payload)
                flds = set()
                for ar in site.args:
                    flds |= fields_read(f, ar, 'ripd::provider_openresponses::OpenResponsesConfig')
                if 'tool_choice' not in flds:
                    okd, whyd = False, 'the enforcement is built from something other than the configuration\'s tool_choice'
                elif f.in_loop(bi):
                    okd, whyd = False, 'the enforcement is rebuilt inside the request loop'
        ctx.ob('C16.9', f, 'bar-from-config-once', okd, 'tool_choice enforcement: %s' % whyd, line=a.line)
    ctx.floor('C16.9', 'allows_function checks with a resolvable receiver', n9, 1)

    ctx.rule('C16.6', 'a restrictive tool_choice fails closed: in ToolChoiceEnforcement::from_value, once the choice object has type "function" or "allowed_tools" (true edge of the string comparison), no path constructs AllFunctions — malformed or unknown entries narrow the allow-list, they never widen it.')
    fv = P.fn('ripd::session::ToolChoiceEnforcement::from_value')
    ctx.touch(fv)
    allf = [bi for (bi, si, st) in fv.aggregates(r'ToolChoiceEnforcement$', 'AllFunctions')]
    nrestr = 0
    from .common import str_consts_compared
    fam_fv = [fv] + P.closures_of(fv.path)
    for (cst, site) in str_consts_compared(fv):
        if cst not in ('function', 'allowed_tools'):
            continue
        sw = fv.switch_on_call(site)
        if sw is None:
            continue
        bb, ts, els, neg = sw
        true_t = ts.get('0') if (neg ^ (site.name == 'ne')) else els
        if true_t is None:
            continue
        # only the comparison of the choice's own `type` (outermost match), not the per-tool filter inside the loop
        if fv.in_loop(site.bb):
            continue
        nrestr += 1
        r = fv.reach(true_t)
        wid = [b for b in allf if b in r]
        # closures called from the arm (collect / map fallbacks) that build AllFunctions
        for g in fam_fv[1:]:
            if g.aggregates(r'ToolChoiceEnforcement$', 'AllFunctions') and any(c.bb in r for c in fv.sites() if any(fv.origin(a)[0] == 'rv' and fv.origin(a)[1].get('def') == g.path for a in c.args)):
                wid.append(-1)
        ctx.ob('C16.6', fv, 'restrictive-fails-closed:' + cst, not wid, 'tool_choice type "%s": %s' % (cst, 'no path widens to AllFunctions' if not wid else 'a path (malformed / unknown entry) falls back to AllFunctions: excluded tools get executed'), line=site.line)
    ctx.floor('C16.6', 'restrictive choice arms', nrestr, 2)

    # ---------------------------------------------------------------- C16.3
    g = P.body(STREAM)
    ctx.touch(g)
    sends = g.calls(r'reqwest::async_impl::request::RequestBuilder::send$')
    ctx.floor('C16.3', 'send sites', len(sends), 1)
    empt = []
    for s in g.calls(r'::is_empty$'):
        src = sources(g, s.args[0])
        if any(x[0] == 'call' and x[1].endswith('CreateResponsePayload::errors') for x in src):
            empt.append(s)
    if not empt:
        ctx.ob('C16.3', g, 'errors-tested', False, 'payload.errors().is_empty() is never tested', line=g.line)
    for sd in sends:
        ok = False
        for e in empt:
            sw = g.switch_on_call(e)
            if sw is None:
                continue
            bb, ts, els, neg = sw
            true_tgt = ts.get('0') if neg else els
            if true_tgt is not None and g.edge_dom(bb, true_tgt, sd.bb):
                ok = True
        ctx.ob('C16.3', g, 'send-only-when-valid', ok, 'send is %s' % ('reachable only when payload.errors() is empty' if ok else 'reachable with validation errors present'), line=sd.line)
    for j in g.calls(r'RequestBuilder::json$'):
        src = sources(g, j.args[1])
        ok = any(x[0] == 'call' and x[1].endswith('CreateResponsePayload::body') for x in src)
        ctx.ob('C16.3', g, 'body-is-validated-payload', ok, 'the request body is payload.body()', line=j.line)
    adt = next((a for p, a in P.adts.items() if p.endswith('::CreateResponsePayload')), None)
    if adt is None:
        raise CheckError('C16.3: ADT CreateResponsePayload missing')
    for fl in adt['variants'][0]['fields']:
        ctx.ob('C16.3', adt['path'], 'private-field:' + fl['name'], not fl['vis'].startswith('Public'), 'field %s is %s' % (fl['name'], fl['vis'].split('(')[0]), line=adt['line'])
    ctors = []
    for p, h in P.fns.items():
        for (bi, si, st) in h.aggregates('^' + re.escape(adt['path']) + '$'):
            ctors.append((h, st.get('ln')))
    for h, ln in ctors:
        val = h.calls(r'validate_create_response_body$|::validate')
        ctx.ob('C16.3', h, 'constructor-validates', bool(val) and h.path.endswith('CreateResponsePayload::new'), 'CreateResponsePayload is constructed in %s which %s' % (h.path.rsplit('::', 2)[-1], 'validates' if val else 'does NOT validate'), line=ln)
    ctx.floor('C16.3', 'CreateResponsePayload constructions', len(ctors), 1)
    for sp, sg in P.sigs.items():
        if 'CreateResponsePayload::' in sp and re.search(r'&mut ', sg['output']):
            ctx.ob('C16.3', sp, 'no-mut-access', False, 'method returns %s' % sg['output'])

    # ---------------------------------------------------------------- C16.4
    pushes = []
    for s in f.calls(r'alloc::vec::Vec::push$'):
        r = f.root_local(s.args[0], through_calls=(r'::deref_mut$',))
        if r is not None and (f.lname(r) == 'tool_outputs' or (not any(f.lname(i) == 'tool_outputs' for i in range(len(f.locals))) and re.search(r'Vec<.*ItemParam>$', f.lty(r)) and f.locals[r].get('n') and f.defs(r) and all(f.in_loop(d_[0]) for d_ in f.defs(r)) and f.in_loop(s.bb))):
            pushes.append(s)
    ctx.ob('C16.4', f, 'single-answer-site', len(pushes) == 1, 'the per-round answers vector is pushed at %d site(s)' % len(pushes), line=pushes[0].line if pushes else f.line)
    if pushes:
        pu = pushes[0]
        h = f.innermost_loop(pu.bb)
        ok = False
        if h is not None:
            body = f.loops()[h]
            succ_in = [s for s in f.succs(h) if s in body]
            r = f.reach(succ_in, stop=[pu.bb])
            back = any(h in f.succs(b) for b in r if b in body and b != pu.bb)
            ok = not back and all(h2 == h or pu.bb not in f.loops()[h2] or h in f.loops()[h2] for h2 in f.loops())
            # not inside a deeper loop than the per-call loop
            ok = ok and all(f.innermost_loop(rn.bb) == h for rn in runs)
        ctx.ob('C16.4', f, 'answer-every-iteration', ok, 'every per-call iteration that continues passes tool_outputs.push exactly once (same loop as the tool run)', line=pu.line)
        o = f.origin(pu.args[1])
        cid = False
        if o[0] == 'call':
            flds = set()
            for a in o[1].args:
                src = f.origin(a, through_calls=(r'::deref$', r'::as_str$'))
                if src[0] == 'local':
                    flds |= {pp.get('n') for pp in src[2] if isinstance(pp, dict) and 'f' in pp}
            cid = 'call_id' in flds
        ctx.ob('C16.4', f, 'answer-carries-call-id', cid, 'the pushed output item is built from call.call_id', line=pu.line)
    coll = f.aggregates(r'ToolCallCollector$') + [(s.bb, 0, {'ln': s.line}) for s in f.calls(r'ToolCallCollector as core::default::Default>::default$')]
    outer = [h for h, body in f.loops().items() if all(r.bb in body for r in runs)]
    okc = bool(coll) and all(any(c[0] in f.loops()[h] for h in outer) for c in coll)
    ctx.ob('C16.4', f, 'collector-per-request', okc, 'a fresh ToolCallCollector is built inside the request loop', line=coll[0][2].get('ln') if coll else f.line)
    dr = P.fn('ripd::session::ToolCallCollector::drain_function_calls', required=False)
    if dr is not None:
        ctx.touch(dr)
        ctx.ob('C16.4', dr, 'calls-drained', bool(dr.calls(r'core::mem::take$|::drain$|::take$')), 'completed calls are moved out of the collector (mem::take / drain): a call cannot be handed out twice', line=dr.line)

    # ---------------------------------------------------------------- C16.5
    # the history: the request-item vector declared before the request loop (by name when it keeps it,
    # otherwise the only named Vec<ItemParam> that is defined outside every loop)
    hist = [i for i, l in enumerate(f.locals) if l.get('n') == 'history_items']
    if len(hist) != 1:
        hist = [i for i, l in enumerate(f.locals) if l.get('n') and re.search(r'^alloc::vec::Vec<.*ItemParam>$', l['ty'])
                and f.defs(i) and not any(f.in_loop(d_[0]) for d_ in f.defs(i))]
    if len(hist) != 1:
        raise CheckError('C16.5: the history vector (Vec<ItemParam> declared before the request loop) was not identified (%d candidates)' % len(hist))
    hist = hist[0]
    bad = []
    for s in f.sites():
        if not s.args:
            continue
        r = f.root_local(s.args[0], through_calls=(r'::deref_mut$', r'::deref$'))
        if r == hist and re.search(r'alloc::vec::Vec::<T, A>::', s.callee) and s.name not in ('push', 'len', 'is_empty', 'iter', 'as_slice', 'last', 'first'):
            bad.append(s)
        if r == hist and re.search(r'Extend<T>>::extend$|::clone$', s.callee):
            pass
    ndefs = len(f.defs(hist))
    ctx.ob('C16.5', f, 'history-append-only', not bad and ndefs <= 3, 'history vector `%s`: %d definition(s) (initialisation arms), shrinking calls: %s' % (f.lname(hist), ndefs, [b.name for b in bad]), line=bad[0].line if bad else f.line)
    # ... and what is sent is what was accumulated: between the history and the request body (the request builders of
    # ripd::provider_openresponses, the payload builder of the provider crate, the agent loop itself) nothing filters,
    # de-duplicates or shortens a sequence of request items
    SHRINK = r'alloc::vec::Vec::<T, A>::(retain|retain_mut|dedup|dedup_by|dedup_by_key|remove|swap_remove|truncate|clear|pop|drain|split_off)$|Iterator::(filter|filter_map|skip|take|step_by|skip_while|take_while|map_while)$|itertools.*::(unique|unique_by|dedup|dedup_by)$'
    nsc = 0
    drops = []
    for p_, g in sorted(P.fns.items()):
        if not (p_.startswith('ripd::provider_openresponses::') or p_.startswith('rip_provider_openresponses::request::') or p_.startswith('ripd::session::run_openresponses_agent_loop')):
            continue
        if not any('ItemParam' in (l_.get('ty') or '') for l_ in g.locals):
            continue
        nsc += 1
        ctx.touch(g)
        for s_ in g.sites():
            if re.search(SHRINK, s_.callee or '') and (any('ItemParam' in x for x in s_.ga) or any('ItemParam' in (g.lty(r_) or '') for r_ in [g.root_local(a_, through_calls=(r'::deref_mut$', r'::deref$')) for a_ in s_.args[:1]] if r_ is not None)):
                drops.append((g, s_))
    ctx.floor('C16.5', 'functions handling request items between history and body', nsc, 4)
    ctx.ob('C16.5', drops[0][0] if drops else f, 'request-items-never-dropped', not drops,
           'no filter / dedup / truncation is applied to request items in %d function(s) between the history and the request body' % nsc if not drops else
           '%s is applied to request items (line %s): an item of the history (an earlier call, its answer) can be DROPPED from the follow-up request — the provider no longer sees every call answered exactly once' % (drops[0][1].name, drops[0][1].line),
           line=drops[0][1].line if drops else f.line)
    # ---------------------------------------------------------------- C16.8
    ctx.rule('C16.8', 'the calls of a response are run and answered once each, in the provider\'s order: between the collector and the per-call loop the sequence of FunctionCallItem is only ordered by output_index (the one sort in drain_function_calls) — nothing filters, de-duplicates, partitions, reverses, truncates or re-sorts it. A dropped call is never answered; a reordered one is answered out of the order the provider emitted (and, under a barred tool, ahead of calls that precede it).')
    REORDER = (r'alloc::vec::Vec::<T, A>::(retain|retain_mut|dedup|dedup_by|dedup_by_key|remove|swap_remove|truncate|pop|split_off|insert)$'
               r'|Iterator::(filter|filter_map|skip|take|step_by|skip_while|take_while|map_while|partition|rev|partition_in_place)$'
               r'|alloc::slice::<impl \[T\]>::(sort\w*|reverse|swap|rotate_\w+|select_nth\w*)$|itertools.*::(unique\w*|dedup\w*|sorted\w*)$')
    n8 = 0
    bad8 = []
    for p_, g in sorted(P.fns.items()):
        if not (p_.startswith('ripd::session::run_openresponses_agent_loop') or p_.startswith('ripd::session::ToolCallCollector::')):
            continue
        if not any('FunctionCallItem' in (l_.get('ty') or '') for l_ in g.locals):
            continue
        n8 += 1
        ctx.touch(g)
        for s_ in g.sites():
            if not re.search(REORDER, s_.callee or ''):
                continue
            if not (any('FunctionCallItem' in x for x in s_.ga) or any('FunctionCallItem' in (g.lty(r_) or '') for r_ in [g.root_local(a_, through_calls=(r'::deref_mut$', r'::deref$')) for a_ in s_.args[:1]] if r_ is not None)):
                continue
            if s_.name in ('sort_by_key', 'sort_by_cached_key', 'sort_unstable_by_key') and p_.endswith('::drain_function_calls'):
                # the one sanctioned ordering: by the provider's output_index
                o_ = g.origin(s_.args[1]) if len(s_.args) > 1 else ('?',)
                cl_ = P.fns.get(o_[1].get('def')) if o_[0] == 'rv' and o_[1].get('ak') == 'closure' else None
                if cl_ is None and o_[0] == 'const':
                    # a named key function (`sort_by_key(provider_output_order)`)
                    cl_ = P.fns.get(str(o_[1].get('def') or o_[1].get('fn') or ''))
                if cl_ is not None and any(isinstance(pp, dict) and pp.get('n') == 'output_index' for b_ in cl_.blocks for st_ in b_['s'] for pl_ in [st_.get('rv', {}).get('pl'), op_place(st_.get('rv', {}).get('a', [{}])[0]) if st_.get('rv', {}).get('a') else None] if pl_ for pp in pl_.get('p', [])):
                    continue
            bad8.append((g, s_))
    ctx.floor('C16.8', 'functions handling the collected calls', n8, 2)
    ctx.ob('C16.8', bad8[0][0] if bad8 else f, 'calls-in-provider-order', not bad8,
           'the collected calls are ordered by output_index once and then only iterated (%d function(s) scanned)' % n8 if not bad8 else
           '%s is applied to the collected calls (line %s): a call is dropped, or the calls are run / answered in another order than the provider emitted them' % (bad8[0][1].name, bad8[0][1].line),
           line=bad8[0][1].line if bad8 else f.line)
    c167(ctx)


def c167(ctx):
    P = ctx.prog
    ctx.rule('C16.7', 'the call id the harness answers under is the provider\'s, verbatim: in ToolCallCollector::observe the call_id and name of every collected FunctionCallItem derive from values read out of the event only — no formatted / concatenated / rewritten string (format!, push_str, replace, join, to_*case, trim_*) is among the values they are built from. An id the provider never emitted (`call_x_2`) cannot be matched to its call.')
    ob = P.fn('ripd::session::ToolCallCollector::observe')
    ctx.touch(ob)
    BUILD = r'^alloc::fmt::format(::format_inner)?$|String::push_str$|::replace$|::replacen$|::join$|::concat$|::to_(lower|upper)case$|::to_ascii_(lower|upper)case$|::repeat$|alloc::string::String as core::ops::arith::Add'
    built = {s_.dest['l']: s_ for s_ in ob.sites() if re.search(BUILD, s_.callee)}
    # push_str mutates its receiver
    for s_ in ob.calls(r'String::push_str$|String::push$|String::insert_str$'):
        r = ob.root_local(s_.args[0], through_calls=(r'::deref_mut$',))
        if r is not None:
            built.setdefault(r, s_)
    n = 0
    for (bi, si, st) in ob.aggregates(r'FunctionCallItem$'):
        rv = st['rv']
        for fld in ('call_id', 'name'):
            if fld not in rv['fields']:
                continue
            n += 1
            rl = reads_locals(ob, rv['a'][rv['fields'].index(fld)])
            hit = sorted(rl & set(built))
            ctx.ob('C16.7', ob, 'verbatim:' + fld, not hit, 'FunctionCallItem.%s %s' % (fld, 'is built from values read out of the event only' if not hit else
                   'is built through %s (line %d): the harness answers under an id / name the provider never sent' % (built[hit[0]].name, built[hit[0]].line)), line=st.get('ln'))
    ctx.floor('C16.7', 'call_id / name fields of collected calls', n, 2)
