"""C20 — surfaces are total, bounded, deterministic folds (structural clauses)."""
import re

from ..core import CheckError, Site, edge_implies, op_const, op_local, op_place, switches
from ..effects import Effects
from ..prov import reads_locals, sources

TUI = 'rip_tui::state::TuiState'
FS = 'rip_tui::frame_store::FrameStore::'
PANICS = r'^core::option::Option::<T>::(unwrap|expect)$|^core::result::Result::<T, E>::(unwrap|expect|unwrap_err|expect_err)$|^core::panicking::|^std::rt::begin_panic|^core::option::unwrap_failed|^core::result::unwrap_failed|^core::option::expect_failed|unreachable_display|^core::cmp::Ord::clamp$|^core::cmp::PartialOrd::clamp$|::clamp$'
GROW = r'::(insert|push|push_str|push_back|push_front|entry|extend|append)$'
SHRINK = r'::(remove|pop|pop_front|pop_back|clear|truncate|drain|retain|split_off|take)$'


def event_seq_read(f):
    for bi in f.reachable():
        for st in f.blocks[bi]['s']:
            rv = st.get('rv')
            if not rv:
                continue
            for pl in [op_place(o) for o in rv.get('a', [])] + ([rv['pl']] if 'pl' in rv else []):
                if pl and any(isinstance(pp, dict) and pp.get('o') == 'rip_kernel::Event' and pp.get('n') == 'seq' for pp in pl.get('p', [])):
                    return True
    return False


def crate_fns_all(P):
    # the state side of the crate (constructors, fold, frame window, summaries); the renderers size their buffers by
    # terminal dimensions, which are not settings of the fold
    return [g for g in P.fns.values() if g.crate == 'rip_tui' and re.match(r'^(<.* as )?rip_tui::(state|frame_store|summary)::', g.path)]


def counter_step(g, b):
    """`x + <small constant>` on a 64-bit counter: counting frames cannot overflow in any finite run worth the name."""
    if not b['t'].get('msg', '').startswith('Overflow(Add'):
        return False
    for st in b['s']:
        rv = st.get('rv')
        if rv and rv['k'] == 'bin' and rv['op'].startswith('Add'):
            k = op_const(rv['a'][1])
            try:
                return k is not None and 0 <= int(k.get('v')) <= 4096 and re.search(r'u64|usize|u128|i64', g.lty(op_place(rv['a'][0])['l']) or '') is not None
            except Exception:
                return False
    return False


def run(ctx):
    P = ctx.prog
    E = Effects(P)
    ctx.not_decided = 'rendering output (ratatui widgets); memory bounds of the per-id maps (K-C20-unbounded-maps); the headless renderers of rip-cli are covered by the thorough tier only.'
    ctx.rule('C20.1', 'keyed lookup verifies the key: a FrameStore method that takes a seq and yields a position / frame compares the seq of the frame it found with the requested seq on the way to Some(..) (position arithmetic seq - base_seq alone assumes consecutive seqs).')
    ctx.rule('C20.2', 'no panic in the fold: in everything reachable from TuiState::update, FrameStore::* and summary::* there is no unwrap / expect / panic, every Sub-overflow assert is reachable only through the not-less edge of the matching comparison, every division has a non-zero constant divisor, every `+ 1` is inside the true edge of a `<` test on the same variable, and every string slice is preceded by an is_char_boundary scan of its start.')
    ctx.rule('C20.3', 'determinism: the same closure reads no clock, randomness, environment, and iterates no hash container; nor does any other function of rip_tui (state accessors and headless renderers read the folded state back).')
    ctx.rule('C20.4', 'growth without eviction: every container field of TuiState that update grows is also shrunk or bounded in the same closure.')

    # ---------------------------------------------------------------- C20.1
    n = 0
    for p, f in sorted(P.fns.items()):
        if not p.startswith(FS) or '{closure' in p:
            continue
        sig = P.sigs.get(p)
        seqp = [i for i in range(1, f.argc + 1) if f.lname(i) == 'seq' and f.lty(i) == 'u64'] or ([i for i in range(2, f.argc + 1) if f.lty(i) == 'u64'] if re.search(r'seq', p.rsplit('::', 1)[-1]) else [])
        if not seqp or sig is None or not sig['output'].startswith('core::option::Option<'):
            continue
        ctx.touch(f)
        # delegating lookups (get_by_seq -> index_of_seq) inherit the obligation of their callee
        deleg = [s for s in f.sites() if s.callee.startswith(FS) and s.callee != p and any(seqp[0] in reads_locals(f, a) for a in s.args)]
        if deleg:
            ctx.ob('C20.1', f, 'lookup-delegates', True, 'delegates the seq lookup to %s' % deleg[0].name, line=f.line)
            continue
        n += 1
        fam = [f] + P.closures_of(p)
        reads_seq = any(event_seq_read(g) for g in fam)
        somes = [bi for (bi, si, st) in f.aggregates(r'^core::option::Option$', 'Some') if st['d']['l'] == 0]
        guarded = False
        for (bi, on, ts, els) in switches(f):
            o = f.origin(on)
            eq_edge = None
            involved = False
            if o[0] == 'rv' and o[1]['k'] == 'bin' and o[1]['op'] in ('Eq', 'Ne'):
                involved = any(seqp[0] in reads_locals(f, a) for a in o[1]['a'])
                eq_edge = els if o[1]['op'] == 'Eq' else ts.get('0')
            elif o[0] == 'call' and re.search(r'PartialEq(::|.*>::)(eq|ne)$', o[1].callee):
                involved = any(seqp[0] in reads_locals(f, a) for a in o[1].args)
                eq_edge = els if o[1].name == 'eq' else ts.get('0')
            if involved and eq_edge is not None and somes and all(f.edge_dom(bi, eq_edge, sb) for sb in somes):
                guarded = True
        if not guarded and not somes:
            # `(event.seq == seq).then_some(idx)` / `.then(|| idx)`: the answer is Some only when the comparison held
            for c_ in f.calls(r'^core::bool::<impl bool>::(then_some|then)$'):
                if c_.dest and c_.dest['l'] == 0:
                    o_ = f.origin(c_.args[0])
                    if o_[0] == 'rv' and o_[1]['k'] == 'bin' and o_[1]['op'] == 'Eq' and any(seqp[0] in reads_locals(f, a_) for a_ in o_[1]['a'] if op_place(a_)):
                        guarded = True
                    elif o_[0] == 'call' and re.search(r'PartialEq(::|.*>::)eq$', o_[1].callee or '') and any(seqp[0] in reads_locals(f, a_) for a_ in o_[1].args):
                        guarded = True
        ok = reads_seq and guarded
        ctx.ob('C20.1', f, 'lookup-verifies-key', ok,
               'lookup by seq %s' % ('compares the found frame\'s seq with the requested one before returning Some' if ok else
                                    'returns the position seq - base_seq WITHOUT comparing the frame found there: after a gap or a repeat in the stream it yields a different frame'), line=f.line)
    ctx.floor('C20.1', 'seq-keyed lookups', n, 1)
    # ... and no accessor of the crate answers a seq lookup with the NEAREST frame: a search (find / position / rfind /
    # find_map) in a function that hands out a frame, whose predicate orders Event.seq against the wanted seq (>=, <=, >, <)
    # instead of testing equality, returns a different frame whenever the exact one is missing (a hole, an eviction)
    nsearch = 0
    for p, f in sorted(P.fns.items()):
        if f.crate != 'rip_tui' or '{closure' in p:
            continue
        sig = P.sigs.get(p) or {}
        if not re.search(r'^core::option::Option<(&)?(\'\w+ )?(rip_kernel::)?Event>$|^core::option::Option<&(\'\w+ )?rip_kernel::Event>$', sig.get('output', '')):
            continue
        for s_ in [x for g_ in P.family(p) for x in g_.sites()]:
            if not re.search(r'Iterator::(find|position|rfind|rposition|find_map|skip_while|take_while)$|::(binary_search_by|binary_search_by_key|partition_point)$', s_.callee or ''):
                continue
            cl_ = None
            for a_ in s_.args[1:]:
                o_ = s_.fn.origin(a_)
                if o_[0] == 'rv' and o_[1].get('ak') == 'closure' and o_[1].get('def') in P.fns:
                    cl_ = P.fns[o_[1]['def']]
            if cl_ is None:
                continue
            nsearch += 1
            ordered = []
            for b_ in cl_.blocks:
                for st_ in b_['s']:
                    rv_ = st_.get('rv') or {}
                    if rv_.get('k') == 'bin' and rv_.get('op') in ('Ge', 'Le', 'Gt', 'Lt'):
                        for o2 in rv_['a']:
                            src_ = cl_.origin(o2)
                            if src_[0] == 'local' and any(isinstance(pp, dict) and pp.get('n') == 'seq' and pp.get('o') == 'rip_kernel::Event' for pp in src_[2]):
                                ordered.append(st_.get('ln'))
            ctx.touch(f)
            ctx.ob('C20.1', f, 'no-nearest-match:' + s_.name, not ordered,
                   '%s in a frame accessor tests seq for equality (or not at all)' % s_.name if not ordered else
                   '%s orders Event.seq against the wanted seq (line %s) and the accessor hands out what it finds: when the exact frame is missing, a DIFFERENT frame is returned for that seq' % (s_.name, ordered[0]), line=s_.line)
    ctx.ob('C20.1', 'rip_tui', 'frame-accessors-scanned', True, '%d search(es) in functions of rip_tui that hand out a frame' % nsearch)

    # ---------------------------------------------------------------- C20.2 / C20.3
    roots = [TUI + '::update'] + [p for p in P.fns if p.startswith(FS) and '{closure' not in p] + \
            [p for p in P.fns if re.match(r'^rip_tui::summary::[a-z_]+$', p)]
    P.fn(TUI + '::update')
    par = P.reach_fns(roots)
    local = [P.fns[p] for p in par if p in P.fns]
    ctx.floor('C20.2', 'functions in the fold closure', len(local), 15)
    nass = 0
    for f in local:
        ctx.touch(f)
        for s in f.sites():
            if re.search(PANICS, s.callee) and not s.expn:
                ctx.ob('C20.2', f, 'explicit-panic:' + s.name, False, '%s can panic on a frame-supplied value' % s.callee, line=s.line)
            if re.search(r'core::ops::index::Index(Mut)?<.*>>::index(_mut)?$', s.callee) and re.search(r'alloc::string::String|^<str |for str>', s.callee):
                nass += 1
                start = None
                o = f.origin(s.args[1])
                if o[0] == 'rv' and o[1]['k'] == 'agg' and o[1].get('adt', '').startswith('core::ops::range::'):
                    start = f.root_local(o[1]['a'][0])
                okb = False
                edges = []
                for c in f.calls(r'::is_char_boundary$'):
                    if start is not None and f.root_local(c.args[1]) == start:
                        sw = f.switch_on_call(c)
                        if sw:
                            bb, ts, els, neg = sw
                            edges.append((bb, ts.get('0') if neg else els))      # boundary == true
                for (sbi, on, ts, els) in switches(f):
                    o2 = f.origin(on)
                    if o2[0] == 'rv' and o2[1]['k'] == 'bin' and o2[1]['op'] == 'Lt' and start is not None and f.root_local(o2[1]['a'][0]) == start:
                        src = sources(f, o2[1]['a'][1])
                        if any(x[0] == 'call' and x[1].endswith('::len') for x in src):
                            edges.append((sbi, ts.get('0')))                       # start >= len
                edges = [e for e in edges if e[1] is not None]
                # the slice is reachable only through "start is a boundary" or "start reached len"
                if len(edges) >= 2 and s.bb not in f.reach(0, skip_edges=edges):
                    okb = True
                ctx.ob('C20.2', f, 'str-slice-on-boundary', okb, 'string slice start %s' % ('is advanced to a char boundary first' if okb else 'is NOT checked with is_char_boundary: slicing inside a multi-byte character panics'), line=s.line)
            elif re.search(r'core::ops::index::Index(Mut)?<.*>>::index(_mut)?$', s.callee) and not s.expn:
                nass += 1
                ctx.ob('C20.2', f, 'index-call:' + s.name, False, 'indexing with %s can panic; use get()' % s.callee, line=s.line)
        for bi in sorted(f.reachable()):
            t = f.blocks[bi]['t']
            if t['k'] != 'assert':
                continue
            nass += 1
            msg = t['msg']
            okk = False
            why = msg
            if msg.startswith('DivisionByZero') or msg.startswith('RemainderByZero'):
                # assert(!(d == 0)): find divisor
                d = None
                o = f.origin(t['c'])
                for st in f.blocks[bi]['s']:
                    rv = st.get('rv')
                    if rv and rv['k'] == 'bin' and rv['op'] == 'Eq':
                        d = f.origin(rv['a'][0])
                okk = d is not None and d[0] == 'const' and d[1].get('v') not in (None, '0')
                why = 'division by the constant %s' % (d[1].get('v') if d and d[0] == 'const' else '?')
            elif msg.startswith('Overflow(Sub'):
                # the operands of the checked subtraction
                sub = None
                for st in f.blocks[bi]['s']:
                    rv = st.get('rv')
                    if rv and rv['k'] == 'bin' and rv['op'].startswith('Sub'):
                        sub = rv
                if sub is not None:
                    a, b = sub['a']
                    for (sbi, on, ts, els) in switches(f):
                        o = f.origin(on)
                        if o[0] == 'rv' and o[1]['k'] == 'bin' and o[1]['op'] in ('Lt', 'Ge'):
                            x, y = o[1]['a']
                            if same(f, x, a) and same(f, y, b):
                                safe_edge = ts.get('0') if o[1]['op'] == 'Lt' else els
                                if safe_edge is not None and f.edge_dom(sbi, safe_edge, bi):
                                    okk = True
                why = 'a - b is reachable only when !(a < b)' if okk else 'a - b on frame-supplied values without a dominating a >= b test'
            elif msg.startswith('Overflow(Add'):
                add = None
                for st in f.blocks[bi]['s']:
                    rv = st.get('rv')
                    if rv and rv['k'] == 'bin' and rv['op'].startswith('Add'):
                        add = rv
                if add is not None and op_const(add['a'][1]) is not None and op_const(add['a'][1]).get('v') == '1':
                    v = f.root_local(add['a'][0])
                    for (sbi, on, ts, els) in switches(f):
                        o = f.origin(on)
                        if o[0] == 'rv' and o[1]['k'] == 'bin' and o[1]['op'] == 'Lt' and f.root_local(o[1]['a'][0]) == v:
                            if edge_implies(f, sbi, els, bi) or f.edge_dom(sbi, els, bi):
                                okk = True
                why = 'x + 1 inside the true edge of x < bound' if okk else 'unguarded addition'
            elif msg.startswith('BoundsCheck'):
                why = 'slice index without get()'
            ctx.ob('C20.2', f, 'assert:' + msg.split('(')[0] + (':' + msg.split('(')[1].split(',')[0] if '(' in msg else ''), okk, why, line=t.get('ln'))
    ctx.floor('C20.2', 'asserts / slice sites in the fold', nass, 5)
    # actions of the terminal client on the folded state (selection, copy, key handling) are as total as the fold:
    # every function of rip-cli that takes the TuiState is scanned for the same explicit panics
    ui = [g for p_, g in sorted(P.fns.items()) if g.crate == 'rip' and any('TuiState' in x for x in (P.sigs.get(p_) or {}).get('inputs', []))]
    ctx.floor('C20.2', 'functions of the terminal client that take the TuiState', len(ui), 3)
    for g in ui:
        ctx.touch(g)
        bad_ui = [s_ for s_ in g.sites() if re.search(PANICS, s_.callee) and not s_.expn]
        bad_as = [b['t'] for b in g.blocks if b['t']['k'] == 'assert' and not b['cl']]
        ctx.ob('C20.2', g, 'ui-action-total', not bad_ui and not bad_as,
               'no explicit panic, clamp, or arithmetic / bounds assert' if not bad_ui and not bad_as else
               ('%s can panic on the state a frame sequence left behind (e.g. clamp(min, max) with min > max after out-of-order frames)' % bad_ui[0].callee if bad_ui else 'assert: %s' % bad_as[0].get('msg')),
               line=bad_ui[0].line if bad_ui else (bad_as[0].get('ln') if bad_as else g.line))
    # the headless renderers (`rip run --headless --view …`) consume the same frame sequences: render_message and
    # everything of the crate it reaches (the metrics accumulator included) is as total as the fold
    P.fn('rip::render_message')
    hl = [P.fns[p_] for p_ in sorted(P.reach_fns(['rip::render_message'])) if p_ in P.fns and P.fns[p_].crate == 'rip']
    ctx.floor('C20.2', 'functions of the headless renderers', len(hl), 4)
    for g in hl:
        if g in ui:
            continue
        ctx.touch(g)
        bad_ui = [s_ for s_ in g.sites() if re.search(PANICS, s_.callee) and not s_.expn]
        bad_as = [b['t'] for b in g.blocks if b['t']['k'] == 'assert' and not b['cl'] and not counter_step(g, b)]
        ctx.ob('C20.2', g, 'headless-renderer-total', not bad_ui and not bad_as,
               'no explicit panic, or arithmetic / bounds assert' if not bad_ui and not bad_as else
               ('%s can panic on a frame-supplied value' % bad_ui[0].callee if bad_ui else 'unchecked arithmetic / index on frame-supplied values (assert: %s): e.g. timestamps that go backwards make `end - start` overflow' % bad_as[0].get('msg')),
               line=bad_ui[0].line if bad_ui else (bad_as[0].get('ln') if bad_as else g.line))
    ctx.ob('C20.2', 'rip_tui', 'fold-scanned', True, '%d functions reachable from update / FrameStore / summary scanned for panics (%d reachable incl. external leaves)' % (len(local), len(par)))
    for eff in ('Clock', 'Random', 'Env', 'HashOrder'):
        hits = []
        for p in par:
            d = E.direct(p)
            if eff in d:
                hits.append((P.chain(par, p), d[eff][0]))
        ctx.ob('C20.3', 'rip_tui', 'deterministic:' + eff, not hits, ('no %s effect in the fold' % eff) if not hits else '%s: %s at %s' % (eff, ' -> '.join(hits[0][0][-3:]), hits[0][1].callee),
               line=hits[0][1].line if hits else 0)

    # what is read back from the state (accessors, renderers) must be as deterministic as the fold:
    # the whole rip_tui crate — state accessors and the headless renderers included — is scanned
    crate_fns = [g for g in P.fns.values() if g.crate == 'rip_tui']
    ctx.floor('C20.3', 'functions in rip_tui', len(crate_fns), 60)
    for eff in ('Clock', 'Random', 'Env', 'HashOrder'):
        hits = []
        for g in crate_fns:
            d = E.direct(g.path)
            if eff in d:
                hits.append((g, d[eff][0]))
        ctx.ob('C20.3', 'rip_tui', 'crate-deterministic:' + eff, not hits,
               ('no %s effect anywhere in rip_tui (%d functions: fold, accessors, renderers)' % (eff, len(crate_fns))) if not hits else
               '%s in %s: %s — the same frames no longer give the same %s' % (eff, hits[0][0].path, hits[0][1].callee, 'rendering / accessor result' if eff == 'HashOrder' else 'state'),
               line=hits[0][1].line if hits else 0)

    # ---------------------------------------------------------------- C20.4
    adt = P.adts.get(TUI)
    if adt is None:
        raise CheckError('C20.4: ADT TuiState missing')
    containers = {fl['name']: fl['ty'] for fl in adt['variants'][0]['fields'] if re.search(r'BTreeMap|BTreeSet|HashMap|HashSet|alloc::vec::Vec|VecDeque|alloc::string::String$|FrameStore', fl['ty'])}
    upd = [P.fns[p] for p in P.reach_fns([TUI + '::update']) if p in P.fns]
    grows, shrinks, assigns = {}, {}, {}
    for f in upd:
        for s in f.sites():
            if not s.args:
                continue
            o = f.origin(s.args[0], through_calls=(r'::deref_mut$', r'::deref$', r'::as_mut$'))
            if o[0] != 'local':
                continue
            flds = [pp.get('n') for pp in o[2] if isinstance(pp, dict) and pp.get('o') == TUI]
            if not flds:
                continue
            fld = flds[0]
            if re.search(GROW, s.callee):
                grows.setdefault(fld, s)
            if re.search(SHRINK, s.callee):
                shrinks.setdefault(fld, s)
            # the trim in a helper of the crate (`keep_tail(&mut self.output_text, n)`): a callee that shrinks or reassigns the
            # parameter this field is handed to
            H4 = P.fns.get(s.callee or '')
            if H4 is not None and H4.crate == 'rip_tui':
                k4 = 1      # s.args[0] is the field: parameter 1 of the callee
                shr4 = any(re.search(SHRINK, x.callee) and x.args and H4.root_local(x.args[0], through_calls=(r'::deref_mut$', r'::deref$', r'::as_mut$')) == k4 for x in H4.sites())
                asg4 = any(st4.get('d', {}).get('l') == k4 and st4['d'].get('p') == ['*'] and 'rv' in st4 for b4 in H4.reachable() for st4 in H4.blocks[b4]['s'])
                if shr4 or asg4:
                    shrinks.setdefault(fld, s)
        for bi in f.reachable():
            for st in f.blocks[bi]['s']:
                d = st.get('d')
                if d and 'rv' in st:
                    pf = [pp.get('n') for pp in d.get('p', []) if isinstance(pp, dict) and pp.get('o') == TUI]
                    if pf and pf[-1] == [pp.get('n') for pp in d.get('p', []) if isinstance(pp, dict) and 'f' in pp][-1]:
                        assigns.setdefault(pf[0], st)
    ngrow = 0
    for fld in sorted(containers):
        if fld not in grows:
            continue
        ngrow += 1
        bounded = fld in shrinks or fld in assigns or containers[fld].endswith('FrameStore')
        ctx.ob('C20.4', P.fns[TUI + '::update'], 'bounded-growth:' + fld, bounded,
               'TuiState.%s (%s) grows in update%s' % (fld, containers[fld].split('<')[0].rsplit('::', 1)[-1], ' and is trimmed / reassigned there' if bounded else
                                                       ' and is NEVER evicted: one entry per frame-supplied id, without bound'), line=grows[fld].line)
    ctx.floor('C20.4', 'growing container fields', ngrow, 5)


    # ---------------------------------------------------------------- C20.7
    ctx.rule('C20.7', 'memory follows the frames held, not the configured cap: no function of the state side of rip_tui (constructors, fold, frame window, summaries) sizes an allocation (with_capacity / reserve / resize / repeat / vec![_; n]) by a value that is not a constant, a length of something already held, a 16-bit terminal dimension, or a min() with a constant. The caps are limits ("all capacity settings", usize::MAX = keep everything): pre-allocating them crashes or exhausts memory before the first frame.')
    SIZED = r'::(with_capacity|with_capacity_in|reserve|reserve_exact|resize|resize_with|from_elem|repeat)$'
    n7 = 0
    for g in crate_fns_all(P):
        for s_ in g.sites():
            if not re.search(SIZED, s_.callee or '') or s_.expn and not re.search(r'from_elem$', s_.callee):
                continue
            if not s_.args:
                continue
            szop = s_.args[1] if re.search(r'::(reserve|reserve_exact|resize|resize_with|repeat)$', s_.callee) and len(s_.args) > 1 else s_.args[-1] if not re.search(r'from_elem$', s_.callee) else s_.args[1]
            n7 += 1
            unb = []
            for x in sources(g, szop):
                if x[0] == 'const':
                    continue
                if x[0] == 'call' and re.search(r'::(len|count|width|height)$', x[1] or ''):
                    continue
                if x[0] == 'call' and re.search(r'::min$|::clamp$', x[1] or ''):
                    mc = [c_ for c_ in g.sites() if c_.bb == x[2]]
                    if mc and any(op_const(a_) is not None for a_ in mc[0].args):
                        continue
                if x[0] == 'param' and re.search(r'^u(8|16)$', g.lty(x[1]) or ''):
                    continue
                unb.append(x)
            ctx.touch(g)
            ctx.ob('C20.7', g, 'allocation-not-sized-by-setting:' + s_.name, not unb,
                   '%s is sized by a bounded value' % s_.name if not unb else
                   '%s is sized by %s: a large cap ("keep everything") or a frame-supplied number allocates up front — capacity overflow panic / allocation failure before a frame is folded' % (
                       s_.name, 'parameter `%s`' % g.lname(unb[0][1]) if unb[0][0] == 'param' else str(unb[0][1]).rsplit('::', 1)[-1]), line=s_.line)
    ctx.ob('C20.7', 'rip_tui', 'allocations-scanned', True, '%d size-parameterised allocation site(s) in %d state-side functions of rip_tui' % (n7, len(crate_fns_all(P))))
    ctx.floor('C20.7', 'state-side functions of rip_tui scanned for sized allocations', len(crate_fns_all(P)), 30)

    # ---------------------------------------------------------------- C20.5
    ctx.rule('C20.5', 'the frame window is bounded by its own length: in FrameStore::push the push into the frame deque is dominated by a comparison of that deque\'s len() with the configured cap, and the "full" edge of that comparison passes a pop before the push. A cap enforced through seq arithmetic (offset from base_seq) instead of the length stops evicting as soon as seqs repeat, go backwards or come from several streams.')
    from ..inline import inline_calls as _inl5
    # `is_full()` / `evict_oldest()` style helpers of the store are spliced into push
    fp = _inl5(P, P.fn(FS + 'push'), lambda body, callee: callee.startswith(FS) and not callee.endswith('::push'), depth=2, note=ctx.note)
    ctx.touch(fp)

    def on_frames(g, op):
        o = g.origin(op, through_calls=(r'::deref_mut$', r'::deref$', r'::as_mut$'))
        return o[0] == 'local' and any(isinstance(pp, dict) and pp.get('o', '').endswith('FrameStore') and 'f' in pp for pp in o[2]) and [pp.get('n') for pp in o[2] if isinstance(pp, dict) and pp.get('o', '').endswith('FrameStore')]
    pushes5 = [s_ for s_ in fp.sites() if re.search(r'(VecDeque|Vec)::<T, A>::(push_back|push_front|push)$', s_.callee) and s_.args and on_frames(fp, s_.args[0])]
    pops5 = [s_ for s_ in fp.sites() if re.search(r'(VecDeque|Vec)::<T, A>::(pop_front|pop_back|pop|remove|truncate|drain)$', s_.callee) and s_.args and on_frames(fp, s_.args[0])]
    lens5 = [s_ for s_ in fp.sites() if re.search(r'(VecDeque|Vec)::<T, A>::len$', s_.callee) and s_.args and on_frames(fp, s_.args[0])]
    ctx.floor('C20.5', 'pushes into the frame deque', len(pushes5), 1)
    for pu in pushes5:
        ok5 = False
        for (bi, on, ts, els) in switches(fp):
            o = fp.origin(on)
            if not (o[0] == 'rv' and o[1]['k'] == 'bin' and o[1]['op'] in ('Ge', 'Gt', 'Lt', 'Le', 'Eq', 'Ne')):
                continue
            if not any(any(l5.dest['l'] in reads_locals(fp, a) for l5 in lens5) for a in o[1]['a'] if op_place(a)):
                continue
            if not fp.dom(bi, pu.bb):
                continue
            for tgt in set(list(ts.values()) + [els]):
                if tgt is not None and pops5 and fp.must_pass([x.bb for x in pops5], tgt, [pu.bb]):
                    ok5 = True
        ctx.ob('C20.5', fp, 'push-behind-len-cap', ok5, 'the push into the frame deque %s' % ('is dominated by a len()-vs-cap test whose full edge pops first' if ok5 else
               'is NOT guarded by a test of the deque\'s own length with an eviction on its full edge: the window can grow without bound for repeated / backward / mixed-stream seqs'), line=pu.line)


    # ---------------------------------------------------------------- C20.6
    ctx.rule('C20.6', 'no surface cuts text inside a character: every byte-offset string operation that panics off a UTF-8 boundary (String::truncate / split_off / insert / remove / drain / replace_range, str::split_at, str range indexing) in rip_tui (fold, accessors, renderers) and in the frame-driven views of the terminal client (rip::tasks_watch, the functions of rip that take the TuiState) sits in a function that derives or tests the offset (is_char_boundary / char_indices / find / len_utf8). Names, ids and text in frames are arbitrary UTF-8; the chips, previews and short ids are cut to fit.')
    from .common import char_boundary_ops
    scope6 = [g for p_, g in sorted(P.fns.items()) if g.crate == 'rip_tui' or p_.startswith('rip::tasks_watch::') or (g.crate == 'rip' and any('TuiState' in x for x in (P.sigs.get(p_) or {}).get('inputs', [])))]
    ops6 = char_boundary_ops(P, scope6)
    ctx.floor('C20.6', 'byte-offset string operations in the surfaces', len(ops6), 4)
    for (g, s_, guarded) in ops6:
        ctx.ob('C20.6', g, 'cut-on-char-boundary:' + s_.name, guarded, '%s %s' % (s_.name, 'with the offset derived / tested in the same function' if guarded else
               'with an UNCHECKED byte offset: a multi-byte character straddling it panics the surface'), line=s_.line)

    # ---------------------------------------------------------------- C20.8
    ctx.rule('C20.8', 'text the fold accumulates is cut back where it is appended: every String growth (push_str / push / insert_str / extend / +=) '
             'in the state side of rip_tui whose receiver outlives the call (a field of the state, a &mut String parameter, a slot handed out by a map — '
             'anything but a String local of the same function) is followed, on every path to the return, by a test of the length of that same string '
             '(the cap test whose over-edge trims it), in the same function or — for a helper that appends to its parameter — after every call of the helper. '
             'A stash filled with a bare push_str is bounded by nothing but the frames that arrive.')
    STR_GROW = r'^alloc::string::String::(push_str|push|insert_str|insert|extend_from_within)$|^<alloc::string::String as core::iter::Extend<.*>>::extend|^<alloc::string::String as core::ops::AddAssign<.*>>::add_assign$|^<alloc::string::String as core::fmt::Write>::write_(str|fmt|char)$'
    STR_LEN = r'^alloc::string::String::len$|^core::str::<impl str>::len$'
    THROUGH = (r'::deref_mut$', r'::deref$', r'::as_mut$', r'::as_mut_str$', r'::as_str$', r'::borrow_mut$')

    def okey(g, op):
        o = g.origin(op, through_calls=THROUGH)
        if o[0] == 'local':
            return ('local', o[1], tuple(pp.get('n') if isinstance(pp, dict) else pp for pp in o[2] if pp != '*'))
        if o[0] == 'call':
            return ('call', o[1].bb, tuple(pp.get('n') if isinstance(pp, dict) else pp for pp in (o[2] if len(o) > 2 else []) if pp != '*'))
        return (o[0],)

    def transient(g, key):
        # a String the function owns: a non-parameter local of type String with no projection
        return key[0] == 'local' and key[1] > g.argc and not key[2] and re.match(r'^alloc::string::String$', g.lty(key[1]) or '') is not None

    def len_tested_after(g, bb, key):
        lens = [l_.bb for l_ in g.sites() if re.search(STR_LEN, l_.callee) and l_.args and okey(g, l_.args[0]) == key]
        # ... or a helper of the crate that is handed the same string and tests its length itself (`enforce_cap(target, max)`)
        for c_ in g.sites():
            H = P.fns.get(c_.callee or '')
            if H is None or H.crate != 'rip_tui' or '{closure' in H.path:
                continue
            for k_, a_ in enumerate(c_.args):
                if okey(g, a_) == key and any(re.search(STR_LEN, l2.callee) and l2.args and H.root_local(l2.args[0], through_calls=THROUGH) == k_ + 1 for l2 in H.sites()):
                    lens.append(c_.bb)
        rets = g.returns()
        return bool(lens) and (not rets or g.must_pass(lens, bb, rets))

    n8 = 0
    state_fns = crate_fns_all(P)
    for g in state_fns:
        for s_ in g.sites():
            if not re.search(STR_GROW, s_.callee) or not s_.args:
                continue
            key = okey(g, s_.args[0])
            if transient(g, key):
                continue
            n8 += 1
            ok8 = len_tested_after(g, s_.bb, key)
            how = 'followed by a length test of the same string on every path to the return'
            if not ok8 and key[0] == 'local' and 1 <= key[1] <= g.argc and '{closure' not in g.path:
                # a helper appending to its parameter: the cap test may sit after each call of the helper
                cs = [c_ for c_ in P.callers('^' + re.escape(g.path) + '$') if c_.fn.crate == 'rip_tui']
                if cs and all(len(c_.args) >= key[1] and len_tested_after(c_.fn, c_.bb, okey(c_.fn, c_.args[key[1] - 1])) for c_ in cs):
                    ok8 = True
                    how = 'capped after each of the %d call(s) of this helper' % len(cs)
            ctx.ob('C20.8', g, 'accumulated-text-is-capped:' + s_.name, ok8,
                   ('%s onto %s — %s' % (s_.name, 'a string that outlives the call', how)) if ok8 else
                   '%s onto a string that outlives the call, and NO length test of that string follows on every path to the return: it grows by every frame that reaches this arm (the preview / output caps are enforced only where they are tested)' % s_.name,
                   line=s_.line)
    ctx.floor('C20.8', 'persistent String growth sites in the state side of rip_tui', n8, 2)

    # ---------------------------------------------------------------- C20.9
    ctx.rule('C20.9', 'what a surface shows is a function of the frames folded into the state it is handed: nothing in rip_tui touches ambient mutable state — '
             'no operand names a `static mut` or a static whose type has interior mutability (Lazy / OnceLock / Mutex / atomics / RefCell), no #[thread_local] '
             'static, and no call goes through std::thread::LocalKey (thread_local!). A memo keyed by anything a frame supplies (ids are arbitrary and may repeat) '
             'answers from an earlier stream. The matcher must find its positive examples (the Lazy schema statics of rip_openresponses) on every run.')

    def ambient(g):
        out = []

        def walk(o, line):
            if isinstance(o, dict):
                if o.get('k') == 'tls' and 'static' in o:
                    out.append(('#[thread_local] ' + o['static'], line))
                if 'static' in o and o.get('static_frozen') is False:
                    out.append((o['static'] + ' : ' + (o.get('static_ty') or '?').split('<')[0], line))
                for v in o.values():
                    walk(v, line)
            elif isinstance(o, list):
                for v in o:
                    walk(v, line)
        for bi in g.reachable():
            b = g.blocks[bi]
            for st in b['s']:
                walk(st, st.get('ln', 0))
            walk(b['t'], b['t'].get('ln', 0))
        for s_ in g.sites():
            if re.search(r'^std::thread::LocalKey::<T>::|^std::thread::local::LocalKey::<T>::', s_.callee):
                out.append((s_.callee, s_.line))
        return out
    pos = sum(len(ambient(g)) for g in P.fns.values() if g.crate == 'rip_openresponses')
    ctx.floor('C20.9', 'positive examples of the ambient-state matcher (interior-mutable statics named in rip_openresponses)', pos, 16)
    tui_fns = [g for g in P.fns.values() if g.crate == 'rip_tui']
    hits9 = [(g, a) for g in tui_fns for a in ambient(g)]
    ctx.ob('C20.9', 'rip_tui', 'no-ambient-state', not hits9,
           ('none of the %d functions of rip_tui names an interior-mutable static or a thread-local (%d positive examples matched elsewhere)' % (len(tui_fns), pos)) if not hits9 else
           '%s touches %s: the rendering / fold result depends on what this thread or process did before, not on the frames alone' % (hits9[0][0].path, hits9[0][1][0]),
           line=hits9[0][1][1] if hits9 else 0)
    for g, a in hits9[1:6]:
        ctx.ob('C20.9', g, 'no-ambient-state:' + a[0].split(' ')[0].rsplit('::', 1)[-1], False, '%s touches %s' % (g.path, a[0]), line=a[1])


def same(f, a, b):
    oa, ob = f.origin(a), f.origin(b)
    if oa[0] != ob[0]:
        return False
    if oa[0] == 'local':
        na = [pp.get('n') if isinstance(pp, dict) else pp for pp in oa[2]]
        nb = [pp.get('n') if isinstance(pp, dict) else pp for pp in ob[2]]
        return oa[1] == ob[1] and na == nb
    return False
