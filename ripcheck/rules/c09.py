"""C09 — compaction: job bracket, planned-vs-actual check, hash-order-free rendering."""
import re

from ..core import CheckError, Site, op_base, op_place, switches
from ..effects import Effects, site_effects
from ..prov import reads_locals, sources
from . import c02

STORE = 'ripd::continuities::ContinuityStore::'


def forward_to_named(f, l, limit=8):
    """follow a temp forward through calls taking it as first argument / plain moves until a
    user-named local is reached."""
    for _ in range(limit):
        if f.locals[l].get('n'):
            return l
        nxt = None
        for (bi, si, how, payload) in f.uses(l):
            if how == 'arg0' and si == 't':
                nxt = payload['d']['l']
                break
            if how == 'stmt' and payload['rv']['k'] in ('use', 'cast') and 'p' not in payload['d']:
                nxt = payload['d']['l']
                break
        if nxt is None:
            return None
        l = nxt
    return None


def run(ctx):
    P = ctx.prog
    E = Effects(P)
    ctx.not_decided = 'ordinal arithmetic of cut points, tie-breaks between checkpoints, agreement of the cache and truth "already checkpointed" answers, two schedulers racing between plan and spawn (schedule level).'
    ctx.rule('C09.1', 'job bracket: in compaction_auto_run_spawned_job_v1 every return reachable after the summariser closure ran passes append_job_ended; the returns before it are I/O-fault exits (replay error / empty stream) and are listed.')
    ctx.rule('C09.2', 'planned vs actual: in the summariser closure the summary write and the checkpoint append are reachable only through the "equal" edges of the comparisons of the resolved message (seq, id) with the planned (to_seq, to_message_id).')
    ctx.rule('C09.3', 'hash-order-free rendering: in compaction_auto_summary every iteration over a HashMap / HashSet is collected into a Vec that is sorted by a comparator with a tie-break (Ordering::then) before anything else reads, selects from or truncates it.')
    ctx.rule('C09.4', 'shares C02.5 (noop / dry-run append nothing) and C05.2 (summary written before the checkpoint frame).')

    # ---------------------------------------------------------------- C09.1
    f = P.fn(STORE + 'compaction_auto_run_spawned_job_v1')
    # a step of the job bracket extracted into a private store method (e.g. the job_ended append with its result
    # JSON) is spliced back in
    from ..inline import inline_calls, contains
    _w9 = contains(rx_calls=r'ContinuityStore::append_job_ended$')
    f = inline_calls(P, f, lambda body, callee: callee.startswith('ripd::continuities::') and not re.search(r'::append_job_ended$', callee) and _w9(body, callee), depth=1, note=ctx.note)
    ctx.touch(f)
    ended = f.calls(r'ContinuityStore::append_job_ended$')
    ctx.floor('C09.1', 'append_job_ended sites in the job runner', len(ended), 2)
    clos = [s for s in f.sites() if re.search(r'compaction_auto_run_spawned_job_v1::\{closure#\d+\}$', s.callee) and 'FnOnce' in s.declared + s.full or
            re.search(r'compaction_auto_run_spawned_job_v1::\{closure#\d+\}$', s.callee)]
    # the summariser closure is the one that (transitively) appends checkpoints
    summ = [s for s in clos if s.callee in E.havers('TruthAppend')]
    if len(summ) != 1:
        raise CheckError('C09.1: expected one call of the summariser closure, found %d' % len(summ))
    call = summ[0]
    rets = f.returns()
    ok = f.must_pass([e.bb for e in ended], call.bb, rets)
    ctx.ob('C09.1', f, 'job-ended-after-run', ok, 'every path from the summariser call to a return passes append_job_ended', line=call.line)
    # early exits before the closure: list them
    pre = f.reach(0, stop=[call.bb])
    early = [s for s in f.calls(r'from_residual$') if s.bb in pre] + [(bi) for (bi, si, st) in f.aggregates(r'^core::result::Result$', 'Err') if bi in pre]
    ctx.note('C09.1 exempt early exits before any effect of the job (I/O fault on replay / empty stream): %d' % len(early))
    for e in ended:
        ctx.ob('C09.1', f, 'job-ended-after-closure', f.dom(call.bb, e.bb), 'append_job_ended is dominated by the summariser call (the job result is known)', line=e.line)
    # callers: each calls the runner once per spawned job, after append_job_spawned
    for s in P.callers(r'ContinuityStore::compaction_auto_run_spawned_job_v1$'):
        g = s.fn
        sp = E.sites_with(g, 'TruthAppend')
        spawned = [x for x in g.calls(r'append_job_spawned$|compaction_auto_spawn_job_v1$|compaction_auto_schedule_spawn_job_v1$')]
        ctx.ob('C09.1', g, 'runner-once', not g.in_loop(s.bb), 'the job runner is invoked once (not in a loop) per spawned job', line=s.line)

    # ---------------------------------------------------------------- C09.2
    cl = P.fn(call.callee)
    ctx.touch(cl)
    # the summary write: whatever the closure calls in ripd::compaction_summary that ends up writing a file (by what it
    # does, not by its name: a write split into reserve + write_reserved is still the write)
    writes = [s_ for s_ in cl.sites() if (s_.callee or '').startswith('ripd::compaction_summary::') and any(
        re.search(r'^std::fs::(write|rename)$|^std::fs::File::create$|std::io::Write>::write_all$', x) for x in P.reach_fns([s_.callee]))]
    appends = cl.calls(r'ContinuityStore::append_compaction_checkpoint_created$')
    if not writes or not appends:
        raise CheckError('C09.2: summariser closure lacks the summary write / checkpoint append')
    guards = []
    for (bi, on, ts, els) in switches(cl):
        o = cl.origin(on)
        if o[0] == 'rv' and o[1]['k'] == 'bin' and o[1]['op'] in ('Ne', 'Eq'):
            names = []
            for a in o[1]['a']:
                src = cl.origin(a)
                if src[0] == 'local':
                    names += [pp.get('n') for pp in src[2] if isinstance(pp, dict) and 'f' in pp]
            if 'to_seq' in names and 'seq' in names:
                eq_edge = ts.get('0') if o[1]['op'] == 'Ne' else els
                guards.append(('seq', bi, eq_edge))
        if o[0] == 'call' and re.search(r'PartialEq(::|.*>::)(ne|eq)$', o[1].callee):
            names = []
            for a in o[1].args:
                src = cl.origin(a)
                if src[0] == 'local':
                    names += [pp.get('n') for pp in src[2] if isinstance(pp, dict) and 'f' in pp]
            if 'to_message_id' in names and 'id' in names:
                eq_edge = ts.get('0') if o[1].name == 'ne' else els
                guards.append(('id', bi, eq_edge))
    kinds = {g[0] for g in guards}
    for need in ('seq', 'id'):
        if need not in kinds:
            ctx.ob('C09.2', cl, 'planned-vs-actual-test:' + need, False, 'no comparison of the resolved message %s with the planned cut point found' % need, line=cl.line)
    for kind, bi, eq in guards:
        for s in writes + appends:
            ok = eq is not None and cl.edge_dom(bi, eq, s.bb)
            ctx.ob('C09.2', cl, 'guarded-by-%s-match:%s' % (kind, s.name), ok, '%s is %s' % (s.name, 'reachable only when the %s matches the plan' % kind if ok else 'reachable WITHOUT the %s comparison succeeding' % kind), line=s.line)
    for w in writes:
        for a in appends:
            ctx.ob('C09.2', cl, 'summary-before-checkpoint', cl.dom(w.bb, a.bb), 'the summary write dominates the checkpoint append', line=a.line)

    # ---------------------------------------------------------------- C09.3
    n = 0
    for g in P.find_fns(r'^ripd::compaction_auto_summary::'):
        ctx.touch(g)
        for s in g.sites():
            if 'HashOrder' not in site_effects(s):
                continue
            n += 1
            v = forward_to_named(g, s.dest['l'])
            sorted_ok = False
            why = 'the iteration result is not collected into a named Vec'
            if v is not None:
                why = '`%s` is never sorted with a tie-break' % g.lname(v)
                for so in g.calls(r'slice::<impl \[T\]>::(sort_by|sort_unstable_by|sort_by_key|sort|sort_unstable)$'):
                    r = g.root_local(so.args[0], through_calls=(r'::deref_mut$',))
                    if r != v or not g.dom(s.bb, so.bb):
                        continue
                    if so.name in ('sort', 'sort_unstable'):
                        sorted_ok = True      # total order on the whole element
                        continue
                    cdef = None
                    o = g.origin(so.args[1])
                    if o[0] == 'rv' and o[1].get('ak') == 'closure':
                        cdef = o[1]['def']
                    cf = P.fns.get(cdef) if cdef else None
                    if cf is not None and cf.calls(r'core::cmp::Ordering::(then|then_with)$'):
                        sorted_ok = True
                    elif cf is not None:
                        why = 'the comparator of `%s` has no tie-break: equal keys keep RandomState order' % g.lname(v)
            # the total-order sort must be the first thing that looks at the collected Vec: anything that
            # selects, truncates or reads elements before it still sees RandomState order
            if v is not None and sorted_ok:
                good_sorts = []
                for so in g.calls(r'slice::<impl \[T\]>::(sort_by|sort_unstable_by|sort_by_key|sort|sort_unstable)$'):
                    if g.root_local(so.args[0], through_calls=(r'::deref_mut$',)) == v and g.dom(s.bb, so.bb):
                        good_sorts.append(so)
                DER = (r'::deref_mut$', r'::deref$', r'::as_mut_slice$', r'::as_slice$', r'::as_mut$', r'::as_ref$')
                for u in g.sites():
                    if u.bb == s.bb or any(u.bb == so.bb for so in good_sorts) or not g.can_reach(s.bb, u.bb):
                        continue
                    if re.search(r'::(deref_mut|deref|as_mut_slice|as_slice|as_mut|as_ref|len|is_empty|capacity|reserve|drop)$', u.callee) or u.name == 'drop':
                        continue
                    if not any(g.root_local(a, through_calls=DER) == v for a in u.args):
                        continue
                    if not any(g.dom(so.bb, u.bb) for so in good_sorts):
                        sorted_ok = False
                        why = '`%s` is used by %s (line %d) BEFORE the tie-breaking sort: which elements survive depends on RandomState order' % (g.lname(v), u.name, u.line)
                        break
            ctx.ob('C09.3', g, 'hash-iteration-sorted:' + (g.lname(v) if v is not None else '?'), sorted_ok,
                   'hash iteration (%s) %s' % (s.name, 'is collected and sorted with a tie-break before use' if sorted_ok else why), line=s.line)
    ctx.floor('C09.3', 'hash iterations in compaction_auto_summary', n, 2)

    # ---------------------------------------------------------------- C09.5
    ctx.rule('C09.5', 'the latest checkpoint is chosen by to_seq, not by position: every function that selects "the latest / the hierarchy of" compaction checkpoints at or before a bound (latest_* / hierarchical_* in the store and in the sidecar cache) contains an ordering comparison between the to_seq of two candidates, or hands a to_seq-reading closure to max_by* / min_by* / sort*. Stream order is not to_seq order (cut points are compacted latest-first, older ones are back-filled later): "the first match walking newest-first" reports a back-filled older cut point as the latest, the newest one looks un-checkpointed and a no-op compaction.auto appends a duplicate job and checkpoint.')
    sel = [g for p_, g in sorted(P.fns.items()) if re.search(r'^ripd::(continuities::ContinuityStore|continuity_stream_cache::ContinuityStreamCache)::(latest|hierarchical)_compaction_checkpoints?_\w+$', p_)]
    ctx.floor('C09.5', 'checkpoint selection functions', len(sel), 4)

    def ts_locals(g):
        out = set()
        for bi in g.reachable():
            for st in g.blocks[bi]['s']:
                rv = st.get('rv')
                if not rv:
                    continue
                pls = [op_place(o) for o in rv.get('a', [])] + ([rv['pl']] if 'pl' in rv else [])
                if any(pl and any(isinstance(pp, dict) and pp.get('n') == 'to_seq' for pp in pl.get('p', [])) for pl in pls):
                    out.add(st['d']['l'])
        return out
    for g in sel:
        ctx.touch(g)
        fam = [g] + list(P.closures_of(g.path))
        ordered = False
        how = ''
        for h in fam:
            T = ts_locals(h)
            for bi in h.reachable():
                for st in h.blocks[bi]['s']:
                    rv = st.get('rv')
                    if rv and rv['k'] == 'bin' and rv['op'] in ('Gt', 'Ge', 'Lt', 'Le') and T:
                        a, b = rv['a']
                        ra = reads_locals(h, a) & T if op_place(a) else set()
                        rb = reads_locals(h, b) & T if op_place(b) else set()
                        if ra and rb and ra != rb:
                            ordered = True
                            how = 'comparison of two to_seq values (line %s)' % st.get('ln')
        if not ordered:
            for s_ in g.sites():
                if re.search(r'::(max_by_key|max_by|min_by_key|min_by|sort_by|sort_by_key|sort_unstable_by|sort_unstable_by_key|sort_by_cached_key)$', s_.callee):
                    for a in s_.args:
                        o = g.origin(a)
                        if o[0] == 'rv' and o[1].get('ak') == 'closure' and o[1].get('def') in P.fns and ts_locals(P.fns[o[1]['def']]):
                            ordered = True
                            how = '%s keyed on to_seq (line %d)' % (s_.name, s_.line)
        # a function that only forwards to another selection function inherits its verdict
        if not ordered and any(s_.callee in {x.path for x in sel if x is not g} for s_ in g.sites()):
            ordered = True
            how = 'delegates to another selection function'
        ctx.ob('C09.5', g, 'selected-by-to_seq', ordered, '%s: %s' % (g.path.rsplit('::', 1)[-1], how if ordered else
               'NO ordering on to_seq among the candidates (first / last match by position): a back-filled older cut point can shadow the newest one'), line=g.line)

    # ---------------------------------------------------------------- C09.6
    from .common import char_boundary_ops
    ctx.rule('C09.6', 'the job cannot die on the text it summarises: in everything reachable from the auto-compaction executor (compaction_auto_run_spawned_job_v1: the summariser, the renderers of compaction_auto_summary, the summary writer) there is no byte-offset string operation that panics off a UTF-8 character boundary (String::truncate / split_off / insert / remove / drain / replace_range, str::split_at, str range indexing) unless the same function derives or tests the offset. A panic after job_spawned leaves the job without its job_ended frame and the cut point without a checkpoint.')
    par6 = P.reach_fns([STORE + 'compaction_auto_run_spawned_job_v1'] + [p_ for p_ in P.fns if p_.startswith('ripd::compaction_auto_summary::') and '{closure' not in p_])
    scope6 = [P.fns[p_] for p_ in sorted(par6) if p_ in P.fns and P.fns[p_].crate.startswith('rip') and P.fns[p_].crate not in ('rip', 'rip_tui', 'rip_cli')]
    ctx.floor('C09.6', 'functions reachable from the auto-compaction executor', len(scope6), 20)
    ops6 = char_boundary_ops(P, scope6)
    wit6 = char_boundary_ops(P, [g_ for g_ in P.fns.values() if g_.crate in ('rip', 'rip_tui')])
    ctx.ob('C09.6', 'workspace', 'matcher-alive', len(wit6) >= 1, 'the same matcher finds %d byte-offset string operation(s) in the terminal client crates (positive example); %d function(s) of the compaction job scanned, %d operation(s) found there' % (len(wit6), len(scope6), len(ops6)))
    for (g_, s_, ok_) in ops6:
        ctx.touch(g_)
        ctx.ob('C09.6', g_, 'char-boundary:' + s_.name, ok_, '%s on summarised text %s' % (s_.name, 'with the offset derived / tested in the same function' if ok_ else
               'with an UNCHECKED byte offset: a multi-byte character straddling it panics the compaction job after job_spawned — no checkpoint, no job_ended'), line=s_.line)

    # ---------------------------------------------------------------- C09.7
    ctx.rule('C09.7', 'a manual checkpoint ends AT a message: in compaction_checkpoint_cumulative_v1 the lookup that pairs the requested to_seq with a message id tests the message\'s seq for '
             'equality with it (an `==` in a closure that captures to_seq, or a binary search consumed on its Ok side only). An ordering search (partition_point, `<=`) accepts a seq between '
             'two messages — or far past the head — and records it paired with the id of an earlier message.')
    cc7 = P.fn('ripd::continuities::ContinuityStore::compaction_checkpoint_cumulative_v1')
    ctx.touch(cc7)
    tl7 = None
    for (bi, si, st) in cc7.aggregates(r'CompactionCheckpointCreatedPayload$'):
        rv7 = st['rv']
        if 'to_seq' in rv7['fields']:
            tl7 = cc7.root_local(rv7['a'][rv7['fields'].index('to_seq')])
    if tl7 is None:
        raise CheckError('C09.7: the checkpoint frame construction (to_seq) was not found in compaction_checkpoint_cumulative_v1')
    eq7, ord7 = [], []
    # the searches whose result the recorded to_seq / message id are built from
    opi7 = None
    for (bi, si, st) in cc7.aggregates(r'CompactionCheckpointCreatedPayload$'):
        rv7 = st['rv']
        if 'to_seq' in rv7['fields']:
            opi7 = rv7['a'][rv7['fields'].index('to_seq')]
    R7 = reads_locals(cc7, opi7) | {tl7}
    SEARCH7 = r'::(find|find_map|position|rposition|partition_point|binary_search_by|binary_search_by_key|any|rfind)$'
    for s_ in cc7.calls(SEARCH7):
        if s_.dest is None or s_.dest['l'] not in R7:
            continue
        for a in s_.args[1:]:
            o7 = cc7.origin(a)
            if not (o7[0] == 'rv' and o7[1].get('ak') == 'closure' and o7[1].get('def') in P.fns):
                continue
            cf7 = P.fns[o7[1]['def']]
            for b2 in cf7.reachable():
                for s2 in cf7.blocks[b2]['s']:
                    r2 = s2.get('rv') or {}
                    if r2.get('k') == 'bin' and r2['op'] in ('Eq', 'Ne', 'Le', 'Lt', 'Ge', 'Gt'):
                        sides = [cf7.origin(x) for x in r2['a']]
                        if any(o[0] == 'local' and o[1] == 1 for o in sides):      # one side is a captured value
                            (eq7 if r2['op'] in ('Eq', 'Ne') else ord7).append((cf7, s2.get('ln', cf7.line), r2['op']))
    # the lookup may sit in a private helper (`message_at_seq(&events, to_seq)`): read the helper and its closures the same way
    for s_ in cc7.sites():
        H7 = P.fns.get(s_.callee or '')
        if H7 is None or H7.crate != 'ripd' or s_.dest is None or s_.dest['l'] not in R7 or (s_.callee or '').startswith('ripd::continuities::ContinuityStore::'):
            continue
        for g7 in [H7] + P.closures_of(H7.path):
            for b2 in g7.reachable():
                for s2 in g7.blocks[b2]['s']:
                    r2 = s2.get('rv') or {}
                    if r2.get('k') == 'bin' and r2['op'] in ('Eq', 'Ne', 'Le', 'Lt', 'Ge', 'Gt') and all(re.search(r'^u64$|^&u64$', g7.lty((op_place(x) or {}).get('l', 0)) or '') or op_place(x) is None for x in r2['a']):
                        (eq7 if r2['op'] in ('Eq', 'Ne') else ord7).append((g7, s2.get('ln', g7.line), r2['op']))
    bs7 = [s_ for s_ in cc7.calls(r'::(binary_search_by|binary_search_by_key|binary_search)$')]
    ok7 = bool(eq7) and not ord7
    ctx.ob('C09.7', cc7, 'to-seq-is-a-message-boundary', ok7,
           'the requested to_seq is matched against message seqs %s' % ('by equality (%d comparison(s)), never by order' % len(eq7) if ok7 else
           ('by ORDER (%s at line %s): a to_seq that is not a message is accepted and paired with an earlier message' % (ord7[0][2], ord7[0][1]) if ord7 else
            'by no equality test in any closure that captures it%s: a to_seq that is not a message boundary can be recorded' % (' (a binary search is present)' if bs7 else ''))),
           line=(ord7[0][1] if ord7 else cc7.line))

    # ---------------------------------------------------------------- C09.8
    ctx.rule('C09.8', 'the in-flight scan is exhaustive within its window: the newest-first loop that looks for a summarizer job spawned without an end frame (it consults the set of ended '
             'job ids) is left only when the iterator is exhausted or with a job found (a Some(..) is built on the way out). A scan that answers "none" at the first spawned-and-ended job it '
             'meets hides a pending job behind a later finished one, and the scheduler spawns another job for a thread that already has one in flight.')
    from ..inline import inline_calls as _inl8
    fi8 = P.fn('ripd::continuities::ContinuityStore::find_inflight_compaction_job_id_best_effort_v1')
    fi8 = _inl8(P, fi8, lambda body, callee: callee.startswith('ripd::') and bool(body.calls(r'HashSet::<T, S>::contains$|HashSet::<T, S, A>::contains$|HashSet::<.*>::contains$')), depth=2, note=ctx.note)
    ctx.touch(fi8)
    cont8 = fi8.calls(r'HashSet::<.*>::contains$|BTreeSet::<.*>::contains$')
    if not cont8:
        # the scan as an iterator chain: the lookup sits in a closure handed to find_map / find / filter_map, which visits every
        # frame until the closure answers Some(..) — there is no other way out of it
        adapt8 = None
        for cl8 in P.closures_of(fi8.path):
            if cl8.calls(r'HashSet::<.*>::contains$|BTreeSet::<.*>::contains$'):
                for s_ in [x for g_ in [fi8] + P.closures_of(fi8.path) for x in g_.calls(r'::(find_map|find|rfind|filter_map|position|rposition|any)$')]:
                    for a_ in s_.args[1:]:
                        o_ = s_.fn.origin(a_)
                        if o_[0] == 'rv' and o_[1].get('ak') == 'closure' and o_[1].get('def') == cl8.path:
                            adapt8 = s_
        if adapt8 is not None:
            ctx.ob('C09.8', fi8, 'inflight-scan-exhaustive', True, 'the scan is an iterator chain (%s with the ended-set lookup in its closure): it stops only at a job found or at the end of the window' % adapt8.name, line=adapt8.line)
            return
        raise CheckError('C09.8: the in-flight scan no longer consults a set of ended job ids (anchor lost)')
    # the lookup may sit on a way OUT of the loop (an arm that always leaves): the loop is the one whose header dominates it
    loops8 = [(h, body) for h, body in fi8.loops().items() if any(c.bb in body or fi8.dom(h, c.bb) for c in cont8)]
    if not loops8:
        raise CheckError('C09.8: the ended-set lookup is not inside a loop')
    h8, body8 = min(loops8, key=lambda x: len(x[1]))
    nexts8 = [c for c in fi8.calls(r'Iterator>::next$|::next$|::next_back$') if c.bb in body8]
    bad8 = []
    nexit8 = 0
    for b in sorted(body8):
        for t in fi8.succs(b):
            if t in body8 or fi8.is_cleanup(t):
                continue
            nexit8 += 1
            # exhaustion: the exit is decided by the discriminant of what next() returned
            tt = fi8.blocks[b]['t']
            exhausted = False
            if tt['k'] == 'switch':
                o8 = fi8.origin(tt['on'])
                if o8[0] == 'rv' and o8[1]['k'] == 'discr' and any(n.dest and n.dest['l'] == o8[1]['pl']['l'] for n in nexts8):
                    exhausted = True
            if exhausted:
                continue
            # found: a Some(..) is built on EVERY path from here to the return
            some_blocks = [bb for bb in fi8.reachable() for st in fi8.blocks[bb]['s'] if (st.get('rv') or {}).get('k') == 'agg' and (st.get('rv') or {}).get('variant') == 'Some']
            rets8 = [r_ for r_ in fi8.returns() if r_ in fi8.reachable()]
            found = bool(some_blocks) and fi8.must_pass(some_blocks, t, rets8)
            # ... or inside the exiting block itself
            for st in fi8.blocks[b]['s']:
                rv = st.get('rv') or {}
                if rv.get('k') == 'agg' and rv.get('variant') == 'Some':
                    found = True
            if not found:
                bad8.append((b, t))
    ctx.ob('C09.8', fi8, 'inflight-scan-exhaustive', not bad8 and nexit8 >= 1,
           ('%d way(s) out of the scan loop: exhaustion or a job found' % nexit8) if not bad8 else
           'the scan loop is left from bb%d without the iterator being exhausted and without a job: a pending job further back in the window is never looked at' % bad8[0][0],
           line=fi8.blocks[bad8[0][0]]['t'].get('ln', fi8.line) if bad8 else fi8.line)
