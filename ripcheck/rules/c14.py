"""C14 — rewind restores the checkpointed files (structural clauses)."""
import re

from ..core import CheckError, Site, op_place, switches
from ..effects import Effects
from ..prov import reads_locals, sources
from .common import str_consts_compared, tool_registry

RUNNER = 'rip_tools::runtime::ToolRunner::run'


def run(ctx):
    P = ctx.prog
    E = Effects(P)
    ctx.not_decided = 'byte equality after rewind (value level); behaviour when the automatic checkpoint itself fails (the tool still runs and a checkpoint_failed frame is recorded).'
    ctx.rule('C14.1', 'auto-checkpoint first: in ToolRunner::run emit_checkpoint_events dominates every invocation of the tool handler; every registered tool whose handler writes files without spawning a process is a match arm of files_for_invocation (so it gets an automatic checkpoint), and no alias bypasses that name.')
    ctx.rule('C14.2', 'coverage: Patch::affected_paths reads every PathBuf / Option<PathBuf> field of every PatchOp variant.')
    ctx.rule('C14.3', 'rewind shape: the snapshot of current contents dominates the apply closure; on the Err edge the snapshot is written back before returning.')
    ctx.rule('C14.4', 'one base: in create_checkpoint the existence test, the read and the stored relative path all derive from the resolver result; the raw `files` parameter reaches no fs call.')

    # ---------------------------------------------------------------- C14.1
    run_f = P.body(RUNNER)
    # the handler invocation (with its timeout) or the auto-checkpoint step extracted into a private helper of
    # runtime.rs is spliced back in
    from ..inline import inline_calls, contains
    _w14 = contains(rx_calls=r'core::ops::function::Fn(Mut|Once)?::call(_mut|_once)?$|ToolRunner::emit_checkpoint_events$|ToolRegistry::get$')
    run_f = inline_calls(P, run_f, lambda body, callee: callee.startswith('rip_tools::runtime::') and not re.search(r'::(emit_checkpoint_events|files_for_invocation|run)$', callee)
                         and _w14(body, callee), depth=2, note=ctx.note)
    ctx.touch(run_f)
    ck = run_f.calls(r'ToolRunner::emit_checkpoint_events$')
    if not ck:
        raise CheckError('C14.1: ToolRunner::run does not call emit_checkpoint_events')
    getr = run_f.calls(r'ToolRegistry::get$')
    if not getr:
        raise CheckError('C14.1: ToolRunner::run does not look the handler up in the registry')
    handler_l = None
    inv = []
    for s in run_f.sites():
        if re.search(r'core::ops::function::Fn(Mut|Once)?::call(_mut|_once)?$', s.declared) and s.rk in ('virtual', ''):
            rl = reads_locals(run_f, s.args[0])
            if any(g.dest['l'] in rl for g in getr):
                inv.append(s)
    ctx.floor('C14.1', 'handler invocations in ToolRunner::run', len(inv), 1)
    for s in inv:
        ok = any(run_f.dom(c.bb, s.bb) for c in ck)
        ctx.ob('C14.1', run_f, 'checkpoint-before-handler', ok, 'the tool handler is invoked %s emit_checkpoint_events' % ('only after' if ok else 'WITHOUT a dominating'), line=s.line)
    ffi = P.fn('rip_tools::runtime::files_for_invocation')
    ctx.touch(ffi)
    arms = sorted({n for n, _ in str_consts_compared(ffi)})
    tools, aliases = tool_registry(P)
    editing = []
    for name, handler in sorted(tools.items()):
        par = P.reach_fns([handler])
        effs = set()
        for p in par:
            effs |= set(E.direct(p).keys())
        if 'FsWrite' in effs and 'ProcSpawn' not in effs:
            editing.append(name)
            ctx.ob('C14.1', ffi, 'editing-tool-checkpointed:' + name, name in arms,
                   'tool `%s` writes files; files_for_invocation %s' % (name, 'has an arm for it' if name in arms else 'has NO arm for it: no automatic checkpoint precedes its edits'), line=ffi.line)
    ctx.floor('C14.1', 'file-editing tools', len(editing), 2)
    for a, tgt in aliases.items():
        ctx.ob('C14.1', ffi, 'alias-not-bypassing:' + a, not (tgt in editing and a not in arms), 'alias `%s` -> `%s`' % (a, tgt), line=ffi.line)
    # the arm for each editing tool yields Some(files): its Ok(Some) aggregate exists per arm
    somes = [st for (bi, si, st) in ffi.aggregates(r'^core::option::Option$', 'Some')]
    ctx.ob('C14.1', ffi, 'arms-return-files', len(somes) >= len([a for a in arms if a in editing]), '%d arm(s) return Some(files) for %d editing tool(s)' % (len(somes), len(editing)), line=ffi.line)
    # emit_checkpoint_events: hook.create is reached unless files_for_invocation says None
    ece = P.fn('rip_tools::runtime::ToolRunner::emit_checkpoint_events')
    ctx.touch(ece)
    creates = [s for s in ece.sites() if s.declared.endswith('CheckpointHook::create')]
    ctx.ob('C14.1', ece, 'hook-create-called', len(creates) == 1, 'emit_checkpoint_events calls CheckpointHook::create (%d site)' % len(creates), line=ece.line)
    if creates:
        c = creates[0]
        # the request's files derive from files_for_invocation
        aggs = ece.aggregates(r'CheckpointRequest$')
        okf = False
        for (bi, si, st) in aggs:
            rv = st['rv']
            op = rv['a'][rv['fields'].index('files')]
            okf = any(x[0] == 'call' and x[1].endswith('files_for_invocation') for x in sources(ece, op))
        ctx.ob('C14.1', ece, 'request-files-from-invocation', okf, 'CheckpointRequest.files comes from files_for_invocation(invocation)', line=c.line)

    # ---------------------------------------------------------------- C14.2
    ap = P.fn('rip_workspace::patch::Patch::affected_paths')
    ctx.touch(ap)
    adt = P.adts.get('rip_workspace::patch::PatchOp')
    if adt is None:
        raise CheckError('C14.2: ADT PatchOp missing')
    want = set()
    for v in adt['variants']:
        for fl in v['fields']:
            if 'std::path::PathBuf' in fl['ty']:
                want.add((v['name'], fl['name']))
    got = set()
    for bi in ap.reachable():
        bl = ap.blocks[bi]
        places = []
        for st in bl['s']:
            rv = st.get('rv')
            if rv:
                places += [op_place(o) for o in rv.get('a', [])] + ([rv['pl']] if 'pl' in rv else [])
        for pl in places:
            if not pl:
                continue
            var = None
            for pp in pl.get('p', []):
                if isinstance(pp, dict) and 'dc' in pp:
                    var = pp['dc']
                if isinstance(pp, dict) and 'f' in pp and pp.get('o') == 'rip_workspace::patch::PatchOp':
                    got.add((var, pp['n']))
    pushes = ap.calls(r'alloc::vec::Vec::push$')
    ctx.floor('C14.2', 'path-bearing PatchOp fields', len(want), 4)
    for (v, fl) in sorted(want):
        ctx.ob('C14.2', ap, 'covers:%s.%s' % (v, fl), (v, fl) in got, 'PatchOp::%s.%s is %s by affected_paths' % (v, fl, 'read' if (v, fl) in got else 'NOT read'), line=ap.line)
    ctx.ob('C14.2', ap, 'push-count', len(pushes) >= len(want), '%d push site(s) for %d path fields' % (len(pushes), len(want)), line=ap.line)

    # ---------------------------------------------------------------- C14.3
    rw = P.fn('rip_workspace::Workspace::rewind_to_checkpoint')
    ctx.touch(rw)
    fam = P.closures_of(rw.path)
    apply_cl = [g for g in fam if g.calls(r'^std::fs::(write|remove_file)$')]
    if not apply_cl:
        # the apply step as a private fn / method of the crate instead of a closure
        seen_c = set()
        for s_ in rw.sites():
            h = P.fns.get(s_.callee)
            if h is not None and h.crate == rw.crate and s_.callee not in seen_c and h.calls(r'^std::fs::(write|remove_file)$'):
                seen_c.add(s_.callee)
                apply_cl.append(h)
    if len(apply_cl) != 1:
        raise CheckError('C14.3: expected one apply step (closure or private fn that writes / removes the files) in rewind_to_checkpoint, found %d' % len(apply_cl))
    ctx.touch(apply_cl[0])
    call = [s for s in rw.sites() if s.callee == apply_cl[0].path]
    if len(call) != 1:
        raise CheckError('C14.3: apply closure call not found')
    call = call[0]
    snap = rw.calls(r'BTreeMap::insert$|HashMap::insert$|alloc::vec::Vec::push$')
    snap_reads = [s for s in rw.calls(r'^std::fs::read$') if rw.can_reach(s.bb, call.bb)]
    # the pre-pass as a private method (`let undo = self.current_contents_of(&files)?`): a callee of the crate, called before the apply
    # step, that reads files and records them — its call stands for the inserts, and its own fs::read for one of the two reads
    for h_ in rw.sites():
        H_ = P.fns.get(h_.callee or '')
        if H_ is None or H_.crate != rw.crate or h_.callee == apply_cl[0].path or not rw.can_reach(h_.bb, call.bb) or rw.can_reach(call.bb, h_.bb):
            continue
        if H_.calls(r'^std::fs::read$') and H_.calls(r'BTreeMap::insert$|HashMap::insert$|alloc::vec::Vec::push$'):
            snap = snap + [h_]
            snap_reads = snap_reads + [h_]
    ctx.ob('C14.3', rw, 'snapshot-before-apply', bool(snap) and len(snap_reads) >= 2 and all(not rw.can_reach(call.bb, s.bb) for s in snap),
           'current contents are read and recorded (%d insert site(s)) before the apply closure runs' % len(snap), line=call.line)
    after = rw.reach_from_after(call.bb)
    restores = [s for s in rw.calls(r'^std::fs::write$') if s.bb in after]
    removes = [s for s in rw.calls(r'^std::fs::remove_file$') if s.bb in after]
    ctx.ob('C14.3', rw, 'undo-on-error', bool(restores) and bool(removes), 'the Err arm writes back previous bytes and removes files that did not exist', line=restores[0].line if restores else call.line)
    # Ok edge of the result test: error exits pass through the restore loop header
    ok_edges = []
    for (bi, on, ts, els) in switches(rw):
        o = rw.origin(on)
        if o[0] == 'rv' and o[1]['k'] == 'discr' and call.dest['l'] in reads_locals(rw, {'c': o[1]['pl']}):
            if '0' in ts:
                ok_edges.append((bi, ts['0']))
            elif '1' in ts:
                ok_edges.append((bi, els))
    if not ok_edges:
        raise CheckError('C14.3: result of the apply closure is not tested')
    loops_after = [h for h, body in rw.loops().items() if h in after and any(r.bb in body for r in restores)]
    r = rw.reach(call.bb, stop=loops_after, skip_edges=ok_edges)
    ctx.ob('C14.3', rw, 'error-exit-through-undo', bool(loops_after) and not any(x in r for x in rw.returns()), 'after a failed apply every path to the return passes the restore loop', line=call.line)

    # ---------------------------------------------------------------- C14.4
    from .c13 import build_taint
    T, _src = build_taint(P)
    from .common import workspace_helpers_of
    P.fn('rip_workspace::Workspace::create_checkpoint')
    n = 0
    # create_checkpoint and the private helpers it delegates to ("snapshot one file"): the sites are judged in the
    # function they sit in (the taint is interprocedural, so a helper's parameter carries what its callers pass)
    for ccp in workspace_helpers_of(P, 'rip_workspace::Workspace::create_checkpoint'):
        cc = P.fns[ccp]
        probe_roots = []
        for s in cc.calls(r'^std::path::Path::(exists|is_file)$|^std::fs::(read|metadata)$'):
            ctx.touch(cc)
            n += 1
            raw = T.tainted(cc, s.args[0], s.bb)
            probe_roots.append({l for l in reads_locals(cc, s.args[0]) if cc.locals[l].get('n')})
            ctx.ob('C14.4', cc, 'one-base:' + s.name, not raw, '%s operand %s' % (s.name, 'derives from resolved (root-relative) values only' if not raw else
                                                                               'is the RAW caller path: a relative path is tested / read against the process working directory while the copy is stored under the root-relative name'), line=s.line)
        for (bi, si, st) in cc.aggregates(r'^rip_workspace::CheckpointFile$'):
            rv = st['rv']
            op = rv['a'][rv['fields'].index('path')]
            raw = T.tainted(cc, op, bi)
            stored = {l for l in reads_locals(cc, op) if cc.locals[l].get('n')}
            common = any(stored & pr for pr in probe_roots)
            ctx.ob('C14.4', cc, 'stored-path-relative', not raw and common,
                   'CheckpointFile.path %s' % ('is the resolved relative path and shares its origin (%s) with the path that was tested / read' % sorted(cc.lname(l) for l in stored)[:3] if not raw and common else
                                               'is not the resolved path that was tested / read'), line=st.get('ln'))
    ctx.floor('C14.4', 'existence / read sites in create_checkpoint', n, 2)

    # ---------------------------------------------------------------- C14.5
    ctx.rule('C14.5', 'snapshots are never aliased: nothing in rip_workspace (nor the checkpoint glue in ripd / rip_tools) creates a hard link or symlink — a restored file that shares an inode with the stored snapshot lets the next in-place edit of the workspace file rewrite the checkpoint, so a second rewind no longer restores the checkpointed bytes.')
    LINKS = r'^std::fs::hard_link$|^std::os::unix::fs::symlink$|^std::fs::soft_link$|^tokio::fs::(hard_link|symlink)'
    scope_fns = [g for g in P.fns.values() if g.crate in ('rip_workspace', 'rip_tools', 'ripd')]
    links = [(g, s_) for g in scope_fns for s_ in g.calls(LINKS)]
    copies = [(g, s_) for g in P.fns.values() if g.crate == 'rip_workspace' for s_ in g.calls(r'^std::fs::(read|write)$')]
    ctx.floor('C14.5', 'fs read / write sites in rip_workspace (the byte-copy paths the rule protects)', len(copies), 6)
    ctx.ob('C14.5', 'workspace', 'no-link-aliasing', not links,
           '%d function(s) scanned; %s' % (len(scope_fns), 'no hard_link / symlink call: snapshots and workspace files never share an inode' if not links else
                                           '%s calls %s: a workspace file can alias a stored snapshot' % (links[0][0].path, links[0][1].callee)),
           line=links[0][1].line if links else 0)

    # ---------------------------------------------------------------- C14.6
    ctx.rule('C14.6', 'the checkpointer reads the arguments the tool reads: for every argument struct the auto-checkpoint parses on its own (runtime.rs `WriteArgs`, `ApplyPatchArgs`) the same-named struct of the tool (builtins/*.rs) accepts exactly the same wire names (field name / rename / aliases, container rename_all) for the fields the checkpointer uses. A spelling only the tool accepts (`file_path`) runs the edit while the checkpoint step fails to find the path — the edit cannot be undone.')
    import glob as _glob
    import os as _os
    from . import serde_table as _st
    rt_file = _os.path.join(P.root, 'crates/rip-tools/src/runtime.rs')
    bfiles = sorted(_glob.glob(_os.path.join(P.root, 'crates/rip-tools/src/builtins/*.rs')))
    tabs = _st.table([rt_file] + bfiles)

    def wire(item, fld):
        names = [v for k, v in fld['serde'] if k == 'rename'] or [fld['name']]
        return sorted(set(names + [v for k, v in fld['serde'] if k == 'alias'])), sorted(v for k, v in item['serde'] if k in ('rename_all', 'deny_unknown_fields'))
    rt_items = [it for it in tabs[0]['items'] if it['name'].endswith('Args') and it.get('fields')]
    tool_items = {}
    for tb in tabs[1:]:
        for it in tb['items']:
            if it.get('fields') and it.get('module', '') == '':
                tool_items.setdefault(it['name'], it)
    n6 = 0
    for it in rt_items:
        sib = tool_items.get(it['name'])
        if sib is None:
            ctx.ob('C14.6', 'rip_tools::runtime::' + it['name'], 'sibling-struct', False, 'the tool-side argument struct `%s` was not found in builtins/*.rs' % it['name'], line=it['line'])
            continue
        for fld in it['fields']:
            n6 += 1
            sf = next((x for x in sib['fields'] if x['name'] == fld['name']), None)
            same = sf is not None and wire(it, fld) == wire(sib, sf)
            ctx.ob('C14.6', 'rip_tools::runtime::' + it['name'], 'same-wire-names:' + fld['name'], same,
                   'checkpointer accepts %s, the tool accepts %s' % (wire(it, fld)[0], wire(sib, sf)[0] if sf else 'no such field') + ('' if same else ': a call spelled the way only the tool understands is executed without a usable checkpoint'), line=it['line'])
    ctx.floor('C14.6', 'argument fields the checkpointer parses on its own', n6, 2)

    # ---------------------------------------------------------------- C14.7
    ctx.rule('C14.7', 'rewind restores every covered file, unconditionally: in the apply step of rewind_to_checkpoint every path from the `file.exists == true` edge of a checkpoint entry to the next entry (or the return) passes the fs::write of that entry or an error exit — no shortcut decides from metadata (size, mtime) that a file "is still the same".')
    ap14 = apply_cl[0]
    ws14 = [s_.bb for s_ in ap14.calls(r'^std::fs::write$')]
    errs14 = [s_.bb for s_ in ap14.calls(r'FromResidual<.*>>::from_residual$')] + [bi for (bi, si, st) in ap14.aggregates(r'^core::result::Result$', 'Err')]
    n7 = 0
    for (bi, on, ts, els) in switches(ap14):
        o = ap14.origin(on)
        if o[0] == 'local' and any(isinstance(pp, dict) and pp.get('n') == 'exists' and pp.get('o', '').endswith('CheckpointFile') for pp in o[2]):
            n7 += 1
            true_t = els if '0' in ts else ts.get('1')
            h7 = ap14.innermost_loop(bi)
            targets = list(ap14.returns()) + ([h7] if h7 is not None else [])
            ok = bool(ws14) and true_t is not None and ap14.must_pass(ws14 + errs14, true_t, targets)
            ctx.ob('C14.7', ap14, 'existing-entry-always-written', ok, 'a checkpoint entry that existed %s' % ('is written back on every non-error path' if ok else
                   'can be SKIPPED (a path from the exists-edge reaches the next entry without fs::write): the workspace keeps bytes that are not the checkpointed ones while rewind reports success'), line=ap14.blocks[bi]['t'].get('ln'))
    ctx.floor('C14.7', 'tests of CheckpointFile.exists in the apply step', n7, 1)

    # ---------------------------------------------------------------- C14.8
    ctx.rule('C14.8', 'the covered path is the edited path, character for character: between the tool argument and the checkpoint entry (files_for_invocation, to_relative, create_checkpoint, rewind_to_checkpoint, safe_join, the tools\' resolve_path and their closures) no path value is built from text that went through a rewriting string operation (replace, case folding, trim — directly or through a helper such as normalize_rel). The tool edits `root.join(arg)` as written; a checkpoint that covers a respelled path (`a\\\\b` -> `a/b`) snapshots and restores a different file.')
    REWRITE = r'::(replace|replacen|to_lowercase|to_uppercase|to_ascii_lowercase|to_ascii_uppercase|make_ascii_lowercase|make_ascii_uppercase|trim|trim_start|trim_end|trim_matches|trim_start_matches|trim_end_matches|nfc|nfd)$'
    PATHMAKE = r'^<std::path::PathBuf as core::convert::From<.*>>::from$|^std::path::Path::new$|^std::path::Path::join$|^std::path::PathBuf::push$|^std::path::Path::strip_prefix$|^std::path::Path::with_file_name$|^<std::path::PathBuf as core::str::traits::FromStr>::from_str$'
    roots8 = ['rip_tools::runtime::files_for_invocation', 'rip_workspace::Workspace::to_relative', 'rip_workspace::Workspace::create_checkpoint',
              'rip_workspace::Workspace::rewind_to_checkpoint', 'rip_workspace::Workspace::safe_join', 'rip_tools::builtins::resolve_path']
    rewr_cache = {}

    def rewrites(callee):
        if callee is None:
            return False
        if re.search(REWRITE, callee):
            return True
        if callee not in P.fns or callee in roots8:
            return False
        if callee not in rewr_cache:
            rewr_cache[callee] = any(re.search(REWRITE, x) for x in P.reach_fns([callee]))
        return rewr_cache[callee]
    n8 = 0
    for r8 in roots8:
        P.fn(r8)
    fams8 = []
    for r8 in roots8:
        for hp8 in (workspace_helpers_of(P, r8) if r8.startswith('rip_workspace::') else [r8]):
            for g in P.family(hp8):
                if g not in fams8:
                    fams8.append(g)
    for _once in (1,):
        for g in fams8:
            ctx.touch(g)
            rw_dests = {s_.dest['l']: s_ for s_ in g.sites() if s_.callee and s_.dest and rewrites(s_.callee)}
            makes = [(s_, list(s_.args)) for s_ in g.calls(PATHMAKE)]
            makes += [(Site(g, bi, g.blocks[bi]['t']) if False else None, [op for fld, op in zip(st['rv']['fields'], st['rv']['a']) if fld == 'path'], st) for (bi, si, st) in g.aggregates(r'rip_workspace::CheckpointFile$')]
            for m in makes:
                args = m[1]
                ln = m[0].line if m[0] is not None else m[2].get('ln')
                nm = m[0].name if m[0] is not None else 'CheckpointFile.path'
                n8 += 1
                hit = None
                for a in args:
                    rl = reads_locals(g, a)
                    for l_, s_ in rw_dests.items():
                        if l_ in rl:
                            hit = s_
                ctx.ob('C14.8', g, 'path-text-verbatim:%s' % (nm if isinstance(nm, str) else nm()), hit is None,
                       'the path built here reads no rewritten text' if hit is None else
                       'the path built here is made from the result of %s (line %s), which rewrites the text of the path: a file whose name contains the rewritten characters is checkpointed and restored under a DIFFERENT path than the one the tool edits' % (hit.callee.rsplit('::', 1)[-1], hit.line), line=ln)
    ctx.floor('C14.8', 'path constructions between the tool argument and the checkpoint entry', n8, 10)

    # ---------------------------------------------------------------- C14.9
    ctx.rule('C14.9', 'a checkpoint is taken every time one is asked for: in the workspace-backed CheckpointHook::create every return is dominated by the call of Workspace::create_checkpoint (inlined helpers included) — no path answers with an earlier checkpoint ("nothing changed since") instead of snapshotting the files as they are now; the id announced before an edit must name the state right before that edit.')
    from ..inline import inline_calls, contains
    n9 = 0
    for hp in P.trait_impl_items('rip_tools::runtime::CheckpointHook::create'):
        h = P.fns.get(hp)
        if h is None or not hp.startswith('<ripd::'):
            continue
        h = inline_calls(P, h, lambda body, callee, w_=contains(rx_calls=r'^rip_workspace::Workspace::create_checkpoint$'): callee.startswith('ripd::') and w_(body, callee), depth=2, note=ctx.note)
        ctx.touch(h)
        cc9 = h.calls(r'^rip_workspace::Workspace::create_checkpoint$')
        n9 += 1
        rets = [r_ for r_ in h.returns() if r_ in h.reachable()]
        ok9 = bool(cc9) and all(any(h.dom(c_.bb, r_) for c_ in cc9) for r_ in rets)
        ctx.ob('C14.9', h, 'every-request-snapshots', ok9,
               'every return of the hook is dominated by Workspace::create_checkpoint' if ok9 else
               ('a return of the hook is reachable WITHOUT Workspace::create_checkpoint: the request is answered with something other than a snapshot taken now (a reused / cached checkpoint names an older state — rewinding to it does not restore the bytes the file had before this edit)' if cc9 else 'the hook never calls Workspace::create_checkpoint'),
               line=cc9[0].line if cc9 else h.line)
    ctx.floor('C14.9', 'workspace-backed CheckpointHook::create implementations', n9, 1)

    # ---------------------------------------------------------------- C14.10
    from .c05 import tmp_unique_in_workspace
    n10 = tmp_unique_in_workspace(ctx, 'C14.10', 'the automatic checkpoint covers only the path the tool was given, so a rewind cannot bring it back.')
    ctx.floor('C14.10', 'tmp + rename pairs in rip-workspace / rip-tools', n10, 1)

    # ---------------------------------------------------------------- C14.11
    ctx.rule('C14.11', 'what a rewind destroys, its undo record can bring back: the undo map of rewind_to_checkpoint holds, per covered path, the previous bytes of a file or "absent" — '
             'so the only destructive file-system calls reachable from it inside rip_workspace are fs::write and fs::remove_file (plus create_dir_all, which destroys nothing). '
             'A remove_dir_all / rename / set_len / truncating open on the way cannot be rolled back when a later entry fails, and the failed rewind no longer leaves the workspace as it was.')
    from ..effects import site_effects
    ALLOWED11 = r'^std::fs::(write|remove_file|create_dir_all|create_dir)$'
    n11 = 0
    bad11 = []
    for p11 in sorted(P.reach_fns(['rip_workspace::Workspace::rewind_to_checkpoint'])):
        g11 = P.fns.get(p11)
        if g11 is None or g11.crate != 'rip_workspace':
            continue
        for s11 in g11.sites():
            if s11.callee in P.fns or 'FsWrite' not in site_effects(s11):
                continue
            n11 += 1
            if not re.search(ALLOWED11, s11.callee):
                bad11.append((g11, s11))
    ctx.floor('C14.11', 'file-system mutations reachable from rewind_to_checkpoint', n11, 4)
    ctx.ob('C14.11', 'rip_workspace::Workspace::rewind_to_checkpoint', 'destroys-only-what-undo-restores', not bad11,
           ('%d file-system mutations reachable from the rewind, all of them fs::write / remove_file / create_dir_all' % n11) if not bad11 else
           '%s in %s: the undo record (bytes or "absent" per path) cannot restore what this call destroys' % (bad11[0][1].callee, bad11[0][0].path),
           line=bad11[0][1].line if bad11 else 0)
