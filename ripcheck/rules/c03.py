"""C03 — replay fidelity (structural clauses)."""
import re

from .common import run_session_body
from ..core import CheckError, op_const, op_place
from .c01 import ok_edge_of_try, ok_edge_of_test
from ..prov import reads_locals, sources
from . import serde_table

APPEND = r'^rip_log::EventLog::append$'
BEST_EFFORT = r'^ripd::continuity_stream_cache::ContinuityStreamCache::append_best_effort$'
SEND = r'^tokio::sync::broadcast::Sender::send$'
PUSH = r'^alloc::vec::Vec::push$'


def emitters(P):
    out = []
    for s in P.callers(APPEND):
        out.append(s)
    return out


def run(ctx):
    P = ctx.prog
    ctx.not_decided = 'value-level round trip of arbitrary payload values through serde_json (trusted, A1); equality of live and replayed sequences as sequences (follows from C01 + C06 + C03.2, not separately proved).'
    ctx.rule('C03.1', 'writer/reader wire tables agree: variant tags and aliases pairwise distinct; every skip_serializing_if field has default or is Option; no payload field collides with the envelope; no deny_unknown_fields; EventWire writes every field Event reads; no skip / one-sided (de)serialize_with.')
    ctx.rule('C03.2', 'at every emitter the operands of EventLog::append, append_best_effort, broadcast send and buffer push are the same Event local (or its Clone) and that local is never mutated or mutably borrowed after construction.')
    ctx.rule('C03.3', 'the session snapshot is written from the guard of the very buffer the emitters push into.')
    ctx.rule('C03.4', 'Event::stream_kind is a function of the variant only: every Continuity* variant maps to StreamKind::Continuity, every ToolTask* variant to Task; stream_id returns session_id.')

    # ---------------------------------------------------------------- C03.2
    from .common import sidecar_append_rx
    BEST_EFFORT = sidecar_append_rx(P)
    sites = emitters(P)
    ctx.floor('C03.2', 'emitters (EventLog::append call sites)', len(sites), 15)
    for s in sites:
        f = s.fn
        ev = f.root_local(s.args[1], through_calls=(r'::deref$', r'::as_ref$'))
        if ev is None:
            raise CheckError('C03.2: appended event of %s is not a plain local (unrecognised idiom)' % f.path)
        allsibs = f.calls(BEST_EFFORT) + f.calls(SEND, full=r'Sender::<rip_kernel::Event>::send') + f.calls(PUSH, full=r'Vec::<rip_kernel::Event>::push')
        appends_here = [x for x in sites if x.fn is f]
        if len(appends_here) > 1:
            # several frames are emitted by one function: a sibling belongs to the append whose event it carries;
            # a sibling that carries none of the appended events is reported once, with the first append
            others = {f.root_local(x.args[1], through_calls=(r'::deref$', r'::as_ref$')) for x in appends_here if x is not s}
            sibs = [c for c in allsibs if ev in reads_locals(f, c.args[1]) or (s is appends_here[0] and not (reads_locals(f, c.args[1]) & others))]
        else:
            sibs = allsibs
        for c in sibs:
            src = sources(f, c.args[1])
            roots = reads_locals(f, c.args[1])
            ok = ev in roots and not any(x[0] == 'agg' and x[1].startswith('rip_kernel::Event') and x[2] is not None and not _is_def_of(f, ev, x[2]) for x in src)
            ctx.ob('C03.2', f, 'same-event:' + c.name, ok,
                   '%s receives %s' % (c.name, 'the appended event `%s` (or its clone)' % f.lname(ev) if ok else 'a value that is NOT the appended event'), line=c.line)
        # nothing in the sidecar / live stream that is not in the log: a sibling that runs after the
        # log append runs only on its Ok edge
        e = ok_edge_of_test(f, s)
        for c in sibs:
            if not f.can_reach(s.bb, c.bb) or f.can_reach(c.bb, s.bb):
                continue
            dom = e is not None and e[1] is not None and f.edge_dom(e[0], e[1], c.bb)
            ctx.ob('C03.2', f, 'log-first:' + c.name, dom,
                   '%s after EventLog::append %s' % (c.name, 'runs only when the append succeeded' if dom else
                                                     'ALSO runs when the append FAILED: the sidecar / live subscribers get a frame the log does not hold'), line=c.line)
        # no mutation of the event value after construction: neither the appended local nor any
        # Event-typed local the siblings receive (a moved / rebound copy) is assigned through
        # or mutably borrowed
        chain = {ev}
        for c in sibs:
            r = f.root_local(c.args[1], through_calls=(r'Clone>::clone$', r'::clone$', r'::deref$', r'::as_ref$'))
            if r is not None:
                chain.add(r)
        chain = {l for l in chain if 'rip_kernel::Event' in f.lty(l)}
        muts = []
        for l in chain:
            muts += [(d[4], f.lname(l)) for d in f.proj_defs(l)]
            for bi in f.reachable():
                for st in f.blocks[bi]['s']:
                    rv = st.get('rv')
                    if rv and rv['k'] == 'ref' and rv.get('mut') and rv['pl']['l'] == l:
                        muts.append((st.get('ln', 0), f.lname(l)))
        ctx.ob('C03.2', f, 'event-immutable', not muts,
               'the emitted event (%s) is %s' % (', '.join(sorted(f.lname(l) for l in chain)), 'never assigned through or mutably borrowed' if not muts else
                                                'modified after construction (`%s`, line %s): log, sidecar and live stream no longer carry the same frame' % (muts[0][1], muts[0][0])), line=s.line)

    # ---------------------------------------------------------------- C03.3
    rs = run_session_body(P)
    snaps = rs.calls(r'^rip_log::write_snapshot$')
    ctx.floor('C03.3', 'write_snapshot in run_session', len(snaps), 1)
    emits = rs.calls(r'^ripd::session::emit_event$|^ripd::session::emit_events$')
    ctx.floor('C03.3', 'emit_event(s) calls in run_session', len(emits), 2)
    bufs = set()
    for e in emits:
        # parameter order: (event(s), sender, buffer, event_log)
        l = rs.root_local(e.args[2], through_calls=(r'::deref$',))
        bufs.add(l)
    for sn in snaps:
        roots = reads_locals(rs, sn.args[2])
        ok = len(bufs) == 1 and None not in bufs and next(iter(bufs)) in roots
        ctx.ob('C03.3', rs, 'snapshot-from-emit-buffer', ok,
               'write_snapshot reads %s' % ('the guard of `%s`, the buffer every emit pushes into' % rs.lname(next(iter(bufs))) if ok else 'something other than the single emit buffer'), line=sn.line)
    # the task engine: finalize snapshot
    for f in P.find_fns(r'^ripd::tasks::'):
        for sn in f.calls(r'^rip_log::write_snapshot$'):
            roots = reads_locals(f, sn.args[2])
            names = {f.lname(l) for l in roots}
            tys = {f.lty(l) for l in roots}
            ok = any('tokio::sync::mutex::MutexGuard' in t and 'rip_kernel::Event' in t for t in tys)
            ctx.ob('C03.3', f, 'task-snapshot-from-buffer', ok, 'task snapshot is written from a guard of the recorded-frames buffer', line=sn.line)

    # ---------------------------------------------------------------- C03.4
    sk = P.fn('rip_kernel::Event::stream_kind')
    adt = P.adts.get('rip_kernel::EventKind')
    if adt is None:
        raise CheckError('C03.4: ADT rip_kernel::EventKind missing')
    variants = [v['name'] for v in adt['variants']]
    mapping = {}
    sw = [b for b in sorted(sk.reachable()) if sk.blocks[b]['t']['k'] == 'switch']
    if len(sw) != 1:
        raise CheckError('C03.4: stream_kind is expected to be one match on the variant (found %d switches)' % len(sw))
    t = sk.blocks[sw[0]]['t']
    src = sources(sk, t['on'])

    def kind_of(b, depth=0):
        seen = set()
        while b not in seen and depth < 50:
            seen.add(b)
            for st in sk.blocks[b]['s']:
                rv = st.get('rv')
                if rv and rv['k'] == 'agg' and rv.get('adt') == 'rip_kernel::StreamKind':
                    return rv['variant']
            su = sk.succs(b)
            if len(su) != 1:
                return None
            b = su[0]
            depth += 1
        return None
    for v, tb in t['ts']:
        mapping[int(v)] = kind_of(tb)
    default = kind_of(t['else'])
    ctx.floor('C03.4', 'EventKind variants', len(variants), 38)
    for i, name in enumerate(variants):
        got = mapping.get(i, default)
        want = 'Continuity' if name.startswith('Continuity') else 'Task' if name.startswith('ToolTask') else None
        if want is None:
            continue
        ctx.ob('C03.4', sk, 'variant-stream:' + name, got == want, 'EventKind::%s is filed under StreamKind::%s (expected %s)' % (name, got, want))
    sid = P.fn('rip_kernel::Event::stream_id')
    flds = set()
    for bi in sid.reachable():
        for st in sid.blocks[bi]['s']:
            rv = st.get('rv')
            if rv and 'pl' in rv:
                for p in rv['pl'].get('p', []):
                    if isinstance(p, dict) and 'n' in p:
                        flds.add(p['n'])
    ctx.ob('C03.4', sid, 'stream-id-is-session-id', flds == {'session_id'}, 'stream_id reads field(s) %s' % sorted(flds))

    c035(ctx)
    c036(ctx)
    c037(ctx)
    from .c05 import tmp_private
    tmp_private(ctx, 'C03.8')
    # ---------------------------------------------------------------- C03.1
    serde_table.check(ctx)


def _is_def_of(f, local, bb):
    return any(d[0] == bb for d in f.defs(local))


def c035(ctx):
    """the full sidecar mirrors EVERY continuity frame: in append_best_effort the only ways
    around the line write are the stream-kind test and I/O faults, never the frame's content."""
    from ..core import switches
    from ..prov import fields_read
    P = ctx.prog
    ctx.rule('C03.5', 'the per-thread sidecar mirrors every continuity frame: in ContinuityStreamCache::append_best_effort no branch on the frame\'s own fields (kind, seq, id, ...) can bypass the line write; the only early exits are the stream-kind test and I/O failures. The same holds for the truth append: EventLog::append has no branch on the event at all.')
    from .common import sidecar_appenders
    from ..inline import inline_calls, contains
    for ap_ in sidecar_appenders(P):
        _c035_one(ctx, inline_calls(P, P.fn(ap_), lambda body, callee, w_=contains(rx_calls=r'std::io::Write>::write_all$'): callee.startswith('ripd::continuity_stream_cache::') and w_(body, callee), depth=2, note=ctx.note))
    from .common import log_append_body
    app = log_append_body(P)
    sw_on_event = []
    evp = [i for i in range(1, app.argc + 1) if 'rip_kernel::Event' in (app.lty(i) or '')]
    for (bi, on, ts, els) in switches(app):
        if fields_read(app, on, 'rip_kernel::Event'):
            sw_on_event.append(bi)
            continue
        # a test of something computed from the frame (its serialised length, a prefix, ...) is a content filter as well;
        # the `?` on the serialiser / writer calls themselves (a discriminant of a call result) is not
        o = app.origin(on)
        if o[0] == 'rv' and o[1]['k'] == 'discr':
            continue
        if evp and any(e_ in reads_locals(app, on) for e_ in evp) and not (o[0] == 'call' and re.search(r'Try>::branch$', o[1].callee or '')):
            sw_on_event.append(bi)
    ctx.ob('C03.5', app, 'truth-append-unconditional', not sw_on_event, 'EventLog::append has %d branch(es) on the event' % len(sw_on_event), line=app.line)


def _c035_one(ctx, f):
    from ..core import switches
    from ..prov import fields_read
    P = ctx.prog
    ctx.touch(f)
    writes = f.calls(r'std::io::Write>::write_all$')
    if not writes:
        raise CheckError('C03.5: %s has no write_all' % f.path)
    w0 = [w for w in writes if all(f.dom(w.bb, x.bb) for x in writes)]
    w0 = w0[0] if w0 else writes[0]
    rets = f.returns()
    n = 0
    bad = []
    for (bi, on, ts, els) in switches(f):
        if not f.can_reach(bi, w0.bb):
            continue
        flds = fields_read(f, on, 'rip_kernel::Event')
        src = sources(f, on)
        via_kind_call = any(x[0] == 'call' and x[1].endswith('Event::stream_kind') for x in src)
        if not flds:
            continue
        n += 1
        if via_kind_call and not flds:
            continue
        for tgt in set(list(ts.values()) + [els]):
            if not f.must_pass([w0.bb], tgt, rets):
                bad.append((bi, sorted(flds)))
    ctx.ob('C03.5', f, 'no-content-filter-before-write', not bad,
           '%d branch(es) on the frame precede the sidecar write; %s' % (n, 'none of them (other than the stream-kind test) can bypass the write' if not bad else
                                                                          'a branch on Event.%s can skip the write: such frames are in the log but never in the sidecar' % bad[0][1]), line=w0.line)


LOSSY = r'::from_utf8_lossy$|::from_utf8_unchecked$|::from_utf16_lossy$|::from_utf8_lossy_owned$'
PARSE = r'^serde_json::de::from_(str|slice|reader)$'
# only text / byte buffers (and iterators over them) carry the label: once text sits inside a typed frame it is content
TEXTY = r'\bstr\b|String|u8|Cow<|Lines|Split|Chars|Bytes|Utf8'
# storage boundaries: what is written is the frame's content (round-tripped faithfully whatever it holds);
# the rule is about the DECODING on the way back, so taint does not travel through files / handles
STORAGE = r'^std::fs::|File::open$|File::create$|OpenOptions::open$|::metadata$|std::io::Write>::|^rip_log::EventLog::append$|^rip_log::write_snapshot$|ContinuityStreamCache::append_best_effort$|^serde_json::ser::to_writer|broadcast::Sender::<T>::send$'


def c036(ctx):
    """frames are decoded strictly: the text / bytes handed to an Event parse never derive from a
    lossy decoder (which replaces a split or invalid multi-byte sequence by U+FFFD and so alters a
    string field on read-back)."""
    from ..taint import Taint
    P = ctx.prog
    ctx.rule('C03.6', 'strict decoding on every frame read path (log replay, snapshot, sidecars): the argument of each serde_json parse of an Event (from_str / from_slice / from_reader) in rip-log and ripd carries no data produced by from_utf8_lossy / from_utf16_lossy / from_utf8_unchecked (interprocedural taint, including text accumulated through &mut receivers and handed to a parse helper).')
    scope = lambda fn: fn.crate in ('rip_log', 'ripd')
    nsrc = [0]

    def source_call(site):
        if re.search(LOSSY, site.callee):
            nsrc[0] += 1
            return 'lossy'
        return None
    # opening / reading a file at a path does not make the file's content derive from the path
    T = Taint(P, lambda o, n: None, source_call=source_call, scope=scope,
              no_propagate=lambda site: bool(re.search(STORAGE, site.callee)),
              clean_type=lambda ty: not re.search(TEXTY, ty))
    T.run()
    sinks = []
    for p, f in sorted(P.fns.items()):
        if not scope(f):
            continue
        for s_ in f.sites():
            if re.search(PARSE, s_.callee) and 'rip_kernel::Event' in s_.full:
                sinks.append((f, s_))
    ctx.floor('C03.6', 'Event parse sites in rip-log / ripd', len(sinks), 7)
    ctx.floor('C03.6', 'lossy decoder call sites seen by the taint engine (engine alive)', nsrc[0], 1)
    for f, s_ in sinks:
        lab = T.tainted(f, s_.args[0])
        ctx.ob('C03.6', f, 'strict-decode:' + s_.name, not lab,
               'the input of %s::<Event> %s' % (s_.name, 'does not derive from a lossy decoder' if not lab else
                                                'DERIVES FROM A LOSSY DECODER: a multi-byte character split by a read boundary (or an invalid byte) comes back as U+FFFD — the replayed frame differs from the one written'), line=s_.line)


def c037(ctx, rid='C03.7'):
    """the recorded-frames buffers (session, task) are what the per-session snapshot and the
    catch-up replay are written from: they only grow."""
    P = ctx.prog
    ctx.rule(rid, 'recorded history only grows: no shrinking operation (drain / truncate / clear / remove / pop / retain / split_off / swap_remove / dedup, mem::take / replace / swap, a whole-buffer assignment) is applied to a Vec<Event> reached through a mutex guard (the session and task history buffers the snapshot and the catch-up replay are written from); a trimmed buffer yields a snapshot without its head while the log and the live stream carried every frame.')
    SHRINK = r'alloc::vec::Vec::<T, A>::(drain|truncate|clear|remove|pop|retain|retain_mut|split_off|swap_remove|dedup\w*)$|^core::mem::(take|replace|swap)$'
    GROW = r'alloc::vec::Vec::<T, A>::(push|extend|extend_from_slice|append)$'
    DER = (r'::deref_mut$', r'::deref$', r'::as_mut$')
    grows, shrinks = [], []
    for p, f in sorted(P.fns.items()):
        if f.crate not in ('ripd', 'rip_log', 'rip_kernel'):
            continue
        for s_ in f.sites():
            if ('rip_kernel::Event' not in (s_.full or '') and not any('rip_kernel::Event' in x for x in s_.ga)) or not s_.args:
                continue
            kind = 'shrink' if re.search(SHRINK, s_.callee) else ('grow' if re.search(GROW, s_.callee) else None)
            if kind is None:
                continue
            r = f.root_local(s_.args[0], through_calls=DER)
            if r is None or not re.search(r'MutexGuard<.*alloc::vec::Vec<rip_kernel::Event>>', f.lty(r)):
                continue
            (shrinks if kind == 'shrink' else grows).append((f, s_))
        # `*guard = other`: the buffer is replaced wholesale (MIR: an assignment through the &mut Vec<Event> a guard derefs to)
        for bi in f.reachable():
            blk = f.blocks[bi]
            for st in blk['s']:
                d = st.get('d') or {}
                if d.get('p') == ['*'] and 'rv' in st and re.search(r'^&mut alloc::vec::Vec<rip_kernel::Event>$', f.lty(d['l']) or ''):
                    r = f.root_local({'c': {'l': d['l']}}, through_calls=DER)
                    if r is not None and re.search(r'MutexGuard<.*alloc::vec::Vec<rip_kernel::Event>>', f.lty(r) or ''):
                        shrinks.append((f, type('A', (), {'name': 'a whole-buffer assignment', 'line': st.get('ln')})()))
    ctx.floor(rid, 'pushes into a guarded history buffer (the buffers the rule protects)', len(grows), 2)
    for f, s_ in grows:
        ctx.touch(f)
    ctx.ob(rid, 'workspace', 'history-append-only', not shrinks,
           '%d push site(s) into guarded Vec<Event> buffers; %s' % (len(grows), 'no shrinking operation on any of them' if not shrinks else
                                                                    '%s applies %s to the history buffer: the snapshot written from it loses frames the log and the subscribers have' % (shrinks[0][0].path, shrinks[0][1].name)),
           line=shrinks[0][1].line if shrinks else 0)

    # ---------------------------------------------------------------- C03.9
    ctx.rule('C03.9', 'nothing is streamed that is not logged: every send of a frame (rip_kernel::Event) on a broadcast channel in ripd sits in a function that also appends to the event log '
             '(directly, or through a private helper of the module that reaches EventLog::append) — the audited emitters of C03.2 / C06.1. A frame sent straight to a session\'s channel '
             '(a synthetic "cancelled" notice) is seen by attached clients and by no replay, snapshot or sidecar.')
    n9 = 0
    for g in [x for x in P.fns.values() if x.crate == 'ripd']:
        for s_ in g.calls(r'^tokio::sync::broadcast::Sender::<T>::send$'):
            if 'rip_kernel::Event' not in (s_.full or ''):
                continue
            n9 += 1
            direct = bool(g.calls(r'EventLog::append$'))
            via = (not direct) and 'rip_log::EventLog::append' in P.reach_fns([g.path])
            ctx.ob('C03.9', g, 'streamed-is-logged', direct or via, 'a frame is sent on a broadcast channel here; the same function %s' % (
                'appends to the event log' if direct else 'reaches EventLog::append through a helper' if via else
                'NEVER appends to the event log: the frame exists for live subscribers only'), line=s_.line)
    ctx.floor('C03.9', 'broadcast sends of frames in ripd', n9, 15)
