"""C06 — a subscriber sees every frame exactly once (structural clauses)."""
import re

from ..core import CheckError, op_place, place_fields
from ..prov import reads_locals

SEND = r'^tokio::sync::broadcast::Sender::send$'
PUSH = r'^alloc::vec::Vec::push$'


def inl_abs(absorbed):
    return absorbed


def run(ctx):
    P = ctx.prog
    ctx.not_decided = 'broadcast-channel overflow for a subscriber stalled for more than the channel capacity (a slow-consumer fault, outside the stated quantifier).'
    ctx.rule('C06.1', 'record before publish: in every function that both pushes a frame into a history buffer (Vec<Event>) and sends it on a broadcast channel, the push dominates the send (handlers subscribe first and snapshot second, so a frame published before it is recorded can fall between the two).')
    ctx.rule('C06.2', 'subscribe before snapshot: in every stream handler the subscribe call dominates the history snapshot / replay call.')
    ctx.rule('C06.3', 'the live stream of each handler drops frames by comparing event.seq with the last history seq (the thread handler also compares the stream id), and history is chained before live.')

    # ---------------------------------------------------------------- C06.1
    n = 0
    for p, f in sorted(P.fns.items()):
        if f.crate != 'ripd':
            continue
        pushes = f.calls(PUSH, full=r'Vec::<rip_kernel::Event>::push')
        sends = f.calls(SEND, full=r'Sender::<rip_kernel::Event>::send')
        if not pushes or not sends:
            continue
        n += 1
        for s in sends:
            ok = any(f.dom(pu.bb, s.bb) for pu in pushes)
            ctx.ob('C06.1', f, 'record-before-publish', ok,
                   'send %s' % ('is dominated by the buffer push' if ok else 'happens BEFORE the frame is pushed into the history buffer: a subscriber that subscribes and snapshots between the two never receives this frame'), line=s.line)
    ctx.floor('C06.1', 'buffer emitters', n, 2)
    # what was recorded is published, unconditionally: a frame that is in the history buffer but was never sent (because
    # a later step — the log append — failed) reaches subscribers that attach later but not the ones already attached
    for p, f in sorted(P.fns.items()):
        if f.crate != 'ripd':
            continue
        pushes = f.calls(PUSH, full=r'Vec::<rip_kernel::Event>::push')
        sends = f.calls(SEND, full=r'Sender::<rip_kernel::Event>::send')
        if not pushes or not sends:
            continue
        for pu in pushes:
            ok = f.must_pass([s_.bb for s_ in sends], pu.bb, f.returns())
            ctx.ob('C06.1', f, 'recorded-frames-are-published', ok, 'after the frame was pushed into the history buffer %s' % ('every path to the return passes the broadcast send' if ok else
                   'a path to the return SKIPS the broadcast send (publication made conditional): attached subscribers miss a frame the history replays to later ones'), line=pu.line)

    # ---------------------------------------------------------------- C06.4
    ctx.rule('C06.5', 'the thread handler\'s live filter is only ever steered by its own stream: any state the filter closures keep from one broadcast frame to the next (writes through the closure environment) is updated only behind the comparison of Event.session_id with the thread id — the channel is store-wide, so a cursor advanced by a foreign frame hides this thread\'s next frames.')
    ctx.rule('C06.4', 'publish in seq order: every broadcast of a thread frame in ContinuityStore happens inside the live range of the next_seq guard that numbered it (a frame published after the guard was released can be overtaken by a later seq, and a live subscriber sees them out of order).')
    from .c01 import SEQ_GUARD, STORE
    nsend = 0
    for p, f in sorted(P.fns.items()):
        if not p.startswith(STORE):
            continue
        for s in f.calls(SEND, full=r'Sender::<rip_kernel::Event>::send'):
            nsend += 1
            held = f.held_at(s.bb, SEQ_GUARD)
            if not held:
                # a private helper that publishes on behalf of a caller holding the guard
                lifted = P.lift_sites([s], lambda g: bool(g.guard_ranges(SEQ_GUARD)), depth=2)
                held = all(x.fn.held_at(x.bb, SEQ_GUARD) for x in lifted) and lifted and lifted[0] is not s
            ctx.ob('C06.4', f, 'publish-under-seq-guard', bool(held), 'broadcast send %s the next_seq guard' % ('inside the live range of' if held else 'OUTSIDE'), line=s.line)
    ctx.floor('C06.4', 'broadcast sends in ContinuityStore', nsend, 13)

    # ---------------------------------------------------------------- C06.2 / C06.3
    handlers = []
    # a "subscribe, snapshot, chain" preparation extracted into a private helper of server.rs is spliced into the
    # handler that calls it, so the order of effects is read where it happens
    from ..inline import inline_calls, contains
    w = contains(rx_calls=r'::subscribe$|::events_snapshot$|ContinuityStore::replay_events$|StreamExt::chain$')
    inl = {}
    absorbed = set()
    for p, f in sorted(P.fns.items()):
        if not p.startswith('ripd::server::'):
            continue
        # helpers of the server module, and accessors of the handles (`handle.replay()`), that subscribe / snapshot
        g = inline_calls(P, f, lambda body, callee: (callee.startswith('ripd::server::') or re.search(r'^ripd::(tasks|runner|session)::\w+Handle::', callee) is not None) and not re.search(r'::(subscribe|events_snapshot)$', callee) and w(body, callee), depth=2, note=ctx.note)
        inl[p] = g
        absorbed |= set(getattr(g, 'inlined_bodies', ()))
    for p, f in sorted(inl.items()):
        if p in absorbed:
            continue
        subs = f.calls(r'::subscribe$')
        snaps = f.calls(r'::events_snapshot$|ContinuityStore::replay_events$')
        # a stream handler is recognised by what it serves (an SSE response built from a history snapshot), not by
        # the subscribe call the rule is about: a subscribe moved into a lazily polled stream / closure leaves
        # `subs` empty here and must fail the rule, not drop the handler from the list
        serves = f.calls(r'axum::response::sse::Sse::<S>::new$|sse::Sse::new$')
        if snaps and (subs or serves):
            handlers.append((f, subs, snaps))
    ctx.floor('C06.2', 'stream handlers', len(handlers), 3)
    ctx.rule('C06.6', 'one cut: after subscribing, a stream handler looks at the emitter\'s shared state exactly once — the history snapshot. No second lock / atomic read of the handle (a seq counter, a status cell) feeds the stream it builds: a bound read in a second critical section is later than the snapshot, and a frame emitted between the two is in neither history nor live.')
    LOCKS = r'sync::(mutex::)?Mutex::<T>::lock$|sync::(rwlock::)?RwLock::<T>::(read|write)$|sync::poison::(mutex::Mutex|rwlock::RwLock)::<T>::(lock|read|write)$|atomic::Atomic\w+::load$'
    for f, subs, snaps in handlers:
        if subs:
            after_sub = set()
            for su in subs:
                after_sub |= f.reach_from_after(su.bb)
            locks = [s_ for s_ in f.sites() if re.search(LOCKS, s_.callee or '') and s_.bb in after_sub]
            cuts = [sn for sn in snaps if sn.bb in after_sub] + locks
            ok6 = len(cuts) <= 1
            ctx.ob('C06.6', f, 'single-cut', ok6,
                   'after subscribing the handler looks at shared state once (%s)' % ', '.join(x.name for x in cuts) if ok6 else
                   'after subscribing the handler reads shared state in %d separate critical sections (%s, lines %s): whatever the later one yields (a next-seq bound, a status) is newer than the history snapshot — a frame emitted in between is dropped by the live filter and missing from history' % (
                       len(cuts), ', '.join(x.name for x in cuts), [x.line for x in cuts]), line=cuts[-1].line if cuts else f.line)
    for f, subs, snaps in handlers:
        for sn in snaps:
            ok = any(f.dom(su.bb, sn.bb) and su.bb != sn.bb for su in subs)
            ctx.ob('C06.2', f, 'subscribe-before-snapshot', ok,
                   '%s %s' % (sn.name, 'is dominated by subscribe' if ok else ('can run BEFORE subscribe: frames emitted in between are lost' if subs else 'runs and NO subscribe precedes it in the handler body (the live receiver is opened later, inside a lazily polled stream): frames emitted in between reach the client from neither history nor live')), line=sn.line)
        # C06.3: chain order
        chains = f.calls(r'StreamExt::chain$|::chain$')
        if not chains:
            ctx.ob('C06.3', f, 'history-then-live', False, 'no chain(history, live) call found in the handler', line=f.line)
        for c in chains:
            a0 = reads_locals(f, c.args[0])
            a1 = reads_locals(f, c.args[1])
            snap_l = {sn.dest['l'] for sn in snaps}
            sub_l = {su.dest['l'] for su in subs}
            ok = bool(a0 & snap_l) and bool(a1 & sub_l) and not (a0 & sub_l)
            ctx.ob('C06.3', f, 'history-then-live', ok, 'chain receiver derives from the snapshot and its argument from the receiver: %s' % ok, line=c.line)
        # seq filter somewhere in the handler's closures
        base = f.path.split('::{closure')[0]
        fam = [g for g in P.family(base)]
        for hb in sorted(getattr(f, 'inlined_bodies', ())):
            fam += [g for g in P.family(hb.split('::{closure')[0]) if g not in fam]
        # named predicates of the module the filter closures delegate to (`keep_live_frame(event, id, last)`)
        for _depth in (1, 2):
            for g in list(fam):
                for s_ in g.sites():
                    c_ = s_.callee or ''
                    if c_.startswith('ripd::server::') and c_ in P.fns and '{closure' not in c_ and c_ not in inl_abs(absorbed) and P.fns[c_] not in fam \
                            and any('rip_kernel::Event' in (P.fns[c_].lty(i_) or '') for i_ in range(1, P.fns[c_].argc + 1)):
                        fam += [x for x in P.family(c_) if x not in fam]
        seqcmp = []
        idcmp = []
        for g in fam:
            ctx.touch(g)
            for bi in g.reachable():
                for st in g.blocks[bi]['s']:
                    rv = st.get('rv')
                    if rv and rv['k'] == 'bin' and rv['op'] in ('Le', 'Lt', 'Ge', 'Gt'):
                        for side, o in enumerate(rv['a']):
                            src = g.origin(o)
                            if src[0] == 'local' and any(isinstance(pp, dict) and pp.get('n') == 'seq' and pp.get('o') == 'rip_kernel::Event' for pp in src[2]):
                                seqcmp.append((g, st.get('ln'), rv['op'], side))
                    # a closure capturing &event.seq whose body compares its upvar
                    if rv and rv['k'] == 'agg' and rv.get('ak') == 'closure':
                        cap = False
                        for o in rv['a']:
                            src = g.origin(o)
                            if src[0] == 'local' and any(isinstance(pp, dict) and pp.get('n') == 'seq' and pp.get('o') == 'rip_kernel::Event' for pp in src[2]):
                                cap = True
                        inner = P.fns.get(rv['def'])
                        if cap and inner is not None:
                            for b2 in inner.reachable():
                                for s2 in inner.blocks[b2]['s']:
                                    r2 = s2.get('rv')
                                    if r2 and r2['k'] == 'bin' and r2['op'] in ('Le', 'Lt', 'Ge', 'Gt'):
                                        for side, o2 in enumerate(r2['a']):
                                            if inner.origin(o2)[0] == 'local' and inner.origin(o2)[1] == 1:
                                                seqcmp.append((inner, s2.get('ln'), r2['op'], side))
            for c in g.calls(r'PartialEq(::|.*>::)(ne|eq)$'):
                for a in c.args:
                    src = g.origin(a)
                    if src[0] == 'local' and any(isinstance(pp, dict) and pp.get('n') == 'session_id' and pp.get('o') == 'rip_kernel::Event' for pp in src[2]):
                        idcmp.append((g, c.line))
        ctx.ob('C06.3', f, 'seq-filter', bool(seqcmp), 'live frames are filtered by comparing Event.seq with the last history seq: %s' % (bool(seqcmp)), line=seqcmp[0][1] if seqcmp else f.line)
        for (g2, ln, op, side) in seqcmp:
            # the boundary frame (seq == last history seq) is in the history and must not come again:
            # the test must separate `seq <= last` from `seq > last`
            good = op in (('Le', 'Gt') if side == 0 else ('Ge', 'Lt'))
            ctx.ob('C06.3', f, 'seq-filter-boundary', good, 'the filter compares event.seq %s last (%s)' % (
                {'Le': '<=', 'Lt': '<', 'Ge': '>=', 'Gt': '>'}[op] if side == 0 else {'Le': '>=', 'Lt': '>', 'Ge': '<=', 'Gt': '<'}[op],
                'the frame with seq == last is treated as already delivered' if good else 'OFF BY ONE: the frame with seq == last history seq is on the wrong side — it is delivered twice (or the first live frame is lost)'), line=ln)
        if any(re.search(r'ContinuityStore::replay_events$', sn.callee) for sn in snaps):
            ctx.ob('C06.3', f, 'stream-id-filter', bool(idcmp), 'the thread handler compares Event.session_id with the thread id: %s' % bool(idcmp), line=idcmp[0][1] if idcmp else f.line)
            # C06.5: the broadcast channel of the thread handler carries the frames of every stream of the store; whatever the
            # live filter remembers from one frame to the next (a cursor, a counter: a write through the closure environment,
            # which outlives the call) may only be updated by a frame that already passed the stream-id comparison
            cor = set(P.coroutines())
            nst = 0
            for g in fam:
                if '{closure' not in g.path or g.path in cor:
                    continue
                idb = [c_.bb for c_ in g.calls(r'PartialEq(::|.*>::)(ne|eq)$') if any((lambda src: src[0] == 'local' and any(isinstance(pp, dict) and pp.get('n') == 'session_id' and pp.get('o') == 'rip_kernel::Event' for pp in src[2]))(g.origin(a)) for a in c_.args)]
                for bi in sorted(g.reachable()):
                    if g.is_cleanup(bi):
                        continue
                    for st in g.blocks[bi]['s']:
                        d = st.get('d') or {}
                        if d.get('l') == 1 and d.get('p') and 'rv' in st:
                            nst += 1
                            okst = any(g.dom(b_, bi) and b_ != bi for b_ in idb)
                            ctx.ob('C06.5', g, 'filter-state-only-from-own-frames', okst,
                                   'state the live filter keeps between frames is written %s' % ('only after the stream-id comparison' if okst else
                                   'BEFORE / WITHOUT the stream-id comparison: frames of other threads on the shared channel move it, and this thread\'s own later frames (lower seq) are then dropped or repeated'), line=st.get('ln'))
            ctx.ob('C06.5', f, 'filter-state-scanned', True, 'the live filter of the thread handler keeps %d piece(s) of state between frames' % nst, line=f.line)
    # what a late subscriber is caught up from — the guarded history buffers — only grows (C03.7 under this property's id):
    # a buffer that is emptied, even for a moment, hands a subscriber that attaches right then no history at all
    from .c03 import c037
    c037(ctx, rid='C06.7')
