"""C04 — caches are transparent (structural clauses): termination of every bounded tail-window
loop, idempotent retries, a cache miss never becomes the answer, validators on the path."""
import re

from ..core import CheckError, Site, op_base, op_const, op_local, op_place, switches
from ..prov import reads_locals, sources

SCAN = r'ContinuityStreamCache::(scan_tail\w*|scan_sidecar_backwards\w*|try_read_last_seq\w*)$|::scan_sidecar_backwards\w*$|::scan_tail\w*$'
CACHE_READ = r'^ripd::continuity_stream_cache::ContinuityStreamCache::'
CACHE_READ_EXCLUDE = r'::(append_best_effort|rebuild_best_effort|new|rebuild_\w+)$'


def const_key(k):
    return k.get('v') if k.get('v') is not None else k.get('def')


def doubling_loops(fn):
    """[(header, body, v_local, C_const, update_block, min_site)] for loops that assign
    v = min(v * k, C) to a loop-carried local."""
    out = []
    mins = fn.calls(r'core::cmp::Ord>::min$|^core::cmp::Ord::min$|core::cmp::impls::<impl core::cmp::Ord for usize>::min$|::min$')
    for s in mins:
        if len(s.args) != 2:
            continue
        C = op_const(s.args[1])
        if C is None or const_key(C) is None:
            continue
        o = fn.origin(s.args[0])
        v = None
        if o[0] == 'rv' and o[1]['k'] == 'bin' and o[1]['op'].startswith('Mul'):
            v = fn.root_local(o[1]['a'][0])
        if v is None:
            continue
        # the min result must be stored back into v
        stored = False
        for (bi, si, kind, payload, ln) in fn.defs(v):
            if kind == 'rv' and payload['k'] == 'use' and op_local(payload['a'][0]) == s.dest['l']:
                stored = True
                upd = bi
            if kind == 'call' and bi == s.bb:
                stored = True
                upd = bi
        if not stored:
            continue
        h = fn.innermost_loop(upd)
        if h is None:
            continue
        # widen to the outermost loop in which v is carried (update inside, v defined outside)
        out.append((h, fn.loops()[h], v, C, upd, s))
    return out


def cmp_at_saturation(op, flipped):
    """truth value of `v OP C` when v == C."""
    t = {'Le': True, 'Lt': False, 'Ge': True, 'Gt': False, 'Eq': True, 'Ne': False}[op]
    if flipped:
        t = {'Le': True, 'Lt': False, 'Ge': True, 'Gt': False, 'Eq': True, 'Ne': False}[{'Le': 'Ge', 'Lt': 'Gt', 'Ge': 'Le', 'Gt': 'Lt', 'Eq': 'Eq', 'Ne': 'Ne'}[op]]
    return t


def saturated_cycle(fn, h, body, v, C, upd):
    """search a cycle header -> update -> header inside the loop under the abstract fact
    v == C, following only the feasible edge of every branch that compares v with C."""
    ck = const_key(C)
    # comparison results: local -> (op, flipped)
    cmps = {}
    for bi in body:
        for st in fn.blocks[bi]['s']:
            rv = st.get('rv')
            if rv and rv['k'] == 'bin' and rv['op'] in ('Le', 'Lt', 'Ge', 'Gt', 'Eq', 'Ne') and 'p' not in st['d']:
                a, b = rv['a']
                ka, kb = op_const(a), op_const(b)
                if kb is not None and const_key(kb) == ck and fn.root_local(a) == v:
                    cmps[st['d']['l']] = (rv['op'], False)
                elif ka is not None and const_key(ka) == ck and fn.root_local(b) == v:
                    cmps[st['d']['l']] = (rv['op'], True)

    def feasible(b):
        t = fn.blocks[b]['t']
        if t['k'] == 'switch':
            l = op_local(t['on'])
            # follow a copy/move of the comparison temp
            if l is not None and l not in cmps:
                d = fn.single_def(l)
                if d and d[2] == 'rv' and d[3]['k'] == 'use' and op_local(d[3]['a'][0]) in cmps:
                    l = op_local(d[3]['a'][0])
            if l in cmps:
                truth = cmp_at_saturation(*cmps[l])
                tgt = None
                for val, tb in t['ts']:
                    if val == '0':
                        tgt_false = tb
                tgt_true = t['else']
                tgt_false = dict((val, tb) for val, tb in t['ts']).get('0', t['else'])
                return [tgt_true if truth else tgt_false]
        return [s for s in fn.succs(b)]
    # reach update from header
    seen = set()
    st = [h]
    path_to_upd = False
    while st:
        b = st.pop()
        if b in seen:
            continue
        seen.add(b)
        if b == upd:
            path_to_upd = True
        for s in feasible(b):
            if s in body and s not in seen:
                st.append(s)
    if not path_to_upd:
        return False, sorted(cmps.values())
    # from update back to header
    seen2 = set()
    st = [upd]
    while st:
        b = st.pop()
        if b in seen2:
            continue
        seen2.add(b)
        for s in feasible(b):
            if s == h:
                return True, sorted(cmps.values())
            if s in body and s not in seen2:
                st.append(s)
    return False, sorted(cmps.values())


def run(ctx):
    P = ctx.prog
    ctx.not_decided = 'equality of fast-path and truth answers for arbitrary histories; which well-formed-but-wrong index states a validator would miss; staleness of a self-consistent sidecar (K-C04-stale).'
    ctx.rule('C04.1', 'every doubling-window loop (v = min(v*k, C) on a loop-carried local that sizes a cache scan) terminates: under the abstract fact v == C no cycle header -> update -> header exists once the branches comparing v with C take their only feasible edge (i.e. a saturation exit precedes the update).')
    ctx.rule('C04.2', 'retries are idempotent: a Vec declared outside a doubling-window loop and pushed inside it is cleared / reassigned in the loop before the push (each enlarged window re-reads the previous one).')
    ctx.rule('C04.3', 'a cache read result (io::Result<Option<_>> of ContinuityStreamCache) in ContinuityStore is never propagated with `?`, unwrapped, or demoted and defaulted (ok/flatten followed by `?`, unwrap_or*); it is matched, and a miss leads to the truth path.')

    # ---------------------------------------------------------------- C04.1 / C04.2
    loops = []
    for f in P.find_fns(r'^ripd::(continuities|continuity_stream_cache|continuity_seek_index|message_ordinal_index|compaction_checkpoint_index)::'):
        ctx.touch(f)
        for (h, body, v, C, upd, s) in doubling_loops(f):
            scans = [c for c in f.calls(SCAN) if c.bb in body and v in reads_locals_args(f, c)]
            if not scans:
                # window-size variables only: the doubled value must size a scan / read in the loop
                other = [c for c in f.sites() if c.bb in body and c.bb != s.bb and v in reads_locals_args(f, c) and not re.search(r'::min$', c.callee)]
                if not other:
                    continue
            loops.append((f, h, body, v, C, upd, s))
    ctx.floor('C04.1', 'doubling-window loops', len(loops), 8)
    for (f, h, body, v, C, upd, s) in loops:
        spins, cmps = saturated_cycle(f, h, body, v, C, upd)
        ctx.ob('C04.1', f, 'window-loop-terminates:' + f.lname(v), not spins,
               'loop at bb%d doubles `%s` up to %s; comparisons with the bound in the loop: %s; %s' % (
                   h, f.lname(v), C.get('def') or C.get('v'), [c[0] for c in cmps],
                   'at saturation every iteration leaves the loop or never reaches the update' if not spins else
                   'at saturation (%s == bound) an iteration can reach the update and come back to the loop head: with an unchanged window the loop never ends' % f.lname(v)),
               line=s.line)
        # C04.2
        for c in f.calls(r'^alloc::vec::Vec::(push|extend|extend_from_slice|append|insert)$|alloc::vec::Vec<T, A> as core::iter::traits::collect::Extend<T>>::extend$'):
            if c.bb not in body:
                continue
            r = f.root_local(c.args[0], through_calls=(r'::deref_mut$', r'::as_mut$'))
            if r is None:
                continue
            ds = f.defs(r)
            if not ds or any(d[0] in body for d in ds):
                continue          # declared / reassigned inside the loop: fresh per iteration
            resets = [x for x in f.calls(r'^alloc::vec::Vec::(clear|truncate|drain)$') if x.bb in body and f.root_local(x.args[0], through_calls=(r'::deref_mut$',)) == r]
            ok = any(f.dom(x.bb, c.bb) for x in resets)
            ctx.ob('C04.2', f, 'idempotent-accumulator:' + f.lname(r), ok,
                   '`%s` is declared outside the window loop and grown inside it; %s' % (f.lname(r), 'it is reset in the loop before the push' if ok else
                                                                                          'nothing resets it before the push, so every enlarged window appends what the previous one already appended'), line=c.line)

    # ---------------------------------------------------------------- C04.3
    n = 0
    for f in P.find_fns(r'^ripd::continuities::ContinuityStore::'):
        for s in f.calls(CACHE_READ):
            if re.search(CACHE_READ_EXCLUDE, s.callee):
                continue
            rty = P.sigs.get(s.callee, {}).get('output', '')
            if not rty.startswith('core::result::Result<core::option::Option<'):
                continue
            n += 1
            chain, verdict = consumption(f, s)
            if verdict is None:
                verdict = none_passed_on(f, s)
            ctx.ob('C04.3', f, 'cache-result:' + s.name, verdict is None,
                   '%s result is consumed by %s%s' % (s.name, ' > '.join(chain) or 'match', '' if verdict is None else ' — ' + verdict), line=s.line)
    ctx.floor('C04.3', 'cache-read calls in ContinuityStore', n, 15)
    # ---------------------------------------------------------------- C04.13 (the same clause one layer down)
    ctx.rule('C04.13', 'inside the cache module a cache read (io::Result<Option<_>> of a sibling method) is matched or propagated, never '
             'unwrapped and never replaced by a default: a window whose head seq falls back to the anchor or to the last frame of the '
             'messages+runs sidecar when the full sidecar is unreadable moves the recorded cut point with the state of the caches '
             '(the second site of the repaired F-C04-headseq).')
    n13 = 0
    for f in P.find_fns(r'^ripd::continuity_stream_cache::'):
        for s in f.calls(CACHE_READ):
            rty = P.sigs.get(s.callee, {}).get('output', '')
            if not rty.startswith('core::result::Result<core::option::Option<'):
                continue
            n13 += 1
            chain, verdict = consumption(f, s)
            bad = verdict is not None and 'propagated with `?`' not in verdict
            ctx.ob('C04.13', f, 'cache-result:' + s.name, not bad,
                   '%s result is consumed by %s%s' % (s.name, ' > '.join(chain) or 'match / return', '' if not bad else ' — ' + verdict), line=s.line)
    ctx.floor('C04.13', 'cache-read calls inside the cache module', n13, 18)
    # ---------------------------------------------------------------- C04.14
    ctx.rule('C04.14', 'a scan answers with every frame it parsed, or says it is not the whole thread: in the cache module no shrinking operation (drain / truncate / retain / remove / '
             'split_off / pop / clear / dedup) is applied to a Vec of parsed frames (rip_kernel::Event) on a path that goes on to build an answer whose `complete` flag is not the constant '
             'false. A tail scan that drops everything before a seq gap and still forwards the reader\'s `complete` passes a suffix off as the whole stream, and its callers skip the truth replay.')
    SHR = r'^alloc::vec::Vec::<T, A>::(drain|truncate|retain|retain_mut|remove|swap_remove|split_off|pop|clear|dedup|dedup_by|dedup_by_key)$|^alloc::collections::vec_deque::VecDeque::<T, A>::(drain|truncate|retain|remove|pop_front|pop_back|clear|split_off)$'
    n14 = 0
    for f in P.find_fns(r'^ripd::continuity_stream_cache::'):
        aggs = [(bi, st) for (bi, si, st) in f.aggregates() if 'complete' in (st['rv'].get('fields') or [])]
        if not aggs:
            continue
        n14 += 1
        hits = []
        for s_ in f.calls(SHR):
            if not re.search(r'rip_kernel::Event\b', s_.full or ''):
                continue
            for (bi, st) in aggs:
                if not (f.can_reach(s_.bb, bi) or s_.bb == bi):
                    continue
                op = st['rv']['a'][st['rv']['fields'].index('complete')]
                k = op_const(op)
                if k is not None and k.get('v') is False:
                    continue
                hits.append(s_)
        ctx.ob('C04.14', f, 'parsed-frames-not-dropped', not hits,
               'builds an answer with a `complete` flag; %s' % ('no parsed frame is dropped on the way' if not hits else
               '%s on the parsed frames (line %s) precedes it and the flag is not forced to false: the answer claims completeness for a stream it cut' % (hits[0].name, hits[0].line)),
               line=hits[0].line if hits else f.line)
    ctx.floor('C04.14', 'cache functions that answer with a completeness flag', n14, 2)
    c0412(ctx)
    c044(ctx)


def c0412(ctx):
    """a cache FAULT is answered from truth, never from another cache."""
    P = ctx.prog
    ctx.rule('C04.12', 'a cache fault is answered from truth, not from another cache: inside the Err arm of a matched cache read of ContinuityStore (the blocks only that edge reaches) no branch is decided by a second cache read unless every way out of it passes a truth read (replay_events / EventLog replay) or an error return. "The checkpoint sidecar is unreadable, but the full sidecar exists, so nothing to do" makes the answer depend on which cache broke.')
    TRUTH = r'ContinuityStore::replay_events$|^rip_log::EventLog::(replay\w*|read\w*)$'
    narms = 0
    for f in P.find_fns(r'^ripd::continuities::ContinuityStore::'):
        reads = [s for s in f.calls(CACHE_READ) if not re.search(CACHE_READ_EXCLUDE, s.callee) and P.sigs.get(s.callee, {}).get('output', '').startswith('core::result::Result<')]
        if not reads:
            continue
        errs = set(_err_blocks_of(f))
        truth_bbs = [c.bb for c in f.calls(TRUTH)]
        for s in reads:
            sw = None
            for (bi, on, ts, els) in switches(f):
                o = f.origin(on)
                if o[0] == 'rv' and o[1]['k'] == 'discr' and op_place({'c': o[1]['pl']}) is not None and o[1]['pl'].get('l') == s.dest['l'] and not o[1]['pl'].get('p'):
                    sw = (bi, ts, els)
            if sw is None:
                continue
            bi, ts, els = sw
            err_t = ts.get('1', els)
            if err_t is None:
                continue
            # the arm: what the Err target dominates (an or-pattern `Ok(None) | Err(_)` shares the target with the miss
            # arm — still the code a fault runs). An empty arm, whose target is the join after the match, is no arm.
            others = {x for x in f.succs(bi) if x != err_t}
            ok_t = ts.get('0')
            if ok_t is not None and f.blocks[ok_t]['t']['k'] == 'switch' and not [st_ for st_ in f.blocks[ok_t]['s'] if 'rv' in st_ and st_['rv'].get('k') != 'discr']:
                # the nested test of the same match (`Ok(Some(_))` vs `Ok(None)`): its arms count, not the test block
                others.discard(ok_t)
                others |= {x for x in f.succs(ok_t) if x != err_t}
            others = {x for x in others if f.blocks[x]['t']['k'] != 'unreachable'}
            h_ = f.innermost_loop(bi)
            if any(err_t in f.reach([x], stop=((h_,) if h_ is not None else ())) for x in others):
                continue
            region = {b for b in f.reachable() if f.dom(err_t, b)}
            if not region:
                continue
            narms += 1
            ctx.touch(f)
            # a second look at a cache AFTER truth was read inside the arm (replay rebuilds the caches) is a retry, not a decision
            inner = [c for c in reads if c.bb in region and c is not s and not any(t_ in region and f.dom(t_, c.bb) for t_ in truth_bbs)]
            bad = None
            for (b2, on2, ts2, els2) in switches(f):
                if b2 not in region:
                    continue
                rl = reads_locals(f, on2)
                dec = [c for c in inner if c.dest['l'] in rl]
                if not dec:
                    continue
                # the way out of the arm: the first blocks outside the region
                exits = {x for b in region for x in f.succs(b) if x not in region}
                for tgt in set(list(ts2.values()) + [els2]):
                    if tgt is None:
                        continue
                    if tgt in exits or (tgt in region and not f.must_pass(truth_bbs + list(errs), tgt, list(exits))):
                        if tgt in exits and tgt in truth_bbs:
                            continue
                        bad = (dec[0], b2)
            ctx.ob('C04.12', f, 'fault-answered-from-truth:' + s.name, bad is None,
                   'the Err arm of %s consults no other cache on its way to the truth read' % s.name if bad is None else
                   'inside the Err arm of %s the result of %s (line %s) decides whether truth is read at all: with that cache intact and this one torn, the answer comes from neither truth nor a valid cache' % (s.name, bad[0].name, bad[0].line), line=s.line)
    ctx.floor('C04.12', 'Err arms of matched cache reads in ContinuityStore', narms, 3)


def _err_blocks_of(f):
    out = [bi for (bi, si, st) in f.aggregates(r'^core::result::Result$', 'Err')]
    out += [c.bb for c in f.calls(r'FromResidual<.*>>::from_residual$')]
    return out


def reads_locals_args(f, site):
    out = set()
    for a in site.args:
        out |= reads_locals(f, a)
    return out


def none_passed_on(f, site):
    """the Ok payload of a matched cache read (an Option) handed on whole — returned or stored without ever being tested:
    the cache's `Ok(None)` ("I have nothing") becomes the answer "there is none"."""
    D = site.dest['l']
    for (bi, si, how, payload) in f.uses(D):
        if how != 'stmt':
            continue
        rv = payload.get('rv') or {}
        if rv.get('k') != 'use':
            continue
        pl = op_place(rv['a'][0]) or {}
        pr = pl.get('p', [])
        if pl.get('l') != D or not pr or not (isinstance(pr[0], dict) and pr[0].get('dc') == 'Ok'):
            continue
        X = payload['d']['l']
        if not re.match(r'^core::option::Option<', f.lty(X) or ''):
            continue
        tested = False
        work, seen_ = [X], set()
        flows_out = False
        while work:
            l = work.pop()
            if l in seen_:
                continue
            seen_.add(l)
            for (b2, s2, how2, pay2) in f.uses(l):
                if how2 == 'switch':
                    tested = True
                elif how2 == 'stmt':
                    r2 = pay2.get('rv') or {}
                    if r2.get('k') == 'discr':
                        tested = True
                    elif r2.get('k') in ('use', 'ref') and not (pay2['d'].get('p')):
                        work.append(pay2['d']['l'])
                    elif r2.get('k') == 'agg' and r2.get('variant') == 'Ok':
                        flows_out = True
                elif isinstance(how2, str) and how2.startswith('arg'):
                    s3 = Site(f, b2, pay2)
                    if s3.name in ('is_some', 'is_none', 'map', 'and_then', 'ok_or', 'ok_or_else', 'unwrap_or', 'unwrap_or_else', 'unwrap_or_default', 'filter', 'or_else', 'or', 'as_ref', 'as_deref', 'is_some_and'):
                        tested = True
        if flows_out and not tested:
            return 'the Ok payload (an Option) is handed on as the answer without being tested: the cache\'s Ok(None) — "I hold nothing" — becomes "there is none" and truth is never asked'
    return None


def consumption(f, site):
    """how the io::Result<Option<_>> of a cache read is consumed; returns (chain, problem)."""
    l = site.dest['l']
    chain = []
    demoted = False
    for _ in range(10):
        us = [u for u in f.uses(l) if u[2] != 'drop']
        nxt = None
        for (bi, si, how, payload) in us:
            if how.startswith('arg'):
                s2 = Site(f, bi, payload)
                name = s2.name
                chain.append(name)
                if name in ('ok', 'flatten'):
                    demoted = True
                    nxt = s2.dest['l']
                elif name in ('map', 'and_then', 'map_err', 'or_else', 'as_ref', 'as_deref'):
                    nxt = s2.dest['l']
                elif name == 'branch':
                    return chain, ('cache error / miss is propagated with `?`' if not demoted else
                                   'demoted with ok()/flatten() and then `?`: a cache miss silently becomes the answer')
                elif name in ('unwrap', 'expect'):
                    return chain, 'cache result is unwrapped: a cache fault panics instead of falling back'
                elif name in ('unwrap_or', 'unwrap_or_default', 'unwrap_or_else'):
                    return chain, 'cache miss is replaced by a default: the answer depends on cache state'
                elif name in ('is_none', 'is_some', 'is_ok', 'is_err', 'is_some_and'):
                    return chain, None
                else:
                    return chain, None
                break
            elif how == 'stmt':
                rv = payload['rv']
                if rv['k'] == 'discr':
                    chain.append('match')
                    return chain, None
                if rv['k'] in ('use', 'ref'):
                    nxt = payload['d']['l']
                    break
            elif how == 'switch':
                chain.append('match')
                return chain, None
        if nxt is None:
            return chain, None
        l = nxt
    return chain, None


# ---------------------------------------------------------------------- C04.4 / C04.6
VALIDATORS = [
    # (function, validator callee regex, what)
    ('ripd::continuity_stream_cache::ContinuityStreamCache::ensure_seq_index_v1', r'continuity_seek_index::validate_seq_index_against_sidecar$', 'seek index is cross-checked against the sidecar'),
    ('ripd::message_ordinal_index::message_count_v1', r'message_ordinal_index::validate_header_v1$', 'ordinal index header (magic / version) is validated'),
    ('ripd::message_ordinal_index::read_message_by_ordinal_v1', r'message_ordinal_index::validate_header_v1$', 'ordinal index header is validated'),
]


def c044(ctx):
    from .c01 import ok_edge_of_try
    P = ctx.prog
    ctx.rule('C04.4', 'validators are on the path: a fast-path answer is reachable only through the Ok edge of its validator (seek index vs sidecar, ordinal index header), and try_replay accepts a sidecar line only on the equal edge of the seq-contiguity and stream-identity comparisons.')
    ctx.rule('C04.6', 'freshness: the fast-path return of ContinuityStore::replay_events depends (control or data) on a value read from the truth log; a rule expected to fail today (finding K-C04-stale).')
    for path, vrx, what in VALIDATORS:
        f = P.fn(path)
        ctx.touch(f)
        vs = f.calls(vrx)
        if not vs:
            ctx.ob('C04.4', f, 'validator-called', False, 'the validator (%s) is no longer called' % what)
            continue
        oks = []
        for (bi, si, st) in f.aggregates(r'^core::result::Result$', 'Ok'):
            if st['d']['l'] != 0:
                continue
            o = f.origin(st['rv']['a'][0])
            if o[0] == 'rv' and o[1]['k'] == 'agg' and o[1].get('adt') == 'core::option::Option' and o[1].get('variant') == 'None':
                continue        # a miss, not an answer
            oks.append(bi)
        if not oks:
            raise CheckError('C04.4: %s has no Ok(answer) return' % path)
        for v in vs:
            e = ok_edge_of_try(f, v)
            ok = e is not None and e[1] is not None and all(f.edge_dom(e[0], e[1], b) for b in oks)
            ctx.ob('C04.4', f, 'answer-only-after-validation', ok, '%s: every Ok answer is %s' % (what, 'reachable only through the Ok edge of the validator' if ok else 'reachable WITHOUT a successful validation'), line=v.line)
    tr = P.fn('ripd::continuity_stream_cache::ContinuityStreamCache::try_replay')
    # the per-line validation extracted into a private helper of the module is spliced back in (with its
    # error returns routed to the caller's `?`), so "accepted only on the equal edge" keeps its meaning
    from ..inline import inline_calls, contains
    _w4 = contains(rx_calls=r'rip_kernel::Event::stream_(kind|id)$')
    tr = inline_calls(P, tr, lambda body, callee: callee.startswith('ripd::continuity_stream_cache::') and not re.search(r'::(scan_sidecar_backwards\w*|drain_sidecar_lines|ensure_seq_index_v1|append_best_effort|rebuild_\w+|try_replay)$', callee)
                      and _w4(body, callee), depth=1, note=ctx.note)
    ctx.touch(tr)
    pushes = tr.calls(r'alloc::vec::Vec::push$', full=r'Vec::<rip_kernel::Event>::push')
    if not pushes:
        raise CheckError('C04.4: try_replay does not collect events')
    from ..core import switches as _sw
    seq_edges, id_edges = [], []
    for (bi, on, ts, els) in _sw(tr):
        o = tr.origin(on)
        if o[0] == 'rv' and o[1]['k'] == 'bin' and o[1]['op'] in ('Ne', 'Eq'):
            names = []
            locs = []
            counter = False
            for a in o[1]['a']:
                src = tr.origin(a)
                if src[0] == 'local':
                    names += [pp.get('n') for pp in src[2] if isinstance(pp, dict) and 'f' in pp]
                    locs.append(tr.lname(src[1]))
                    # the expected seq: a u64 local of the loop that is advanced by an addition (by name while it keeps it)
                    if not src[2] and tr.lty(src[1]) == 'u64' and any(d_[2] == 'rv' and (d_[3]['k'] == 'bin' and d_[3]['op'].startswith('Add') or d_[3]['k'] == 'use' and any(
                            x[0] == 'bin' and x[1].startswith('Add') for x in sources(tr, d_[3]['a'][0]))) for d_ in tr.defs(src[1])):
                        counter = True
            if 'seq' in names and ('expected_seq' in locs or counter):
                seq_edges.append((bi, ts.get('0') if o[1]['op'] == 'Ne' else els))
    # identity comparisons: found from the comparison call, through a named boolean / a negation, to the switch it feeds
    for c_ in tr.calls(r'PartialEq(::|.*>::)(ne|eq)$'):
        srcs = set()
        for a in c_.args:
            for x in sources(tr, a):
                if x[0] == 'call':
                    srcs.add(x[1].rsplit('::', 1)[-1])
        if not (srcs & {'stream_kind', 'stream_id'}):
            continue
        sw_ = tr.switch_on_call(c_)
        if sw_ is None:
            continue
        bb_, ts_, els_, neg_ = sw_
        true_t, false_t = (ts_.get('0'), els_) if neg_ else (els_, ts_.get('0'))
        id_edges.append((bb_, true_t if c_.name == 'eq' else false_t, sorted(srcs & {'stream_kind', 'stream_id'})))
    for pu in pushes:
        ok = any(t is not None and tr.edge_dom(bi, t, pu.bb) for (bi, t) in seq_edges)
        ctx.ob('C04.4', tr, 'contiguity-checked', ok, 'a sidecar line is accepted %s' % ('only on the equal edge of event.seq vs expected_seq' if ok else 'WITHOUT the seq-contiguity comparison'), line=pu.line)
        kinds = set()
        for (bi, t, k) in id_edges:
            if t is not None and tr.edge_dom(bi, t, pu.bb):
                kinds |= set(k)
        ctx.ob('C04.4', tr, 'stream-identity-checked', kinds == {'stream_kind', 'stream_id'}, 'a sidecar line is accepted only when its stream kind and stream id match (checked: %s)' % sorted(kinds), line=pu.line)
    guarded_answers(ctx)
    c048(ctx)
    c049(ctx)
    c0410(ctx)
    c0411(ctx)
    # ---- C04.6
    rp = P.fn('ripd::continuities::ContinuityStore::replay_events')
    ctx.touch(rp)
    for (bi, si, st) in rp.aggregates(r'^core::result::Result$', 'Ok'):
        if st['d']['l'] != 0:
            continue
        src = sources(rp, st['rv']['a'][0])
        if not any(x[0] == 'call' and x[1].endswith('::try_replay') for x in src):
            continue
        truth = [s for s in rp.calls(r'^rip_log::EventLog::') if rp.dom(s.bb, bi)]
        ctx.ob('C04.6', rp, 'fast-path-checks-truth', bool(truth),
               'the sidecar answer is returned %s' % ('after consulting the truth log' if truth else
                                                     'without any dependence on the truth log: a sidecar that is well-formed but older than truth (rolled back, or a prefix left by a crash) is returned as the thread'), line=st.get('ln'))


# comparison guards that must stand between a cache answer and its caller: (function, what, [name sets]);
# a name set is matched against the field names and root-local names of the two compared operands
GUARDS = [
    ('ripd::continuity_stream_cache::ContinuityStreamCache::message_count_messages_runs_v1', 'last ordinal record vs. last message of the mr sidecar',
     [{'seq', 'last_seq'}, {'last_id'}]),
    ('ripd::continuity_stream_cache::ContinuityStreamCache::window_recent_messages_v1_from_message_id_full_sidecar', 'anchor header vs. requested anchor',
     [{'seq', 'anchor_seq'}, {'id', 'anchor_message_id'}]),
    ('ripd::continuity_stream_cache::ContinuityStreamCache::window_recent_messages_v1_from_message_id_messages_runs_v1', 'anchor header vs. requested anchor',
     [{'seq', 'anchor_seq'}, {'id', 'anchor_message_id'}]),
]


def comparison_edges(f, names):
    """[(switch block, equal-edge target)] of Eq/Ne comparisons (binary op or PartialEq call)
    whose operands mention all `names` (field names or root local names)."""
    from ..core import switches as _sw
    out = []
    for (bi, on, ts, els) in _sw(f):
        o = f.origin(on)
        ops = None
        eq_tgt = None
        if o[0] == 'rv' and o[1]['k'] == 'bin' and o[1]['op'] in ('Ne', 'Eq'):
            ops = o[1]['a']
            eq_tgt = ts.get('0') if o[1]['op'] == 'Ne' else els
        elif o[0] == 'call' and re.search(r'PartialEq(<.*>)?(::|.*>::)(ne|eq)$', o[1].callee):
            ops = o[1].args
            eq_tgt = ts.get('0') if o[1].name == 'ne' else els
        if ops is None:
            continue
        seen = set()
        for a in ops:
            src = f.origin(a, through_calls=(r'::deref$', r'::as_str$', r'::as_ref$', r'::to_string$', r'::borrow$'))
            if src[0] == 'local':
                seen |= {pp.get('n') for pp in src[2] if isinstance(pp, dict) and 'f' in pp}
                seen.add(f.lname(src[1]))
            elif src[0] == 'call' and src[1].args:
                s2 = f.origin(src[1].args[0], through_calls=(r'::deref$', r'::as_str$', r'::as_ref$'))
                if s2[0] == 'local':
                    seen |= {pp.get('n') for pp in s2[2] if isinstance(pp, dict) and 'f' in pp}
                    seen.add(f.lname(s2[1]))
        if names <= seen and eq_tgt is not None:
            out.append((bi, eq_tgt))
    return out


def guarded_answers(ctx):
    P = ctx.prog
    for path, what, namesets in GUARDS:
        f = P.fn(path)
        ctx.touch(f)
        answers = []
        for (bi, si, st) in f.aggregates(r'^core::option::Option$', 'Some'):
            # Some(..) that flows into the Ok return
            if any(x[0] == bi or True for x in [(bi,)]):
                answers.append(bi)
        oks = [bi for (bi, si, st) in f.aggregates(r'^core::result::Result$', 'Ok') if st['d']['l'] == 0 and
               not (f.origin(st['rv']['a'][0])[0] == 'rv' and f.origin(st['rv']['a'][0])[1].get('variant') == 'None')]
        if not oks:
            raise CheckError('C04.4: %s has no Ok(answer) return' % f.path)
        for ns in namesets:
            edges = comparison_edges(f, ns)
            from ..core import edge_implies
            ok = bool(edges) and all(any(f.edge_dom(bi, t, b) or edge_implies(f, bi, t, b) for (bi, t) in edges) or _loop_guard(f, edges, b) for b in oks)
            ctx.ob('C04.4', f, 'guarded-answer:' + '+'.join(sorted(ns)), ok,
                   '%s: the comparison on %s %s' % (what, sorted(ns), 'guards every Ok(answer)' if ok else ('is missing' if not edges else 'no longer guards the answer')),
                   line=f.blocks[edges[0][0]]['t'].get('ln') if edges else f.line)


def _loop_guard(f, edges, b):
    """the comparison sits in a scan loop (first-iteration anchor check) that dominates the answer:
    accept when the loop containing the comparison dominates b and the unequal edge cannot reach b."""
    for (bi, t) in edges:
        h = f.innermost_loop(bi)
        if h is None or not f.dom(h, b):
            continue
        other = [x for x in f.succs(bi) if x != t]
        if all(b not in f.reach(x) for x in other):
            return True
    return False


def c048(ctx):
    """unparsable cache bytes are an error, never skipped: all parse sites of the cache modules
    propagate failure with `?` (20 of 20 on the confirmed tree — an exact majority rule)."""
    from .c01 import ok_edge_of_try
    P = ctx.prog
    ctx.rule('C04.8', 'every serde_json::from_* over cache bytes in the cache modules propagates a parse failure with `?`: a torn or garbage line makes the fast path fail (and the store fall back to truth), it is never skipped, defaulted or turned into a shorter answer.')
    n = 0
    for f in P.find_fns(r'^ripd::(continuity_stream_cache|continuity_seek_index|message_ordinal_index|compaction_checkpoint_index)::'):
        for s in f.calls(r'^serde_json::de::from_(str|slice|reader)$'):
            n += 1
            e = ok_edge_of_try(f, s)
            ctx.ob('C04.8', f, 'parse-failure-propagates', e is not None and e[1] is not None,
                   'parse of cache bytes %s' % ('propagates failure with `?`' if e else 'does NOT propagate failure: unparsable bytes are silently skipped / defaulted'), line=s.line)
    ctx.floor('C04.8', 'parse sites in the cache modules', n, 20)


def c049(ctx, rid='C04.9'):
    """a cache that does not validate is rebuilt or ignored — never trimmed in place until it
    validates again: resizing (File::set_len) is only done on a fresh file the same function
    created."""
    P = ctx.prog
    ctx.rule(rid, 'no in-place repair: every File::set_len in the store code is applied to a handle the same function obtained from File::create (a fresh file that is being built, usually a tmp renamed into place). Trimming an existing sidecar / index to a "valid" length makes a torn file pass its length checks while its content no longer lines up with truth.')
    n = 0
    for p, f in sorted(P.fns.items()):
        if f.crate not in ('ripd', 'rip_log'):
            continue
        for s in f.calls(r'^std::fs::File::set_len$|^tokio::fs::File::set_len$'):
            n += 1
            src = sources(f, s.args[0])
            fresh = any(x[0] == 'call' and re.search(r'fs::File::create(_new)?$', x[1]) for x in src)
            other = sorted({x[1].rsplit('::', 2)[-2] + '::' + x[1].rsplit('::', 1)[-1] for x in src if x[0] == 'call' and not re.search(r'fs::File::create(_new)?$', x[1])})
            ok = fresh and not other
            ctx.ob(rid, f, 'resize-only-fresh-file', ok,
                   'set_len is applied to %s' % ('a file this function just created' if ok else
                                                 'an EXISTING file (%s): a torn cache is trimmed until it passes validation instead of being rebuilt from truth' % (', '.join(other) or 'handle not created here')), line=s.line)
    ctx.floor(rid, 'File::set_len sites in the store code', n, 3)


def c0410(ctx, rid='C04.10'):
    """what was read from a cache file is what gets parsed: inside a read loop of the cache
    modules the byte buffers are never shortened by the reader itself."""
    P = ctx.prog
    ctx.rule(rid, 'what was read is what is parsed: in every read loop of the cache modules (read / read_exact inside a loop) no shrinking operation (truncate / drain / pop / split_off / clear / retain / remove) is applied to a byte buffer in that loop — an unterminated or odd-looking tail is handed to the line parser (which fails the scan, so the store falls back to truth), never trimmed away by the reader: a torn last line means the sidecar is BEHIND the log, and the frames before it are a stale answer.')
    SHR = r'alloc::vec::Vec::<T, A>::(truncate|drain|pop|split_off|clear|retain|remove|swap_remove|dedup\w*)$'
    n = 0
    for f in P.find_fns(r'^ripd::(continuity_stream_cache|continuity_seek_index|message_ordinal_index|compaction_checkpoint_index)::'):
        for r in f.calls(r'std::io::Read>::(read_exact|read|read_to_end)$|^std::io::Read::(read_exact|read|read_to_end)$'):
            h = f.innermost_loop(r.bb)
            if h is None:
                continue
            n += 1
            ctx.touch(f)
            body = f.loops()[h]
            sh = [s_ for s_ in f.sites() if re.search(SHR, s_.callee) and 'u8' in (s_.full or '') and s_.bb in body]
            ctx.ob(rid, f, 'read-bytes-reach-the-parser', not sh, 'read loop at line %d: %s' % (r.line, 'no byte buffer is shortened inside it' if not sh else
                   '%s (line %d) shortens a byte buffer inside the loop: bytes that were read never reach the parser' % (sh[0].name, sh[0].line)), line=sh[0].line if sh else r.line)
    ctx.floor(rid, 'read loops in the cache modules', n, 1)


def c0411(ctx):
    """a rebuild from truth reconciles EVERY derived cache of the thread, not only the missing ones."""
    P = ctx.prog
    ctx.rule('C04.11', 'a rebuild reconciles every derived cache: in ContinuityStreamCache::rebuild_best_effort, once the full sidecar was rewritten from the replayed truth (its seek index written), every path to the return passes each rebuild_*_best_effort call of the derived sidecars — none is gated on whether its file already exists. The rebuild runs exactly when a cache was found missing or unusable, i.e. when best-effort appends were skipped; a derived sidecar that merely exists is then stale.')
    f = P.fn('ripd::continuity_stream_cache::ContinuityStreamCache::rebuild_best_effort')
    ctx.touch(f)
    subs = f.calls(r'ContinuityStreamCache::rebuild_\w+_best_effort\w*$')
    ctx.floor('C04.11', 'derived-cache rebuild calls in rebuild_best_effort', len(subs), 2)
    # the point from which the full sidecar of the thread has been rewritten: the write of its seek index (the last
    # step of the full-sidecar rebuild), or — if that step is gone — the first derived rebuild itself
    starts = f.calls(r'SidecarIndexBuilderV1::write_best_effort$|^std::fs::rename$')
    from_bb = starts[-1].bb if starts else min(s_.bb for s_ in subs)
    for s_ in subs:
        ok = f.must_pass([s_.bb], from_bb, f.returns()) if from_bb != s_.bb else True
        ctx.ob('C04.11', f, 'rebuild-unconditional:' + s_.name, ok, '%s %s' % (s_.name, 'is on every path from the rewritten sidecar to the return' if ok else
               'can be SKIPPED after the sidecar was rewritten (gated on the state of its file): a stale derived sidecar survives the rebuild'), line=s_.line)


def ok_edge_of_try_local(f, site):
    from .c01 import ok_edge_of_try
    e = ok_edge_of_try(f, site)
    return e[1] if e is not None and e[1] is not None else None
