"""C08 — compiled context is a pure function of thread truth (thin structural clauses)."""
import re

from ..core import CheckError, Site, op_const, op_place
from ..effects import Effects
from ..prov import reads_locals, sources

COMPILERS = ['ripd::context_compiler::compile_recent_messages_v1',
             'ripd::context_compiler::compile_summaries_recent_messages_v1',
             'ripd::context_compiler::compile_hierarchical_summaries_recent_messages_v1']
LIMIT = 'ripd::context_compiler::RECENT_MESSAGES_V1_LIMIT'
IMPURE = ['Clock', 'Random', 'Env', 'HashOrder', 'FsWrite', 'ProcSpawn', 'TruthAppend']


def compares_event_seq_with(f, local):
    """a comparison between a read of Event.seq and `local` exists in f and feeds a branch."""
    hits = []
    for bi in f.reachable():
        for st in f.blocks[bi]['s']:
            rv = st.get('rv')
            if not rv or rv['k'] != 'bin' or rv['op'] not in ('Le', 'Lt', 'Ge', 'Gt', 'Eq', 'Ne'):
                continue
            sides = []
            for o in rv['a']:
                src = f.origin(o)
                is_seq = src[0] == 'local' and any(isinstance(pp, dict) and pp.get('n') == 'seq' and pp.get('o') == 'rip_kernel::Event' for pp in src[2])
                is_loc = src[0] == 'local' and src[1] == local and not src[2]
                sides.append((is_seq, is_loc))
            if (sides[0][0] and sides[1][1]) or (sides[0][1] and sides[1][0]):
                hits.append((bi, st.get('ln'), rv['op']))
    return hits


def run(ctx):
    P = ctx.prog
    E = Effects(P)
    ctx.not_decided = 'equality of the three input paths (mr-sidecar tail / seek window / full replay); the checkpoint-selection arithmetic (halving rule, tie-breaks); exact membership of the bundle. These are value-level and need enumeration, which this family does not do.'
    ctx.rule('C08.1', 'purity: nothing reachable from the three compile_* functions reads the clock, randomness, the environment, iterates a hash container, writes a file, spawns a process or appends to truth.')
    ctx.rule('C08.2', 'cut guard: every `*_seq: u64` bound parameter of a context_compiler function that walks &[Event] is compared with Event.seq in that function, or handed to a workspace callee that does (a dropped guard lets frames after the cut point into the bundle).')
    ctx.rule('C08.3', 'one limit: every `limit` argument on the compile path is the constant RECENT_MESSAGES_V1_LIMIT (or a pass-through parameter), and the completeness test of the tail path compares with the same constant.')

    # ---------------------------------------------------------------- C08.1
    for c in COMPILERS:
        f = P.fn(c)
        par = P.reach_fns([c])
        for p in par:
            if p in P.fns:
                ctx.touch(P.fns[p])
        for eff in IMPURE:
            hits = []
            for p in par:
                d = E.direct(p)
                if eff in d:
                    hits.append((P.chain(par, p), d[eff][0]))
            ok = not hits
            ctx.ob('C08.1', f, 'pure:' + eff, ok,
                   ('no %s effect reachable (%d functions)' % (eff, len(par))) if ok else
                   '%s reachable: %s at %s' % (eff, ' -> '.join(x.split('::')[-1] for x in hits[0][0]), hits[0][1].callee), line=hits[0][1].line if hits else f.line)

    # ---------------------------------------------------------------- C08.2
    n = 0
    for f in P.find_fns(r'^ripd::context_compiler::[a-z_0-9]+$'):
        ctx.touch(f)
        takes_events = any('[rip_kernel::Event]' in f.lty(i) for i in range(1, f.argc + 1))
        if not takes_events:
            continue
        for i in range(1, f.argc + 1):
            nm = f.lname(i)
            if f.lty(i) != 'u64' or not nm.endswith('_seq'):
                continue
            n += 1
            hits = compares_event_seq_with(f, i)
            passed = []
            for s in f.sites():
                if s.callee.startswith('ripd::') and any(i in reads_locals(f, a) for a in s.args):
                    passed.append(s)
            ok = bool(hits) or bool(passed)
            ctx.ob('C08.2', f, 'seq-bound-used:' + nm, ok,
                   'parameter `%s` %s' % (nm, ('is compared with Event.seq (%s)' % ','.join(h[2] for h in hits)) if hits else
                                          ('is handed to %s' % passed[0].name) if passed else 'is NEVER compared with Event.seq: frames beyond the bound are not excluded'),
                   line=hits[0][1] if hits else f.line)
            if hits:
                # the comparison must guard the loop body: it lies inside a loop
                ctx.ob('C08.2', f, 'seq-bound-in-loop:' + nm, any(f.in_loop(h[0]) for h in hits), 'the comparison sits inside the scan loop', line=hits[0][1])
    ctx.floor('C08.2', 'seq-bound parameters in context_compiler', n, 3)
    # every helper that a compile function hands the thread's events to must cut at a seq bound:
    # discovered from the call sites (argument derived from the request's `continuity_events`)
    scanners = {}
    for c in COMPILERS:
        cf = P.fn(c)
        for s2 in cf.sites():
            if not s2.callee.startswith('ripd::context_compiler::') or s2.callee not in P.fns:
                continue
            for a in s2.args:
                o = cf.origin(a, through_calls=(r'::deref$', r'::as_ref$', r'::as_slice$'))
                if o[0] == 'local' and any(isinstance(pp, dict) and pp.get('n') == 'continuity_events' for pp in o[2]):
                    scanners.setdefault(s2.callee, s2)
    ctx.floor('C08.2', 'helpers scanning the thread events', len(scanners), 3)
    for sp in sorted(scanners):
        g = P.fns[sp]
        ctx.touch(g)
        hits = []
        for bi in g.reachable():
            for st in g.blocks[bi]['s']:
                rv = st.get('rv')
                if rv and rv['k'] == 'bin' and rv['op'] in ('Le', 'Lt', 'Ge', 'Gt'):
                    for o in rv['a']:
                        src = g.origin(o)
                        if src[0] == 'local' and any(isinstance(pp, dict) and pp.get('n') == 'seq' and pp.get('o') == 'rip_kernel::Event' for pp in src[2]) and g.in_loop(bi):
                            hits.append(st.get('ln'))
        ctx.ob('C08.2', g, 'thread-scan-cut-at-seq', bool(hits), '%s walks the thread events and %s' % (sp.rsplit('::', 1)[-1], 'compares Event.seq with a bound inside the loop' if hits else
               'NEVER compares Event.seq with a cut bound: frames appended after the cut point can reach the bundle'), line=hits[0] if hits else g.line)

    # ---------------------------------------------------------------- C08.3
    uses = 0
    scope = [f for f in P.fns.values() if f.path.startswith('ripd::context_compiler::') or f.path.startswith('ripd::continuities::ContinuityStore::load_context_compile_input_recent_messages_v1')
             or f.path.startswith('ripd::session::compile_context_bundle_for_run')]
    for f in scope:
        ctx.touch(f)
        for s in f.sites():
            callee = P.fns.get(s.callee)
            if callee is None:
                continue
            for ai, a in enumerate(s.args):
                pi = ai + 1
                if pi > callee.argc:
                    continue
                pn = callee.lname(pi)
                if pn not in ('limit', 'message_limit', 'max_messages'):
                    continue
                src = sources(f, a)
                okc = all((x[0] == 'const' and str(x[2]).endswith('RECENT_MESSAGES_V1_LIMIT')) or
                          (x[0] == 'param' and f.lname(x[1]) in ('limit', 'message_limit', 'max_messages')) for x in src) and bool(src)
                uses += 1
                ctx.ob('C08.3', f, 'limit-arg:' + s.name, okc, '`%s` of %s is %s' % (pn, s.name, 'RECENT_MESSAGES_V1_LIMIT / pass-through' if okc else 'a different value: %s' % sorted(src, key=str)[:3]), line=s.line)
    ld = P.fn('ripd::continuities::ContinuityStore::load_context_compile_input_recent_messages_v1')
    cmpn = 0
    cut_calls = ld.calls(r'continuities::resolve_cutpoint_from_tail$')
    cut_locals = set()
    for i in range(len(ld.locals)):
        if any(c.dest['l'] in reads_locals(ld, {'c': {'l': i}}) for c in cut_calls) and ld.locals[i].get('n'):
            cut_locals.add(i)
    for bi in ld.reachable():
        for st in ld.blocks[bi]['s']:
            rv = st.get('rv')
            if rv and rv['k'] == 'bin' and rv['op'] in ('Ge', 'Gt', 'Le', 'Lt'):
                for o, other in ((rv['a'][0], rv['a'][1]), (rv['a'][1], rv['a'][0])):
                    k = op_const(other)
                    if k is None or not str(k.get('def', '')).endswith('RECENT_MESSAGES_V1_LIMIT'):
                        continue
                    cmpn += 1
                    dep = reads_locals(ld, o) & cut_locals
                    ctx.ob('C08.3', ld, 'completeness-relative-to-cut', bool(dep),
                           'the count compared with RECENT_MESSAGES_V1_LIMIT %s' % ('depends on the resolved cut point (%s): only messages at or before the cut make a bounded window sufficient' % sorted(ld.lname(x) for x in dep)[:3]
                                                                                  if dep else 'does NOT depend on the resolved cut point: messages after the cut are counted, so an incomplete window is accepted and the bundle holds fewer messages than truth gives'),
                           line=st.get('ln'))
    ctx.floor('C08.3', 'limit arguments on the compile path', uses, 4)
    ctx.floor('C08.3', 'completeness tests', cmpn, 1)

    # ---------------------------------------------------------------- C08.4
    ctx.rule('C08.4', 'one selection: in compile_context_bundle_for_run the summary inputs of every compile request (summaries / summary_artifact_id / summary_to_seq) and the checkpoint list of the logged decision are all built from the result of the same lookup (hierarchical_compaction_checkpoints_for_compile_v1), and none of them reads the result of another checkpoint lookup — otherwise the bundle can reference a summary the logged decision does not name.')
    cb = P.fn('ripd::session::compile_context_bundle_for_run')
    ctx.touch(cb)
    lookups = [s_ for s_ in cb.sites() if re.search(r'ContinuityStore::\w*compaction_checkpoints?_for_compile_v1$', s_.callee)]
    H = [s_ for s_ in lookups if re.search(r'hierarchical_compaction_checkpoints_for_compile_v1$', s_.callee)]
    if len(H) != 1:
        raise CheckError('C08.4: compile_context_bundle_for_run is expected to call hierarchical_compaction_checkpoints_for_compile_v1 once (found %d)' % len(H))
    hd = H[0].dest['l']
    others = [s_.dest['l'] for s_ in lookups if s_ is not H[0] and s_.bb != H[0].bb]
    nsum = 0
    for (bi, si, st) in cb.aggregates(r'Compile\w+Request$'):
        rv = st['rv']
        for fld, op in zip(rv['fields'], rv['a']):
            if not re.search(r'summar', fld):
                continue
            nsum += 1
            rl = reads_locals(cb, op)
            ok = hd in rl and not (rl & set(others))
            ctx.ob('C08.4', cb, 'bundle-from-selected:' + fld, ok,
                   '%s.%s %s' % (rv['adt'].rsplit('::', 1)[-1], fld, 'is built from the selected checkpoint hierarchy only' if ok else
                                 'is built from %s: the bundle references a summary the logged selection decision does not name' % ('ANOTHER checkpoint lookup' if rl & set(others) else 'something other than the selected hierarchy')), line=st.get('ln'))
    ctx.floor('C08.4', 'summary inputs of compile requests', nsum, 3)
    # the decision side: what is pushed into the checkpoint list of the decision
    dec = cb.aggregates(r'ContextSelectionDecisionForRun$')
    if not dec:
        raise CheckError('C08.4: ContextSelectionDecisionForRun construction not found')
    rv = dec[0][2]['rv']
    lst = cb.root_local(rv['a'][rv['fields'].index('compaction_checkpoints')])
    pushes = [s_ for s_ in cb.calls(r'alloc::vec::Vec::<T, A>::(push|extend)$|Extend<T>>::extend$') if cb.root_local(s_.args[0], through_calls=(r'::deref_mut$',)) == lst]
    direct = reads_locals(cb, rv['a'][rv['fields'].index('compaction_checkpoints')])
    okd = (bool(pushes) and all(hd in reads_locals(cb, s_.args[1]) and not (reads_locals(cb, s_.args[1]) & set(others)) for s_ in pushes)) or (hd in direct and not (direct & set(others)))
    ctx.ob('C08.4', cb, 'decision-from-selected', okd, 'the checkpoint list of the logged decision %s' % ('is filled from the selected checkpoint hierarchy only' if okd else 'is NOT filled from the selected hierarchy (or reads another lookup)'), line=dec[0][2].get('ln'))

    # ---------------------------------------------------------------- C08.5
    ctx.rule('C08.5', 'a positional search keyed by to_seq runs on a list ordered by to_seq: every binary_search_by / binary_search_by_key / partition_point in ripd whose predicate reads a `to_seq` '
             'field has, on the same list and dominating it, a sort whose comparator reads `to_seq` — or, when the list is a parameter, every caller sorted what it passes. Checkpoint frames are '
             'appended in seq order, not in to_seq order (a manual checkpoint can be back-filled at an older boundary): cutting an index "at the first entry past the bound" drops or keeps the wrong ones.')
    SEARCH = r'::(binary_search_by|binary_search_by_key|partition_point)$'
    SORT = r'::(sort_by|sort_by_key|sort_unstable_by|sort_unstable_by_key|sort_by_cached_key)$'

    def reads_to_seq(g, op):
        o = g.origin(op)
        cf = None
        if o[0] == 'rv' and o[1].get('ak') == 'closure':
            cf = P.fns.get(o[1].get('def'))
        elif o[0] == 'const' and o[1].get('fn') in P.fns:
            cf = P.fns[o[1]['fn']]
        if cf is None:
            return False
        for bi_ in cf.reachable():
            for st_ in cf.blocks[bi_]['s']:
                rv_ = st_.get('rv') or {}
                for pl_ in ([rv_.get('pl')] if rv_.get('pl') else []) + [op_place(a_) for a_ in rv_.get('a', [])]:
                    if any(isinstance(pp, dict) and pp.get('n') == 'to_seq' for pp in (pl_ or {}).get('p', [])):
                        return True
        return False

    THR = (r'::deref$', r'::deref_mut$', r'::as_slice$', r'::as_mut_slice$', r'::as_ref$', r'::as_mut$', r'::borrow$', r'::iter$')

    def sorted_before(g, site, root):
        for so in g.calls(SORT):
            if so.args and g.root_local(so.args[0], through_calls=THR) == root and len(so.args) > 1 and reads_to_seq(g, so.args[1]) and g.dom(so.bb, site.bb):
                return so
        # `sort_by_to_seq(&mut unique)`: a helper of the crate that sorts the list it is handed
        for c_ in g.sites():
            H = P.fns.get(c_.callee or '')
            if H is None or H.crate != 'ripd' or not g.dom(c_.bb, site.bb):
                continue
            for k_, a_ in enumerate(c_.args):
                if g.root_local(a_, through_calls=THR) == root and any(so.args and H.root_local(so.args[0], through_calls=THR) == k_ + 1 and len(so.args) > 1 and reads_to_seq(H, so.args[1]) for so in H.calls(SORT)):
                    return c_
        return None

    n5 = 0
    for g in [x for x in P.fns.values() if x.crate == 'ripd']:
        for se in g.calls(SEARCH):
            if len(se.args) < 2 or not any(reads_to_seq(g, a) for a in se.args[1:]):
                continue
            n5 += 1
            root = g.root_local(se.args[0], through_calls=THR)
            ok5, how5 = False, 'no sort by to_seq of that list precedes it'
            if root is not None and sorted_before(g, se, root):
                ok5, how5 = True, 'the same list is sorted by to_seq first'
            elif root is not None and 1 <= root <= g.argc and '{closure' not in g.path:
                cs = P.callers('^' + re.escape(g.path) + '$')
                if cs and all(len(c.args) >= root and c.fn.root_local(c.args[root - 1], through_calls=THR) is not None and
                              sorted_before(c.fn, c, c.fn.root_local(c.args[root - 1], through_calls=THR)) for c in cs):
                    ok5, how5 = True, 'every caller (%d) sorts the list by to_seq before passing it' % len(cs)
                else:
                    how5 = 'the list is a parameter and a caller (%s) passes one it did not sort by to_seq' % (cs[0].fn.path.rsplit('::', 1)[-1] if cs else 'none found')
            ctx.ob('C08.5', g, 'ordered-search-on-sorted-list:' + se.name, ok5, '%s over to_seq: %s' % (se.name, how5), line=se.line)
    ctx.floor('C08.5', 'positional searches keyed by to_seq', n5, 2)
