"""C17 — task lifecycle typestate, pumps joined, hash / write pairing (structural clauses)."""
import re

from ..core import CheckError, Site, op_const, op_place, switches
from ..prov import reads_locals, sources

EMIT = r'^ripd::tasks::TaskEmitter::emit$'
FAIL = r'^ripd::tasks::fail_task$'
RUNNERS = r'^ripd::tasks::(pipes::run_pipes_task|pty::run_pty_task)$'
LIVE = {'ToolTaskOutputDelta': 'O', 'ToolTaskStdinWritten': 'O', 'ToolTaskResized': 'O', 'ToolTaskSignalled': 'O',
        'ToolTaskCancelRequested': 'Q', 'ToolTaskCancelled': 'C', 'ToolTaskSpawned': 'S'}


def helper_symbols(P, path, depth=0):
    """symbols a helper async fn of the task module can emit (transitively)."""
    out = set()
    g = P.body(path, required=False)
    if g is None or depth > 4:
        return out
    for s in g.sites():
        sym = classify(g, s, P, depth + 1)
        if sym:
            out.add(sym)
    return out


def helper_symbols_safe(P, path):
    try:
        return helper_symbols(P, path)
    except CheckError:
        return {'?'}


def classify(f, s, P=None, depth=0):
    """lifecycle symbol of an emit / fail_task / runner call site."""
    if re.search(FAIL, s.callee):
        return 'T'
    if re.search(RUNNERS, s.callee):
        return 'RUN'
    if not re.search(EMIT, s.callee):
        if P is not None and s.callee.startswith('ripd::tasks::') and '{closure' not in s.callee and s.callee in P.fns:
            syms = helper_symbols(P, s.callee, depth)
            if not syms:
                return None
            if syms <= {'O'}:
                return 'O'
            raise CheckError('C17.1: helper %s emits lifecycle frames %s (unrecognised idiom)' % (s.callee, sorted(syms)))
        return None
    o = f.origin(s.args[1])
    if not (o[0] == 'rv' and o[1]['k'] == 'agg' and o[1].get('adt') == 'rip_kernel::EventKind'):
        raise CheckError('C17.1: emit argument at %s is not an EventKind literal (unrecognised idiom)' % s.loc())
    v = o[1]['variant']
    if v in LIVE:
        return LIVE[v]
    if v != 'ToolTaskStatus':
        raise CheckError('C17.1: task emitter emits a non-task frame %s at %s' % (v, s.loc()))
    st = o[1]['a'][o[1]['fields'].index('status')]
    so = f.origin(st)
    variants = set()
    if so[0] == 'rv' and so[1]['k'] == 'agg':
        variants.add(so[1]['variant'])
    elif so[0] == 'local':
        # dynamic status: every ToolTaskStatus value that can flow into it
        for x in sources(f, st):
            if x[0] == 'agg' and x[1].startswith('rip_kernel::ToolTaskStatus::'):
                variants.add(x[1].rsplit('::', 1)[-1])
            elif x[0] in ('call', 'param', 'other'):
                variants.add('?')
    else:
        variants.add('?')
    if variants == {'Running'}:
        return 'R'
    if 'Running' in variants or '?' in variants or not variants:
        raise CheckError('C17.1: status frame at %s may or may not be Running (%s) — unrecognised idiom' % (s.loc(), sorted(variants)))
    return 'T'


# states: 0 nothing emitted, 1 spawned, 2 running, 3 terminal, 'Q' suffix tracked separately
def explore(f, init, syms):
    """walk (block, state, cancel_requested) over the CFG; returns (final states, errors)."""
    errors = []
    finals = set()
    seen = set()
    work = [(0, init, False)]
    while work:
        b, st, q = work.pop()
        if (b, st, q) in seen:
            continue
        seen.add((b, st, q))
        if b in syms:
            sym, site = syms[b]
            if sym == 'S':
                if st != 0:
                    errors.append((site, 'spawn frame emitted in state %s' % st))
                st = 1
            elif sym == 'R':
                if st != 1:
                    errors.append((site, 'running reported in state %s (at most once, after spawn)' % st))
                st = 2
            elif sym in ('O', 'Q', 'C'):
                if st not in (2,):
                    errors.append((site, '%s frame in state %s (only while running)' % (sym, st)))
                if sym == 'Q':
                    q = True
                if sym == 'C' and not q:
                    pass   # cancellation is correlated through cancel_reason; checked separately
            elif sym == 'T':
                if st == 3:
                    errors.append((site, 'second terminal status'))
                elif st == 0:
                    errors.append((site, 'terminal status without a spawn frame'))
                st = 3
            elif sym == 'RUN':
                if st != 1:
                    errors.append((site, 'task body entered in state %s' % st))
                st = 3
        t = f.blocks[b]['t']
        if t['k'] == 'ret':
            finals.add(st)
            continue
        for s in f.succs(b):
            work.append((s, st, q))
    return finals, errors, len(seen)


def cancel_correlation(f, syms):
    """ToolTaskCancelled only after ToolTaskCancelRequested: explored over (block, reason cell in
    {None, Some, ?}, requested?). The reason cell is the Option local whose Some-test guards the
    Cancelled emission. returns (cell, errors, states) or None when the task body has no C site."""
    csites = [x for (sym, x) in syms.values() if sym == 'C']
    if not csites:
        return None

    def tested_cell(on):
        """(cell local, some_target_key) when a switch operand is a Some/None test of an Option local."""
        o = f.origin(on)
        if o[0] == 'rv' and o[1]['k'] == 'discr':
            l = o[1]['pl']['l']
            if o[1]['pl'].get('p'):
                return None
            d = f.single_def(l)
            if d and d[2] == 'call' and re.search(r'Option::<T>::(as_deref|as_ref|as_mut|as_deref_mut|clone)$|Clone>::clone$', (d[3]['f'].get('r') or d[3]['f'].get('p') or '')):
                r = f.root_local(d[3]['a'][0])
                return (r, 'discr') if r is not None else None
            return (l, 'discr')
        return None
    tests = {}
    for (bi, on, ts, els) in switches(f):
        tc = tested_cell(on)
        if tc and f.lty(tc[0]).startswith('core::option::Option<'):
            some_t = ts.get('1')
            none_t = ts.get('0', els if '1' in ts else None)
            if some_t is None and '0' in ts:
                some_t = els
            tests[bi] = (tc[0], some_t, none_t)
    for c in f.calls(r'core::option::Option::<T>::(is_some|is_none)$'):
        sw = f.switch_on_call(c)
        r = f.root_local(c.args[0])
        if sw is None or r is None:
            continue
        bb, ts, els, neg = sw
        true_t, false_t = (ts.get('0'), els) if neg else (els, ts.get('0'))
        tests[bb] = (r, true_t, false_t) if c.name == 'is_some' else (r, false_t, true_t)
    # the cell: an Option local whose Some edge dominates every Cancelled emission
    cand = [(bi, r) for bi, (r, some_t, none_t) in tests.items() if some_t is not None and all(f.edge_dom(bi, some_t, c.bb) for c in csites)]
    # the innermost guard: the test every other guarding test dominates (earlier let-else guards of the body also dominate the emission)
    inner = [(bi, r) for (bi, r) in cand if all(bj == bi or f.dom(bj, bi) for (bj, _) in cand)]
    cells = {r for (_, r) in inner}
    if len(cells) != 1:
        return ('?', [(csites[0], 'the Cancelled emission is not guarded by a Some-test of one reason cell (%d candidates)' % len(cells))], 0)
    cell = next(iter(cells))
    defs = {}
    for (bi, si, kind, payload, ln) in f.defs(cell):
        isnone = kind == 'rv' and payload['k'] == 'agg' and payload.get('variant') == 'None'
        defs[bi] = 'N' if isnone else '?'
    errors = []
    seen = set()
    work = [(0, 'N', False)]
    while work:
        b, rs, q = work.pop()
        if (b, rs, q) in seen:
            continue
        seen.add((b, rs, q))
        if b in syms:
            sym, site = syms[b]
            if sym == 'Q':
                q = True
            if sym == 'C' and not q:
                errors.append((site, 'ToolTaskCancelled can be emitted on a path that never emitted ToolTaskCancelRequested'))
        t = f.blocks[b]['t']
        nrs = defs.get(b, rs) if t['k'] != 'call' else rs
        succs = list(f.succs(b))
        if b in tests and tests[b][0] == cell:
            _, some_t, none_t = tests[b]
            for sx in succs:
                if sx == some_t and rs != 'N':
                    work.append((sx, 'S', q))
                elif sx == none_t and rs != 'S':
                    work.append((sx, 'N', q))
                elif sx not in (some_t, none_t):
                    work.append((sx, rs, q))
            continue
        for sx in succs:
            # a call that defines the cell takes effect on its return edge
            work.append((sx, defs.get(b, rs) if t['k'] == 'call' else nrs, q))
    return (cell, errors, len(seen))


def run(ctx):
    P = ctx.prog
    ctx.not_decided = 'byte equality of stored output, preview / page boundaries (value level; read_artifact_range yields U+FFFD on both sides of a page boundary inside a multi-byte character — seen by reading, not decidable by a shape rule).'
    ctx.rule('C17.1', 'task lifecycle typestate over run_task, run_pipes_task, run_pty_task: every path from entry to return spells S (T | R (O|Q|C)* T) — spawn first, running at most once and only after spawn, live frames only while running, exactly one terminal status, nothing after it. Explored exhaustively over (block, state).')
    ctx.rule('C17.5', 'cancelled only after requested: in run_pipes_task / run_pty_task the ToolTaskCancelled frame is reachable only on paths that emitted ToolTaskCancelRequested — explored over (block, reason cell in {None, Some, unknown}, requested?), the reason cell being the Option local whose Some-test guards the Cancelled emission; every non-None assignment of the cell makes it unknown.')
    ctx.rule('C17.2', 'pumps joined: in the task bodies every JoinHandle of a spawned pump is polled to completion before any terminal status is emitted.')
    ctx.rule('C17.3', 'hash / write pairing: in shell::capture_stream and write_artifact_tail every write_all to the spill file is followed on its success edge by Digest::update over the same bytes and by the stored-bytes advance; the artifact id is hex(hasher.finalize()).')

    total_states = 0
    for path, init in (('ripd::tasks::run_task', 0), ('ripd::tasks::pipes::run_pipes_task', 1), ('ripd::tasks::pty::run_pty_task', 1)):
        f = P.body(path)
        # private helpers of the task module that emit a lifecycle frame (a status / spawn / cancel emission that
        # was extracted from the body) are spliced in, so the typestate walks the frames in the order they are sent
        from ..inline import inline_calls, contains
        _c = contains(rx_calls=EMIT + '|' + FAIL)
        f = inline_calls(P, f, lambda body, callee: callee.startswith('ripd::tasks::') and not re.search(RUNNERS + '|' + EMIT + '|' + FAIL + r'|::pump_\w+$', callee)
                         and _c(body, callee) and not (helper_symbols_safe(P, callee) <= {'O'}), depth=2, note=ctx.note)
        ctx.touch(f)
        syms = {}
        for s in f.sites():
            sym = classify(f, s, P)
            if sym:
                syms[s.bb] = (sym, s)
        ctx.floor('C17.1', 'lifecycle sites in ' + path, len(syms), 5 if init == 0 else 6)
        finals, errors, n = explore(f, init, syms)
        total_states += n
        seen_err = set()
        for site, what in errors:
            key = (site.bb, what)
            if key in seen_err:
                continue
            seen_err.add(key)
            ctx.ob('C17.1', f, 'lifecycle:' + what.split(' (')[0].replace(' ', '-'), False, '%s (%s)' % (what, site.name), line=site.line)
        ctx.ob('C17.1', f, 'ends-terminal', finals <= {3}, 'states at return: %s (3 = one terminal status emitted); %d (block,state) pairs explored, %d lifecycle sites: %s' % (
            sorted(finals), n, len(syms), ''.join(sorted(x[0] if x[0] != 'RUN' else 'B' for x in syms.values()))))
        cc = cancel_correlation(f, syms)
        if cc is not None:
            cell, cerrs, nst = cc
            total_states += nst
            ctx.ob('C17.5', f, 'cancelled-only-after-requested', not cerrs,
                   ('reason cell `%s`: every path to the Cancelled emission passed a CancelRequested emission (%d (block, cell, requested) states)' % (f.lname(cell), nst)) if not cerrs else
                   cerrs[0][1] + (' (reason cell `%s` is set without the request frame)' % f.lname(cell) if cell != '?' else ''), line=cerrs[0][0].line if cerrs else f.line)
        # the pump closures only emit live frames
    for g in P.find_fns(r'^ripd::tasks::(pipes|pty)::pump_\w+::\{closure#0\}$|^ripd::tasks::pty::\w*pump\w*'):
        for s in g.calls(EMIT):
            sym = classify(g, s)
            ctx.ob('C17.1', g, 'pump-emits-live-only', sym == 'O', 'pump emits %s' % sym, line=s.line)
            ctx.touch(g)

    # ---------------------------------------------------------------- C17.2
    for path in ('ripd::tasks::pipes::run_pipes_task', 'ripd::tasks::pty::run_pty_task'):
        f = P.body(path)
        spawns = f.calls(r'^tokio::task::spawn::spawn$|^tokio::task::blocking::spawn_blocking$|^tokio::runtime::blocking::pool::spawn_blocking$')
        pumps = []
        for s in spawns:
            # a pump is a spawned task whose body (transitively) emits task frames or writes the task log
            o = f.origin(s.args[0])
            cdef = o[1].get('def') if o[0] == 'rv' else None
            reach = P.reach_fns([cdef]) if cdef else {}
            direct = P.fns[cdef].calls(r'std::io::Read>::read$|std::io::Read::read$') if cdef in P.fns else []
            if any(re.search(r'TaskEmitter::emit$', p) for p in reach) or direct:
                pumps.append(s)
        ctx.floor('C17.2', 'pump tasks in ' + path, len(pumps), 1)
        terms = [s for s in f.sites() if classify(f, s) == 'T' and re.search(EMIT, s.callee) and any(f.can_reach(p.bb, s.bb) for p in pumps)]
        joins = f.calls(r'tokio::runtime::task::join::JoinHandle<T> as core::future::future::Future>::poll$')
        for p in pumps:
            jl = [j for j in joins if p.dest['l'] in reads_locals(f, j.args[0])]
            for t in terms:
                ok = any(f.dom(j.bb, t.bb) for j in jl)
                ctx.ob('C17.2', f, 'pump-joined-before-terminal', ok, 'terminal status is %s the join of the pump spawned at line %d' % ('dominated by' if ok else 'NOT dominated by', p.line), line=t.line)

    # ---------------------------------------------------------------- C17.3
    n = 0
    for path in ('rip_tools::builtins::shell::capture_stream', 'rip_tools::builtins::shell::write_artifact_tail'):
        f = P.body(path)
        ctx.touch(f)
        ws = f.calls(r'AsyncWriteExt::write_all$|tokio::io::util::async_write_ext::AsyncWriteExt::write_all$')
        ups = f.calls(r'digest::digest::Digest>::update$|Digest::update$|digest::Update>::update$')
        for w in ws:
            n += 1
            wroots = reads_locals(f, w.args[1])
            # "the same bytes": the written slice and the hashed slice are cut from the same named values
            # (buffer AND bounds) — hashing the whole chunk while storing a capped prefix names the artifact
            # by bytes it does not hold
            def named(ls):
                return {f.lname(x) for x in ls if f.locals[x].get('n')}
            ok = False
            why = 'NOT followed by Digest::update over the same bytes'
            for u in ups:
                if f.can_reach(w.bb, u.bb) and (reads_locals(f, u.args[1]) & wroots):
                    if named(reads_locals(f, u.args[1])) == named(wroots):
                        ok = True
                    else:
                        why = 'followed by Digest::update over DIFFERENT bytes (written slice is cut from %s, hashed slice from %s): the artifact id is not the hash of the stored bytes' % (sorted(named(wroots)), sorted(named(reads_locals(f, u.args[1]))))
            ctx.ob('C17.3', f, 'write-then-hash', ok, 'spill write is %s' % ('followed by Digest::update over the same bytes' if ok else why), line=w.line)
    ctx.floor('C17.3', 'spill writes', n, 2)
    fin = P.body('rip_tools::builtins::shell::finalize_artifact')
    ctx.touch(fin)
    enc = fin.calls(r'^hex::encode$')
    okid = False
    for e in enc:
        src = sources(fin, e.args[0])
        if any(x[0] == 'call' and re.search(r'finalize$', x[1]) for x in src):
            okid = True
    ctx.ob('C17.3', fin, 'id-is-hash-of-stored-bytes', okid, 'artifact id = hex::encode(hasher.finalize())', line=enc[0].line if enc else fin.line)

    # ---------------------------------------------------------------- C17.4
    from .common import char_boundary_ops
    ctx.rule('C17.4', 'a task cannot die on the output it forwards: in everything reachable from run_task / run_pipes_task / run_pty_task and the shell capture there is no byte-offset string operation that panics off a UTF-8 character boundary (String::truncate / split_off / insert / remove / drain / replace_range, str::split_at, str range indexing) unless the same function derives or tests the offset. A panic in the task body leaves the task without a terminal status frame.')
    roots = [P.body(p).path for p in ('ripd::tasks::run_task', 'ripd::tasks::pipes::run_pipes_task', 'ripd::tasks::pty::run_pty_task', 'rip_tools::builtins::shell::capture_stream')]
    par = P.reach_fns(roots)
    scope = [P.fns[p] for p in sorted(par) if p in P.fns and P.fns[p].crate.startswith('rip') and P.fns[p].crate not in ('rip', 'rip_tui', 'rip_cli')]
    ops = char_boundary_ops(P, scope)
    witness = char_boundary_ops(P, [f for f in P.fns.values() if f.crate in ('rip', 'rip_tui')])
    ctx.ob('C17.4', 'workspace', 'matcher-alive', len(witness) >= 1, 'the same matcher finds %d byte-offset string operation(s) in the terminal client crates (positive example); %d function(s) reachable from the task bodies scanned, %d operation(s) found there' % (len(witness), len(scope), len(ops)))
    for (f, s_, g) in ops:
        ctx.ob('C17.4', f, 'char-boundary:' + s_.name, g,
               '%s on task output %s' % (s_.name, 'with the offset derived / tested in the same function' if g else
                                         'with an UNCHECKED byte offset: a multi-byte character straddling it panics the task body — no terminal status frame'), line=s_.line)

    # ---------------------------------------------------------------- C17.6
    ctx.rule('C17.6', 'what was read is stored: in every function of the task module that appends task output to its log (TaskLogWriter::append inside a read loop), each iteration of that loop that comes back to the loop head passed the append — the decision to emit a preview frame (empty preview, byte limits) must not decide whether the bytes are stored.')
    n6 = 0
    for g in P.find_fns(r'^ripd::tasks::'):
        aps = g.calls(r'^ripd::tasks::logs::TaskLogWriter::append$')
        for ap in aps:
            h6 = g.innermost_loop(ap.bb)
            if h6 is None:
                continue
            n6 += 1
            ctx.touch(g)
            body6 = g.loops()[h6]
            inner_ap = [x.bb for x in aps if x.bb in body6]
            # start where the bytes of this iteration exist: the definition of the chunk handed to the append
            # (`&buf[..n]`); iterations that read nothing (Interrupted -> continue) are not concerned
            o6 = g.origin(ap.args[1], through_calls=(r'::deref$', r'::as_ref$'))
            start6 = None
            if o6[0] == 'call':
                start6 = o6[1].bb
            elif o6[0] == 'local':
                ds6 = g.defs(o6[1])
                if len(ds6) == 1:
                    start6 = ds6[0][0]
            if start6 is None or start6 not in body6:
                succ_in = [s_ for s_ in g.succs(h6) if s_ in body6]
            else:
                succ_in = [s_ for s_ in g.succs(start6) if s_ in body6]
            if start6 is not None and start6 in inner_ap:
                succ_in = []      # the chunk is cut in the very block that hands it to the append
            r6 = g.reach(succ_in, stop=inner_ap)
            # the poll loop of an await inside the body is a loop of its own: only edges back to THIS header count
            back = any(h6 in g.succs(b) for b in r6 if b in body6 and b not in inner_ap)
            ctx.ob('C17.6', g, 'read-bytes-always-stored', not back, 'every iteration of the output loop %s TaskLogWriter::append' % ('passes' if not back else 'can come back to the loop head WITHOUT') +
                   ('' if not back else ': bytes that were read (and may be previewed later) never reach the stored log'), line=ap.line)
    ctx.floor('C17.6', 'log appends inside output loops', n6, 1)
    # ... and what was stored is announced: after the append, the only thing that may skip the output frame of this chunk
    # is that nothing is left to preview (emptiness / length of the preview) — not what the bytes look like. The frames
    # carry the stored ranges; a stored chunk without its frame leaves a hole in the ranges a reader follows.
    n9 = 0
    for g in P.find_fns(r'^ripd::tasks::'):
        aps = g.calls(r'^ripd::tasks::logs::TaskLogWriter::append$')
        from .c05 import _does as _does6
        # the emission itself, or a helper of the task module that does it (`emit_output_delta(emitter, ..)`)
        ems = [s_ for s_ in g.sites() if re.search(r'TaskEmitter::emit$', s_.callee or '') or ((s_.callee or '').startswith('ripd::tasks::') and not re.search(r'TaskLogWriter::', s_.callee or '') and _does6(P, s_.callee, r'TaskEmitter::emit$'))]
        for ap in aps:
            h6 = g.innermost_loop(ap.bb)
            if h6 is None:
                continue
            body6 = g.loops()[h6]
            em_in = [e_ for e_ in ems if e_.bb in body6 and g.can_reach(ap.bb, e_.bb)]
            if not em_in:
                continue
            after_ap = g.reach_from_after(ap.bb, stop=(h6,))
            for (bi, on, ts, els) in switches(g):
                if bi not in after_ap or bi not in body6 or not any(g.can_reach(bi, e_.bb) for e_ in em_in):
                    continue
                # a branch one of whose edges goes back to the loop head without the emit
                tg = set(list(ts.values()) + [els]) - {None}
                skips = [t_ for t_ in tg if not g.must_pass([e_.bb for e_ in em_in], t_, [h6] + list(g.returns()))]
                takes = [t_ for t_ in tg if any(g.can_reach(t_, e_.bb) for e_ in em_in)]
                if not skips or not takes or g.blocks[bi]['t'].get('k') != 'switch':
                    continue
                o_ = g.origin(on)
                if o_[0] == 'rv' and o_[1]['k'] == 'discr':
                    continue            # Ok / Err / Some / None of a call result: a fault, not a look at the bytes
                n9 += 1
                chain = []
                if o_[0] == 'call':
                    chain = [o_[1]]
                    cur = o_[1].args[0] if o_[1].args else None
                    for _ in range(8):
                        if cur is None:
                            break
                        o2 = g.origin(cur, through_calls=(r'::deref$', r'::as_ref$', r'::as_str$', r'::as_bytes$', r'::borrow$'))
                        if o2[0] != 'call':
                            break
                        chain.append(o2[1])
                        cur = o2[1].args[0] if o2[1].args else None
                looks = [c_ for c_ in chain if c_.name not in ('is_empty', 'len', 'deref', 'as_ref', 'as_str', 'as_bytes', 'borrow', 'min', 'truncate_utf8')]
                ctx.touch(g)
                ctx.ob('C17.6', g, 'stored-chunk-announced', not looks,
                       'the output frame of a stored chunk is skipped only on %s' % (' of '.join(c_.name for c_ in chain) or 'a plain flag / comparison') if not looks else
                       'whether a stored chunk gets its output frame depends on %s (line %s) — on what the bytes look like: a chunk that is stored but not announced leaves a gap in the ranges the output frames reference' % (looks[0].name, looks[0].line), line=g.blocks[bi]['t'].get('ln'))
    ctx.floor('C17.6', 'frame-or-skip decisions after a log append', n9, 1)

    # ---------------------------------------------------------------- C17.7
    from .c03 import c037
    c037(ctx, rid='C17.7')

    # ---------------------------------------------------------------- C17.8
    ctx.rule('C17.8', 'every write into a capped store is cut to the cap: in the shell tool\'s artifact capture (capture_stream, write_artifact_tail) and the task log writer (TaskLogWriter::append) the bytes handed to the file are a slice whose bound comes out of a min(..) — and, where the function reads the cap (artifact_max_bytes / max_bytes) itself, that min is computed from it. A write sized by what happens to be buffered (`preview.len()`) stores more than the configured cap whenever the preview limit exceeds it.')
    n8 = 0
    CAPF = re.compile(r'^(artifact_)?max_bytes$|^cap(acity)?_bytes$')
    for p_, g in sorted(P.fns.items()):
        if not (p_.startswith('rip_tools::builtins::shell::capture_stream') or p_.startswith('rip_tools::builtins::shell::write_artifact_tail') or p_.startswith('ripd::tasks::logs::TaskLogWriter::append')):
            continue
        ws_ = [s_ for s_ in g.sites() if re.search(r'AsyncWriteExt::(write_all|write)$|std::io::Write>::(write_all|write)$', s_.callee or '') and 'File' in ' '.join(s_.ga + [s_.full or ''])]
        if not ws_:
            continue
        capl = set()
        for b_ in g.blocks:
            for st_ in b_['s']:
                rv_ = st_.get('rv') or {}
                for o_ in rv_.get('a', []) or []:
                    pl_ = op_place(o_)
                    if pl_ and any(isinstance(pp, dict) and CAPF.match(str(pp.get('n', ''))) for pp in pl_.get('p', [])) and not st_['d'].get('p'):
                        capl.add(st_['d']['l'])
        from .c05 import _does
        # min(..) itself, or a workspace helper that computes one (`room_left(cap, stored, len)`)
        mins = [s_ for s_ in g.sites() if _does(P, s_.callee, r'::min$|::clamp$') and not re.search(r'AsyncWriteExt|Write>::|::poll', s_.callee or '')]
        for w_ in ws_:
            n8 += 1
            ctx.touch(g)
            rl = set()
            for a_ in w_.args[1:]:
                rl |= reads_locals(g, a_)
            via = [m_ for m_ in mins if m_.dest and m_.dest['l'] in rl]
            capped = [m_ for m_ in via if not capl or any(reads_locals(g, a_) & capl for a_ in m_.args)]
            ok8 = bool(capped)
            ctx.ob('C17.8', g, 'write-cut-to-the-cap', ok8,
                   'the slice written is bounded by min(..)%s' % (' over the cap' if capl else '') if ok8 else
                   ('the slice written to the capped file is NOT bounded by a min over the cap (%s): more than the configured cap can be stored' % ('no min(..) in the provenance of its bounds' if not via else 'the min does not read the cap')), line=w_.line)
    ctx.floor('C17.8', 'writes into capped stores', n8, 3)

    # ---------------------------------------------------------------- C17.9
    ctx.rule('C17.9', 'the cap a task was announced with is the cap its logs are kept to: run_task publishes `artifact_max_bytes` in the spawn frame and hands the same value to the runner in the '
             'TaskRunContext; in the runners (run_pipes_task, run_pty_task) the cap argument of every TaskLogWriter::new is that field and nothing else — no min / max / arithmetic / other '
             'source between the context and the writer. A runner that clamps it stores less than the spawn frame promises and reports the log as truncated below its cap.')
    from ..prov import fields_read as _fr9
    n9 = 0
    for fp9 in ('ripd::tasks::pipes::run_pipes_task', 'ripd::tasks::pty::run_pty_task'):
        g9 = P.body(fp9)
        ctx.touch(g9)
        for s9 in g9.calls(r'TaskLogWriter::new$'):
            if len(s9.args) < 4:
                raise CheckError('C17.9: TaskLogWriter::new has lost its cap parameter')
            n9 += 1
            src9 = sources(g9, s9.args[3])
            fl9 = _fr9(g9, s9.args[3], 'ripd::tasks::TaskRunContext')
            # ... and no call (min / max / clamp) or arithmetic on the way: follow copies only
            def _plain9(op, depth=0):
                o9 = g9.origin(op)
                if o9[0] != 'local':
                    return False
                named9 = [(pp.get('o'), pp.get('n')) for pp in o9[2] if isinstance(pp, dict) and 'n' in pp]
                if named9[-1:] == [('ripd::tasks::TaskRunContext', 'artifact_max_bytes')]:
                    return True
                if o9[2]:
                    return False
                ds9 = g9.defs(o9[1])
                if len(ds9) != 1 or ds9[0][2] != 'rv' or ds9[0][3]['k'] not in ('use', 'cast') or depth > 6:
                    return False
                return _plain9(ds9[0][3]['a'][0], depth + 1)
            ok9 = bool(src9) and all(x[0] == 'param' for x in src9) and fl9 == {'artifact_max_bytes'} and _plain9(s9.args[3])
            ctx.ob('C17.9', g9, 'log-cap-is-the-announced-cap', ok9,
                   'the cap of this log writer %s' % ('is TaskRunContext.artifact_max_bytes, unmodified' if ok9 else
                   'is NOT the announced cap as it came: a call or an operation (%s) stands between the context field and the writer' % (g9.origin(s9.args[3])[1].name if g9.origin(s9.args[3])[0] == 'call' else g9.origin(s9.args[3])[0])),
                   line=s9.line)
    ctx.floor('C17.9', 'log writers created by the task runners', n9, 3)
