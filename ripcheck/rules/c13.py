"""C13 — no path argument reaches outside the workspace root (structural clauses)."""
import re

from ..core import CheckError, Site, op_const, op_place, switches
from ..effects import site_effects
from ..prov import reads_locals, sources
from ..taint import Taint

RESOLVERS = {
    'rip_tools::builtins::resolve_path': 'strict',
    'rip_workspace::Workspace::safe_join': 'strict',
    'rip_workspace::patch::parse_rel_path': 'strict',
    'ripd::tasks::logs::resolve_path': 'strict',
    # accepts absolute paths that lie under the root (strip_prefix); must still refuse `..`
    'rip_workspace::Workspace::to_relative': 'relativise',
}
SANITIZERS = [r'^rip_tools::builtins::resolve_path$', r'^rip_workspace::Workspace::safe_join$', r'^rip_workspace::patch::parse_rel_path$',
              r'^ripd::tasks::logs::resolve_path$', r'^rip_workspace::patch::Patch::parse$', r'^rip_workspace::Workspace::to_relative$']
ID_GUARDS = r'is_sha256_hex$|is_lower_hex_64$|is_valid_artifact_id$'
SCOPE = r'^(rip_tools::builtins|rip_tools::runtime|rip_workspace|ripd::tasks|ripd::checkpoints)(::|$)'
PATH_FIELD_NAMES = {'path', 'cwd', 'id', 'files', 'dir', 'file', 'root', 'target', 'dest'}
SINK_EXTRA = r'^std::process::Command::current_dir$|^tokio::process::Command::current_dir$|CommandBuilder::cwd$|^std::path::Path::(exists|is_file|is_dir)$|^ignore::walk::WalkBuilder::(new|add)$'


def sink_path_args(site):
    c = site.callee
    if re.search(r'current_dir$|CommandBuilder::cwd$|WalkBuilder::add$', c):
        return [1]
    if re.search(r'^std::fs::(rename|copy|hard_link)$|^tokio::fs::(rename|copy)', c):
        return [0, 1]
    return [0]


def is_sink(site):
    eff = site_effects(site)
    if eff & {'FsRead', 'FsWrite'}:
        # OpenOptions builder methods take no path
        if re.search(r'OpenOptions::(write|append|create|create_new|truncate|read|new)$', site.callee):
            return False
        return True
    return bool(re.search(SINK_EXTRA, site.callee))


def resolver_checks(ctx, f, mode):
    """is_absolute / ParentDir tests whose taken edge cannot reach an Ok return."""
    from ..prov import sources
    errs = [bi for (bi, si, st) in f.aggregates(r'^core::result::Result$', 'Err')]
    rets = f.returns()

    def refuses(tgt):
        """every path from tgt to a return constructs an Err first."""
        return bool(errs) and f.must_pass(errs, tgt, rets)
    # --- ParentDir
    if not hasattr(ctx, 'pd_predicates'):
        ctx.pd_predicates = {}      # closure path -> resolver whose refusal it feeds

    def is_pd_any(g, a):
        """`components().any(|c| matches!(c, Component::ParentDir))` in g."""
        o = g.origin(a.args[1]) if len(a.args) > 1 else None
        cdef = o[1]['def'] if o and o[0] == 'rv' and o[1].get('ak') == 'closure' else None
        cf = ctx.prog.fns.get(cdef) if cdef else None
        if cf is None:
            return False
        comp = any('std::path::Component' in l['ty'] for l in cf.locals)
        pd_switch = any(('3' in ts) for (bi, on, ts, els) in switches(cf))
        if comp and pd_switch:
            ctx.pd_predicates.setdefault(cdef, f.path)
        return comp and pd_switch
    tests = [a for a in f.calls(r'Iterator::any$|::any$') if is_pd_any(f, a)]
    # the same predicate extracted into a private helper `fn(&Path) -> bool` whose result is the any(..) itself
    for hs in f.sites():
        h = ctx.prog.fns.get(hs.callee)
        sg = ctx.prog.sigs.get(hs.callee)
        if h is None or sg is None or sg['output'] != 'bool' or h.crate != f.crate:
            continue
        inner = [a for a in h.calls(r'Iterator::any$|::any$') if is_pd_any(h, a)]
        if inner and any(x[0] == 'call' and re.search(r'::any$', x[1]) for x in sources(h, {'c': {'l': 0}})) and not [x for x in sources(h, {'c': {'l': 0}}) if x[0] == 'const']:
            ctx.touch(h)
            tests.append(hs)
    pd_ok = False
    why = 'no components().any(ParentDir) test'
    for a in tests:
        sw = f.switch_on_call(a)
        if sw is None:
            continue
        bb, ts, els, neg = sw
        true_tgt = (ts.get('0') if neg else els)
        if refuses(true_tgt):
            pd_ok = True
        else:
            why = 'the ParentDir test does not lead to a refusal'
    ctx.ob('C13.1', f, 'refuses-parent-dir', pd_ok, '`..` segments are %s' % ('refused before the Ok return' if pd_ok else 'NOT refused (%s)' % why))
    # --- the value that is accepted is the value that was checked
    chk_leaves = set()
    for a in f.calls(r'^std::path::Path::(is_absolute|components|has_root|strip_prefix)$'):
        chk_leaves |= set(sources(f, a.args[0]))
    oks = f.aggregates(r'^core::result::Result$', 'Ok')
    for (bi, si, st) in oks:
        leaves = set(sources(f, st['rv']['a'][0]))
        # the root the result is joined onto: a parameter the checks did not have to inspect (self / root)
        foreign = sorted((x for x in leaves if x not in chk_leaves and x[0] not in ('const',) and not (x[0] == 'param' and (f.lname(x[1]) in ('self', 'root') or x[1] == 1 and f.argc > 1))), key=str)
        ctx.ob('C13.1', f, 'accepted-value-is-checked-value', not foreign,
               'the Ok value is built from %s' % ('the inspected input (and the root) only' if not foreign else
               'a value the `..` / absolute checks never saw (%s): the checks inspect one spelling of the path and a different, rewritten one is accepted' % ', '.join(x[1].rsplit('::', 1)[-1] if x[0] == 'call' else str(x) for x in foreign)), line=st.get('ln'))
    # --- absolute
    abss = f.calls(r'^std::path::Path::is_absolute$')
    if mode == 'strict':
        ab_ok = False
        for a in abss:
            sw = f.switch_on_call(a)
            if sw is None:
                continue
            bb, ts, els, neg = sw
            if refuses(els):
                ab_ok = True
        ctx.ob('C13.1', f, 'refuses-absolute', ab_ok, 'absolute paths are %s' % ('refused before the Ok return' if ab_ok else 'NOT refused'))
    else:
        sp = f.calls(r'^std::path::Path::strip_prefix$')
        ok = bool(sp) and f.must_pass([x.bb for x in sp] + errs, 0, rets)
        ctx.ob('C13.1', f, 'relativises-against-root', ok, 'every Ok value passed strip_prefix(root): absolute input is accepted only under the root')


def build_taint(P):
    """the C13 path taint: (engine, source-field table)."""
    src_fields = {}
    for ap, a in P.adts.items():
        if not re.search(SCOPE, ap) and not ap.startswith('ripd::session::CheckpointCommand'):
            continue
        if not re.search(r'(Args|CheckpointRequest|CheckpointFile|CheckpointCommand)$', ap):
            continue
        for v in a['variants']:
            for fl in v['fields']:
                if fl['name'] in PATH_FIELD_NAMES and re.search(r'String|PathBuf', fl['ty']):
                    src_fields[(ap, fl['name'])] = '%s.%s' % (ap.rsplit('::', 1)[-1], fl['name'])
    cc = P.fn('rip_workspace::Workspace::create_checkpoint')
    files_l = [i for i in range(1, cc.argc + 1) if cc.lname(i) == 'files'] or [i for i in range(1, cc.argc + 1) if 'PathBuf' in cc.lty(i) or 'Path]' in cc.lty(i)]
    if len(files_l) != 1:
        raise CheckError('C13.2: create_checkpoint has no path-list parameter')
    T = Taint(P, lambda o, n: src_fields.get((o, n)), sanitizers=SANITIZERS,
              scope=lambda f: bool(re.search(SCOPE, f.path)) or f.path.startswith('<rip_') or f.path.startswith('<ripd::checkpoints') or f.path.startswith('ripd::session::parse_action'),
              param_sources={cc.path: {files_l[0]: 'create_checkpoint(files)'}}, no_propagate=is_sink,
              clean_type=lambda ty: bool(re.match(r'^(bool|usize|u64|u32|u8|isize|i64|i32|\(\))$', ty))).run()
    return T, src_fields


def run(ctx):
    P = ctx.prog
    ctx.not_decided = 'symlinks inside the workspace (not in the statement); session / checkpoint ids used as path components are chosen by the authority (UUIDs) or matched against a directory listing.'
    ctx.rule('C13.1', 'resolvers agree: each lexical resolver refuses `..` (components().any(ParentDir) whose true edge cannot reach the Ok return) and refuses absolute input (or, for to_relative, accepts it only through strip_prefix(root)).')
    ctx.rule('C13.2', 'source -> sanitiser -> sink taint: path-like fields of deserialised tool / task / checkpoint arguments (and CheckpointFile.path read back from disk, and the `files` parameter of Workspace::create_checkpoint) never reach an fs / process / walk sink unless they passed a resolver, Patch::parse or an id guard.')
    ctx.rule('C13.3', 'refusal precedes effect: in every tool handler the resolver call dominates the first fs effect; create_checkpoint resolves every input before it creates anything.')

    # ---------------------------------------------------------------- C13.1
    for path, mode in RESOLVERS.items():
        f = P.fn(path)
        ctx.touch(f)
        resolver_checks(ctx, f, mode)

    # ---------------------------------------------------------------- C13.2
    T, src_fields = build_taint(P)
    ctx.floor('C13.2', 'untrusted path-bearing fields', len(src_fields), 9)
    ctx.note('C13.2 sources: ' + ', '.join(sorted(src_fields.values())))
    nsinks = 0
    for p, f in sorted(P.fns.items()):
        if not (re.search(SCOPE, p) or p.startswith('<ripd::checkpoints') or p.startswith('<rip_tools') or p.startswith('<rip_workspace')):
            continue
        for s in f.sites():
            if not is_sink(s):
                continue
            for ai in sink_path_args(s):
                if ai >= len(s.args):
                    continue
                nsinks += 1
                lab = T.tainted(f, s.args[ai], s.bb)
                if not lab:
                    continue
                ctx.touch(f)
                # id guard on the true edge?
                guarded = False
                for g in f.calls(ID_GUARDS):
                    sw = f.switch_on_call(g)
                    if sw is None:
                        continue
                    bb, ts, els, neg = sw
                    if f.edge_dom(bb, els, s.bb):
                        guarded = True
                ctx.ob('C13.2', f, 'tainted-sink:%s#%d' % (s.name, ai), guarded,
                       '%s receives a path derived from untrusted %s %s' % (s.callee, lab, 'but only behind an id-format guard' if guarded else 'WITHOUT passing a resolver'), line=s.line)
    ctx.floor('C13.2', 'fs / process sinks examined', nsinks, 40)
    ctx.ob('C13.2', 'workspace', 'sinks-examined', True, '%d sink operands in tool / workspace / task / checkpoint code examined, taint fixpoint in %d rounds' % (nsinks, T.rounds))

    c134(ctx)
    c137(ctx)
    # ---------------------------------------------------------------- C13.6
    ctx.rule('C13.6', 'the patch parser is a resolver for every path it hands out: each path field (path, moved_to) of every PatchOp the parser builds derives from a parse_rel_path result — Patch::parse is treated as a sanitiser by C13.2, so a field that bypasses parse_rel_path (a `Move to:` target taken as written) is an unchecked path with a clean label.')
    n6 = 0
    from ..inline import inline_calls as _inl6
    for p_, g0 in sorted(P.fns.items()):
        if not p_.startswith('rip_workspace::patch'):
            continue
        # per-directive helpers of the parser (`parse_move_directive(..)?`) are spliced in, so a path that reaches the
        # PatchOp through a helper's return value is followed back to the parse_rel_path call inside the helper
        g = _inl6(P, g0, lambda body, callee: callee.startswith('rip_workspace::patch::') and not callee.endswith('::parse_rel_path'), depth=2) if '{closure' not in p_ else g0
        for (bi, si, st) in g.aggregates(r'rip_workspace::patch::PatchOp$'):
            rv = st['rv']
            for fld, op in zip(rv['fields'], rv['a']):
                if not re.search(r'PathBuf', next((x['ty'] for v_ in (P.adts.get('rip_workspace::patch::PatchOp') or {'variants': []})['variants'] if v_['name'] == rv.get('variant') for x in v_['fields'] if x['name'] == fld), '')):
                    continue
                n6 += 1
                ctx.touch(g)
                rl = reads_locals(g, op)
                via = any(s_.dest['l'] in rl for s_ in g.calls(r'^rip_workspace::patch::parse_rel_path$'))
                ctx.ob('C13.6', g, 'parsed-path-resolved:%s.%s' % (rv.get('variant'), fld), via, 'PatchOp::%s.%s %s' % (rv.get('variant'), fld, 'comes out of parse_rel_path' if via else
                       'does NOT pass parse_rel_path: an absolute or `..` path in the patch text is handed to the workspace as a parsed (trusted) path'), line=st.get('ln'))
    ctx.floor('C13.6', 'path fields of PatchOp constructions in the parser', n6, 4)
    # ---------------------------------------------------------------- C13.3 (create_checkpoint)
    # "a refused request has no side effect anywhere (including inside the checkpoint store)": the only refusals of
    # create_checkpoint come from to_relative; none of them may be reachable from a store mutation of the same call.
    from .common import workspace_body
    ccf = workspace_body(P, 'rip_workspace::Workspace::create_checkpoint')
    ctx.touch(ccf)
    def here_or_in_closure(fn, pred):
        """sites of fn satisfying pred, plus — for a closure built in fn whose body (nested closures included) has such a
        site — every call of fn that is handed the closure or something made from it (map(..) is lazy: collect() runs it)."""
        out = [s_ for s_ in fn.sites() if pred(s_)]
        for bi, b in enumerate(fn.blocks):
            for st in b['s']:
                rv = st.get('rv') or {}
                if rv.get('ak') == 'closure' and rv.get('def') in P.fns:
                    inner = [g_ for g_ in P.family(rv['def']) if g_.path.startswith(rv['def'])]
                    if any(pred(x) for g_ in inner for x in g_.sites()):
                        cl = st['d']['l']
                        # only a value whose type still carries the closure can run it (after collect() it is gone)
                        out += [s_ for s_ in fn.sites() if any(cl in reads_locals(fn, a_) and op_place(a_) is not None and 'closure' in (fn.lty(op_place(a_)['l']) or '') for a_ in s_.args)]
        return out
    res_cc = here_or_in_closure(ccf, lambda s_: re.search(r'^rip_workspace::Workspace::to_relative$', s_.callee or '') is not None)
    eff_cc = here_or_in_closure(ccf, lambda s_: bool(site_effects(s_) & {'FsWrite'}))
    ctx.floor('C13.3', 'resolver calls in create_checkpoint', len(res_cc), 1)
    ctx.floor('C13.3', 'store mutations in create_checkpoint', len(eff_cc), 3)
    late = []
    for e_ in eff_cc:
        after = ccf.reach_from_after(e_.bb)
        for r_ in res_cc:
            if r_.bb in after:
                late.append((e_, r_))
    ctx.ob('C13.3', ccf, 'no-refusal-after-store-effect', not late,
           ('every to_relative call (%d) is finished before the first of %d store mutations: a refused path leaves the checkpoint store untouched' % (len(res_cc), len(eff_cc))) if not late else
           ('%s at line %s can run BEFORE to_relative (line %s) refuses a later path: the files already copied stay in an orphan checkpoint directory' % (late[0][0].name().rsplit('::', 2)[-1] if callable(getattr(late[0][0], 'name', None)) else 'a store mutation', late[0][0].line, late[0][1].line)),
           line=(late[0][0].line if late else (res_cc[0].line if res_cc else None)))
    # ---------------------------------------------------------------- C13.5
    ctx.rule('C13.5', '`..` is only ever refused, never normalised away: every function of the workspace that distinguishes Component::ParentDir (a switch on a path component with an arm for it) is one of the predicates whose true result C13.1 proved to lead to a refusal. A helper that pops / skips / rewrites `..` ("lexical cleaning", de-duplication of spellings) launders a path before a resolver sees it: `../a.txt` arrives as `a.txt`.')
    npd = 0
    for p_, g in sorted(P.fns.items()):
        if not g.crate.startswith('rip'):
            continue
        for (bi, on, ts, els) in switches(g):
            o = g.origin(on)
            if o[0] == 'rv' and o[1]['k'] == 'discr' and 'std::path::Component' in g.lty(o[1]['pl']['l']) and '3' in ts:
                npd += 1
                ok = p_ in ctx.pd_predicates
                ctx.ob('C13.5', g, 'parent-dir-only-refused', ok, 'Component::ParentDir is distinguished here %s' % ('as the refusing predicate of %s' % ctx.pd_predicates.get(p_, '?').rsplit('::', 1)[-1] if ok else
                       'OUTSIDE the refusing resolvers: `..` segments are handled (dropped / popped / rewritten) instead of refused'), line=g.blocks[bi]['t'].get('ln'))
    ctx.floor('C13.5', 'functions distinguishing Component::ParentDir', npd, 5)
    # ---------------------------------------------------------------- C13.3
    handlers = {'rip_tools::builtins::read::run_read': 'path', 'rip_tools::builtins::write::run_write': 'path', 'rip_tools::builtins::ls::run_ls': 'path',
                'rip_tools::builtins::grep::run_grep': 'path'}
    for h in handlers:
        f = P.fn(h)
        ctx.touch(f)
        res = f.calls(r'^rip_tools::builtins::resolve_path$')
        if not res:
            ctx.ob('C13.3', f, 'resolver-present', False, 'handler never calls resolve_path')
            continue
        effs = [s for s in f.sites() if is_sink(s) or site_effects(s) & {'FsWrite', 'ProcSpawn'}]
        bad = [s for s in effs if not any(f.dom(r.bb, s.bb) for r in res)]
        # `ls` / `grep` may default to the root when no path is given: effects not dominated by a resolver must not use tainted data (C13.2)
        bad = [s for s in bad if any(T.tainted(f, a) for a in s.args)]
        ctx.ob('C13.3', f, 'resolve-before-effect', not bad, 'every fs effect that uses the argument is dominated by resolve_path (%d effect sites)' % len(effs), line=res[0].line)


# ---------------------------------------------------------------------- C13.7 a sibling of the root is outside the root
def c137(ctx):
    P = ctx.prog
    ctx.rule('C13.7', 'a resolved path may be the root itself (the resolvers accept `.`, `./` and the empty string): a name derived from a resolver result by '
             'replacing its last component (Path::with_extension / with_file_name, PathBuf::set_extension / set_file_name / pop) is a SIBLING of that path — for the root, '
             'an entry of the root\'s parent, outside the workspace. Every such derivation in the tool / workspace / task code is reachable only through the not-equal edge '
             'of a comparison of the resolved path with the root (or sits behind a resolver that makes that comparison itself). The write tool built `<parent>/<root>.tmp-<uuid>` '
             'for path "." and left it there (the repaired F-C13-write-root).')
    SIB = r'^std::path::Path::(with_extension|with_file_name|with_added_extension)$|^std::path::PathBuf::(set_extension|set_file_name|pop|add_extension)$'
    PEQ = r'^<&?(mut )?std::path::(PathBuf|Path) as core::cmp::PartialEq(<.*>)?>::(eq|ne)$'
    res_rx = '|'.join('^' + re.escape(r_) + '$' for r_ in RESOLVERS)
    THR7 = (r'::deref$', r'::as_ref$', r'::as_path$', r'::borrow$')

    def judged_at(f, site, operand, depth=0):
        """[(fn, site, resolver sites)] where the operand is (derived from) a resolver result; follows a path parameter of a helper to its callers."""
        rs = [c for c in f.calls(res_rx) if c.dest is not None]
        rl = reads_locals(f, operand) | {(op_place(operand) or {}).get('l')}
        srcs = [c for c in rs if c.dest['l'] in rl]
        if srcs:
            return [(f, site, srcs)]
        root = f.root_local(operand, through_calls=THR7)
        out = []
        if root == 1 and '{closure' in f.path and depth < 4:
            # a captured path: upvar i of the closure is operand i of the closure aggregate in the enclosing function
            o_ = f.origin(operand, through_calls=THR7)
            idx = [pp.get('f') for pp in (o_[2] if o_[0] == 'local' else []) if isinstance(pp, dict) and 'f' in pp][:1]
            parent = P.fns.get(f.path.rsplit('::{closure', 1)[0])
            if idx and parent is not None:
                for bi_ in parent.reachable():
                    for st_ in parent.blocks[bi_]['s']:
                        rv_ = st_.get('rv') or {}
                        if rv_.get('k') == 'agg' and rv_.get('def') == f.path and len(rv_['a']) > idx[0]:
                            class _At:      # where the closure is built stands for where it runs (it is handed to a combinator on the spot)
                                pass
                            at = _At(); at.bb = bi_; at.line = st_.get('ln', 0); at.name = site.name
                            out += judged_at(parent, at, rv_['a'][idx[0]], depth + 1)
            return out
        if root is not None and 1 <= root <= f.argc and '{closure' not in f.path and depth < 4:
            for c in P.callers('^' + re.escape(f.path) + '$'):
                if re.search(SCOPE, c.fn.path) and len(c.args) >= root:
                    out += judged_at(c.fn, c, c.args[root - 1], depth + 1)
        return out

    n = 0
    seen7 = set()
    for p_, f0 in sorted(P.fns.items()):
        if not re.search(SCOPE, p_):
            continue
        for s0 in f0.calls(SIB):
            if not s0.args:
                continue
            for (f, s_, srcs) in judged_at(f0, s0, s0.args[0]):
                if (f.path, s_.bb, s0.name) in seen7:
                    continue
                seen7.add((f.path, s_.bb, s0.name))
                n += 1
                ok, why = False, ''
                for c in srcs:
                    # (a) the resolver excludes the root itself
                    rb = P.fns.get(c.callee)
                    if rb is not None and rb.calls(PEQ):
                        ok, why = True, 'behind %s, which compares its result with the root' % c.name
                        break
                    # (b) compared with the root on the way here — directly, or in a bool predicate of the crate that is handed the resolved path
                    preds7 = []
                    for q7 in f.sites():
                        H7 = P.fns.get(q7.callee or '')
                        if H7 is not None and H7.crate == f.crate and (P.sigs.get(q7.callee) or {}).get('output') == 'bool' and H7.calls(PEQ) and q7.dest is not None:
                            preds7.append(q7)
                    for q in f.calls(PEQ) + preds7:
                        if not f.dom(q.bb, s_.bb) or q.dest is None:
                            continue
                        if not any(c.dest['l'] in (reads_locals(f, a) | {(op_place(a) or {}).get('l')}) for a in q.args):
                            continue
                        for (bi, on, ts, els) in switches(f):
                            if f.dom(q.bb, bi) and f.dom(bi, s_.bb) and (q.dest['l'] in reads_locals(f, on) or q.dest['l'] == (op_place(on) or {}).get('l')):
                                tgts = list(ts.values()) + ([els] if els is not None else [])
                                if any(not f.can_reach(t, s_.bb) for t in tgts):
                                    ok, why = True, 'reachable only past a comparison of the resolved path with the root (the equal edge leaves)'
                    if ok:
                        break
                via = '' if f is f0 else ' (in %s, reached from here)' % f0.path.rsplit('::', 1)[-1]
                ctx.ob('C13.7', f, 'sibling-of-resolved-path:' + s0.name, ok,
                       ('%s on a resolver result%s — %s' % (s0.name, via, why)) if ok else
                       '%s%s on the result of %s with no comparison against the root before it: for the path `.` (or ``) the derived name is an entry of the root\'s PARENT directory' % (s0.name, via, srcs[0].name),
                       line=s_.line)
    ctx.floor('C13.7', 'sibling names derived from a resolver result', n, 1)


def c134(ctx):
    """checkpoint ids are path components (`.rip/checkpoints/<session>/<id>/`): a rewind may only
    use an id that was found in the listing of that session's checkpoints."""
    from .c01 import ok_edge_of_try
    P = ctx.prog
    ctx.rule('C13.4', 'checkpoint ids are path components: every call of Workspace::rewind_to_checkpoint outside rip_workspace is reachable only through the Ok edge of a lookup of that very id in Workspace::list_checkpoints (find(|e| e.id == id).ok_or(..)?), so an absolute or `..` id is refused before any path is built from it.')
    sites = [s for s in P.callers(r'^rip_workspace::Workspace::rewind_to_checkpoint$') if s.fn.crate != 'rip_workspace']
    ctx.floor('C13.4', 'rewind_to_checkpoint callers', len(sites), 1)
    for s in sites:
        f = s.fn
        ctx.touch(f)
        idl = f.root_local(s.args[2], through_calls=(r'::deref$', r'::as_str$', r'::as_ref$'))
        ok = False
        why = 'no lookup of the id in list_checkpoints precedes the rewind'
        for t in f.calls(r'Try>::branch$'):
            src = sources(f, t.args[0])
            if not any(x[0] == 'call' and x[1].endswith('Workspace::list_checkpoints') for x in src):
                continue
            # the lookup closure compares with the same id
            finds = [c for c in f.calls(r'Iterator::find$|::find$|::position$|::any$') if c.dest['l'] in reads_locals(f, t.args[0]) or True]
            uses_id = False
            matched_fields = set()
            for c in finds:
                if len(c.args) > 1:
                    o = f.origin(c.args[1])
                    if o[0] == 'rv' and o[1].get('ak') == 'closure':
                        for cap in o[1]['a']:
                            if f.root_local(cap, through_calls=(r'::deref$',)) == idl:
                                uses_id = True
                                # ... and it is compared with the entry's id, nothing else: a label is free text
                                cf = P.fns.get(o[1].get('def'))
                                if cf is not None:
                                    for bi_ in cf.reachable():
                                        for st_ in cf.blocks[bi_]['s']:
                                            for pl_ in ([st_['rv'].get('pl')] if st_.get('rv') and st_['rv'].get('pl') else []) + [op_place(a_) for a_ in (st_.get('rv') or {}).get('a', [])]:
                                                for pp in (pl_ or {}).get('p', []):
                                                    if isinstance(pp, dict) and 'n' in pp and pp.get('o') == 'rip_workspace::Checkpoint':
                                                        matched_fields.add(pp['n'])
            sw = f.switch_on_call(t)
            if sw is None:
                continue
            okt = sw[1].get('0')
            # comparison closures nested deeper (`.or_else(|| list.iter().rev().find(|e| e.label == id))`)
            for cf in P.fns.values():
                if not (cf.path.startswith(f.path + '::{closure') and cf.calls(r'PartialEq(<.*>)?>::(eq|ne)$|::eq$|::ne$')):
                    continue
                for bi_ in cf.reachable():
                    for st_ in cf.blocks[bi_]['s']:
                        for pl_ in ([st_['rv'].get('pl')] if st_.get('rv') and st_['rv'].get('pl') else []) + [op_place(a_) for a_ in (st_.get('rv') or {}).get('a', [])]:
                            for pp in (pl_ or {}).get('p', []):
                                if isinstance(pp, dict) and 'n' in pp and pp.get('o') == 'rip_workspace::Checkpoint':
                                    matched_fields.add(pp['n'])
            other = matched_fields - {'id'}
            if okt is not None and f.edge_dom(sw[0], okt, s.bb) and uses_id and not other:
                ok = True
            elif uses_id and other:
                why = 'the lookup also accepts a match on %s, which is free text, and the caller\'s string — not the found entry\'s id — is what gets joined' % sorted(other)
            elif not uses_id:
                why = 'the listing is searched, but not for the id that is rewound'
        ctx.ob('C13.4', f, 'rewind-id-from-listing', ok, 'rewind_to_checkpoint(session, id) %s' % ('runs only after `id` was found in list_checkpoints(session)' if ok else 'runs with an UNCHECKED id (%s): the id is joined onto the checkpoint directory as a path segment' % why), line=s.line)
