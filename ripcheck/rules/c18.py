"""C18 — single authority per store (structural clauses)."""
import re

from ..core import sole_target, CheckError, Site, edge_implies, op_const, op_place, switches
from ..effects import site_effects
from ..prov import reads_locals, sources

LA = 'ripd::local_authority::'


def same_value(f, a, b):
    """two operands denote the same place (same root local and same field path)."""
    oa, ob = f.origin(a), f.origin(b)
    if oa[0] != 'local' or ob[0] != 'local':
        return False
    na = [pp.get('n') for pp in oa[2] if isinstance(pp, dict) and 'f' in pp]
    nb = [pp.get('n') for pp in ob[2] if isinstance(pp, dict) and 'f' in pp]
    return oa[1] == ob[1] and na == nb


def run(ctx):
    P = ctx.prog
    ctx.not_decided = 'mutual exclusion itself (a property of interleavings of OS processes); liveness of recovery.'
    ctx.rule('C18.1', 'exclusive create: AuthorityLockGuard::try_acquire opens the lock with create_new(true) (no create / truncate), and no other function creates or overwrites the lock path.')
    ctx.rule('C18.2', 'guarded cleanup: every call of try_cleanup_stale_authority_files is reachable only through the Dead edge of pid_liveness(p) for the same p it passes; inside, the rename is reachable only after a fresh read of the lock record and the equal edge of `lock.pid != expected_pid`; try_cleanup_corrupt_lock_file is called only behind the grace-period test and itself refuses when meta.json exists.')
    ctx.rule('C18.3', 'identity binding: after taking the lock file (rename to a tombstone) the taker re-reads the tombstone and re-matches the identity before reporting success, and release removes the lock only if it is still its own (a check before the rename cannot bind the inode the rename moves).')

    # ---------------------------------------------------------------- C18.1
    ta = P.fn(LA + 'AuthorityLockGuard::try_acquire')
    ctx.touch(ta)
    oo = ta.calls(r'^std::fs::OpenOptions::')
    names = {s.name: s for s in oo}
    k = op_const(names['create_new'].args[1]) if 'create_new' in names else None
    ctx.ob('C18.1', ta, 'create-new', 'create_new' in names and k is not None and k.get('v') is True and 'create' not in names and 'truncate' not in names and 'append' not in names,
           'lock file is opened with %s' % sorted(n for n in names if n not in ('new', 'open')), line=oo[0].line if oo else ta.line)
    op = names.get('open')
    if op is not None:
        src = sources(ta, op.args[1])
        ctx.ob('C18.1', ta, 'opens-lock-path', any(x[0] == 'call' and x[1].endswith('authority_lock_path') for x in src), 'the exclusive open targets authority_lock_path(data_dir)', line=op.line)
    # nobody else creates the lock path
    n = 0
    for p, f in sorted(P.fns.items()):
        if f.crate not in ('ripd', 'rip') or f is ta:
            continue
        if not f.calls(r'authority_lock_path$'):
            continue
        for s in f.sites():
            if site_effects(s) & {'FsWrite'} and not re.search(r'rename$|remove_file$', s.callee):
                for a in s.args[:2]:
                    if any(x[0] == 'call' and x[1].endswith('authority_lock_path') for x in sources(f, a)):
                        n += 1
                        ctx.ob('C18.1', f, 'no-second-creator:' + s.name, False, '%s writes the lock path outside try_acquire' % s.callee, line=s.line)
    ctx.ob('C18.1', 'workspace', 'no-second-creator', n == 0, '%d other site(s) create or overwrite lock.json' % n)

    # ---------------------------------------------------------------- C18.7
    ctx.rule('C18.7', 'only the authority module touches the authority files: every rename / remove / write whose path comes from authority_lock_path or authority_meta_path sits inside ripd::local_authority (try_acquire, write_meta, the two guarded cleanups C18.2 audits, release). A client or any other module that deletes or rewrites lock.json / meta.json does so without the liveness and identity checks, and can take the files of a live authority.')
    n7in = 0
    AUTHP = r'authority_(lock|meta)_path$'

    def from_authority_path(fn, op):
        return sorted({x[1].rsplit('::', 1)[-1] for x in sources(fn, op) if x[0] == 'call' and re.search(AUTHP, x[1])})
    for p, f in sorted(P.fns.items()):
        if f.crate not in ('ripd', 'rip'):
            continue
        inside = p.startswith(LA)
        for s in f.sites():
            if not (site_effects(s) & {'FsWrite'}):
                continue
            if inside:
                # the module's own mutations (directly or through its private helpers: rename_if_present(from, to))
                n7in += 1
                ctx.touch(f)
                continue
            hit = sorted({h for a in s.args[:2] for h in from_authority_path(f, a)})
            where = (f, s)
            if not hit:
                # a path handed in as a parameter: look at what the callers pass
                for a in s.args[:2]:
                    r_ = f.root_local(a, through_calls=(r'::as_ref$', r'::deref$', r'::as_path$', r'::borrow$'))
                    if r_ is not None and 1 <= r_ <= f.argc and '{closure' not in p:
                        for c in P.callers('^' + re.escape(p) + '$'):
                            if c.fn.path.startswith(LA) or r_ - 1 >= len(c.args):
                                continue
                            h2 = from_authority_path(c.fn, c.args[r_ - 1])
                            if h2:
                                hit, where = h2, (c.fn, c)
            if hit:
                ctx.ob('C18.7', where[0], 'authority-files-owned:' + s.name, False, '%s on %s OUTSIDE ripd::local_authority: the file of a (possibly live) authority is changed without the pid-liveness / identity checks of the guarded cleanup' % (s.callee.rsplit('::', 1)[-1], '/'.join(hit)), line=where[1].line)
    ctx.floor('C18.7', 'file mutations inside ripd::local_authority', n7in, 6)
    ctx.ob('C18.7', 'workspace', 'authority-files-owned', True, '%d mutation site(s) of the authority files, all inside ripd::local_authority' % n7in)

    # ---------------------------------------------------------------- C18.8
    ctx.rule('C18.8', 'a process that answers the signal-0 probe is never called dead: in pid_liveness every construction of PidLiveness::Dead lies behind the failure edge of the probe (kill(pid, 0) != 0) — on the success edge only Alive (or Unknown) is answered, whatever else is known about the process (its executable, its start time). "Dead" is what licenses the stale cleanup; a live owner judged dead by a heuristic loses its lock to a second authority.')
    pl8 = P.fn(LA + 'pid_liveness')
    ctx.touch(pl8)
    from ..inline import inline_calls as _inl8
    pl8 = _inl8(P, pl8, lambda body, callee: callee.startswith(LA) and callee != LA + 'pid_liveness', depth=2, note=ctx.note)
    probes = [s_ for s_ in pl8.sites() if re.search(r'::(kill|killpg)$', s_.callee or '') and s_.callee not in P.fns]
    ctx.floor('C18.8', 'signal-0 probes in pid_liveness', len(probes), 1)
    deads = [(bi, st) for (bi, si, st) in pl8.aggregates(r'PidLiveness$') if st['rv'].get('variant') == 'Dead']
    ctx.floor('C18.8', 'constructions of PidLiveness::Dead', len(deads), 1)
    for pr in probes:
        succ_edges = []
        for (bi, on, ts, els) in switches(pl8):
            o = pl8.origin(on)
            if o[0] == 'rv' and o[1]['k'] == 'bin' and o[1]['op'] in ('Eq', 'Ne') and any(pr.dest['l'] in reads_locals(pl8, a_) for a_ in o[1]['a'] if op_place(a_)) and any((op_const(a_) or {}).get('v') == '0' for a_ in o[1]['a']):
                succ_edges.append((bi, els if o[1]['op'] == 'Eq' else ts.get('0')))
        if not succ_edges:
            raise CheckError('C18.8: the result of the signal-0 probe is not compared with 0 (unrecognised idiom)')
        for (bi, st) in deads:
            on_success = any(t_ is not None and (bi == t_ or bi in pl8.reach([t_])) and not pl8.can_reach(bi, sb) for (sb, t_) in succ_edges)
            ctx.ob('C18.8', pl8, 'dead-only-when-probe-fails', not on_success,
                   'PidLiveness::Dead is built only behind the failure edge of kill(pid, 0)' if not on_success else
                   'PidLiveness::Dead is reachable on the SUCCESS edge of kill(pid, 0) (line %s): a process that is alive is reported dead, the stale cleanup takes its lock and a second authority starts' % st.get('ln'), line=st.get('ln'))

    # ---------------------------------------------------------------- C18.2
    pl = P.adts.get(LA + 'PidLiveness')
    if pl is None:
        raise CheckError('C18.2: ADT PidLiveness missing')
    dead = [i for i, v in enumerate(pl['variants']) if v['name'] == 'Dead']
    if not dead:
        raise CheckError('C18.2: PidLiveness::Dead missing')
    dead = str(dead[0])
    sites0 = P.callers(r'local_authority::try_cleanup_stale_authority_files$')
    ctx.floor('C18.2', 'stale-cleanup call sites', len(sites0), 3)
    # a cleanup call that sits in a small helper ("cleanup_if_owner_dead(dir, liveness, pid, ..)") is judged where the
    # helper is called: the helper is spliced into each caller, so the liveness call, the Dead edge and the pid are
    # seen in one body
    from ..inline import inline_calls as _inl2
    sites = []
    for s in sites0:
        if s.fn.calls(r'local_authority::pid_liveness$') or s.fn.path.startswith(LA):
            sites.append(s)
            continue
        callers = [c for c in P.callers('^' + re.escape(s.fn.path) + '$') if c.fn.crate == s.fn.crate]
        if not callers:
            sites.append(s)
            continue
        seen_f = set()
        for c in callers:
            if c.fn.path in seen_f:
                continue
            seen_f.add(c.fn.path)
            F = _inl2(P, c.fn, lambda body, callee, hp=s.fn.path: callee == hp, depth=1, note=ctx.note)
            sites += [x for x in F.calls(r'local_authority::try_cleanup_stale_authority_files$')]
    for s in sites:
        f = s.fn
        ok = False
        why = 'no pid_liveness test dominates the cleanup'
        for pcall in f.calls(r'local_authority::pid_liveness$'):
            if not f.dom(pcall.bb, s.bb):
                continue
            if not same_value(f, pcall.args[0], s.args[1]):
                why = 'liveness is tested for a different pid than the one cleaned up'
                continue
            res = pcall.dest['l']
            for (bi, on, ts, els) in switches(f):
                o = f.origin(on)
                if o[0] == 'rv' and o[1]['k'] == 'discr' and res in reads_locals(f, {'c': o[1]['pl']}) and dead in ts:
                    # the Dead value alone must lead there (`Dead | Unknown => cleanup` shares one edge)
                    if sole_target(ts, els, dead) is not None and edge_implies(f, bi, ts[dead], s.bb):
                        ok = True
            if not ok:
                why = 'the cleanup is reachable without the Dead edge of the liveness test'
        ctx.ob('C18.2', f, 'cleanup-only-when-dead', ok, 'stale cleanup %s' % ('runs only on the Dead edge of pid_liveness(pid) for the pid it passes' if ok else 'is not guarded: ' + why), line=s.line)
    from ..inline import contains as _contains
    _wren = _contains(rx_calls=r'^std::fs::(rename|remove_file)$')
    # private helpers of the module that do the renaming (`rename_if_present(from, to, ..)`) are spliced in
    cl = _inl2(P, P.fn(LA + 'try_cleanup_stale_authority_files'), lambda body, callee: callee.startswith(LA) and not re.search(r'::(read_authority_\w+|authority_\w+_path|now_ms|pid_liveness)$', callee) and _wren(body, callee), depth=2, note=ctx.note)
    ctx.touch(cl)
    ren = cl.calls(r'^std::fs::rename$')
    reads = cl.calls(r'local_authority::read_authority_lock_record$')
    pid_param = [i for i in range(1, cl.argc + 1) if cl.lname(i) == 'expected_pid'] or [i for i in range(1, cl.argc + 1) if re.search(r'^(u32|u64|i32|core::option::Option<u32>)$', cl.lty(i))]
    if not ren or not pid_param:
        raise CheckError('C18.2: cleanup has no rename / expected_pid')
    lock_ren = [r for r in ren if any(x[0] == 'call' and x[1].endswith('authority_lock_path') for x in sources(cl, r.args[0]))]
    ctx.floor('C18.2', 'renames of lock.json in the stale cleanup', len(lock_ren), 1)
    eq_edges = []
    for (bi, on, ts, els) in switches(cl):
        o = cl.origin(on)
        if o[0] == 'rv' and o[1]['k'] == 'bin' and o[1]['op'] in ('Ne', 'Eq'):
            a, b = o[1]['a']
            oa, ob = cl.origin(a), cl.origin(b)
            flds = []
            for x in (oa, ob):
                if x[0] == 'local':
                    flds += [(pp.get('o'), pp.get('n')) for pp in x[2] if isinstance(pp, dict) and 'f' in pp]
            params = [x[1] for x in (oa, ob) if x[0] == 'local' and not x[2]]
            if (LA + 'AuthorityLockRecord', 'pid') in flds and pid_param[0] in params:
                eq_edges.append((bi, ts.get('0') if o[1]['op'] == 'Ne' else els))
    # the identity check may sit in a bool predicate of the module (`stale_authority_cleanup_applies(dir, pid)`): it counts
    # when the predicate re-reads the lock record, can only answer true with `lock.pid == <its pid parameter>`, is handed
    # the expected pid, and its TRUE edge dominates the rename
    pred_edges = []
    pred_reads = []
    for c_ in cl.sites():
        H = P.fns.get(c_.callee or '')
        if H is None or not (c_.callee or '').startswith(LA) or (P.sigs.get(c_.callee) or {}).get('output') != 'bool':
            continue
        hp = [i for i, a_ in enumerate(c_.args) if cl.root_local(a_) == pid_param[0]]
        if not hp or not H.calls(r'local_authority::read_authority_lock_record$'):
            continue
        only_true_on_match = True
        saw_eq = False
        for (dbi, si, kind, payload, _ln) in H.defs(0):
            if kind != 'rv':
                only_true_on_match = False
                continue
            k_ = op_const(payload['a'][0]) if payload.get('k') == 'use' and payload.get('a') else None
            if k_ is not None and k_.get('v') is False:
                continue
            o_ = H.origin({'c': {'l': 0}}) if False else None
            src_ = payload
            if payload.get('k') == 'use':
                oo_ = H.origin(payload['a'][0])
                src_ = oo_[1] if oo_[0] == 'rv' else {}
            if src_.get('k') == 'bin' and src_.get('op') == 'Eq':
                fl_ = []
                pr_ = []
                for x_ in src_['a']:
                    ox = H.origin(x_)
                    if ox[0] == 'local':
                        fl_ += [(pp.get('o'), pp.get('n')) for pp in ox[2] if isinstance(pp, dict) and 'f' in pp]
                        if not ox[2]:
                            pr_.append(ox[1])
                if (LA + 'AuthorityLockRecord', 'pid') in fl_ and (hp[0] + 1) in pr_:
                    saw_eq = True
                    continue
            only_true_on_match = False
        if only_true_on_match and saw_eq:
            sw_ = cl.switch_on_call(c_)
            if sw_ is not None:
                bb_, ts_, els_, neg_ = sw_
                true_t = ts_.get('0') if neg_ else els_
                pred_edges.append((bb_, true_t))
                pred_reads.append(c_)
    for r in lock_ren:
        ok1 = any(cl.dom(x.bb, r.bb) for x in reads + pred_reads)
        ok2 = any(t is not None and cl.edge_dom(bi, t, r.bb) for (bi, t) in eq_edges + pred_edges)
        ctx.ob('C18.2', cl, 'reread-before-rename', ok1, 'the lock record is re-read inside the cleanup before the rename', line=r.line)
        ctx.ob('C18.2', cl, 'pid-match-before-rename', ok2, 'the rename is reachable only when lock.pid == expected_pid', line=r.line)
    # ... and the endpoint file is retired under the same condition: only the meta.json the dead pid wrote
    ctx.rule('C18.10', 'recovery removes only the files of the authority that is gone: in the stale cleanup every rename / remove of meta.json is reachable only through the equal edge of a '
             'comparison of the pid recorded IN that meta.json with the expected (dead) pid. Once lock.json is renamed away the next authority may acquire and publish its endpoint at any moment; '
             'a cleanup that retires "whatever meta.json it finds" deletes the live authority\'s endpoint file, and no client can attach to it or replace it.')
    meta_ops = [r for r in cl.calls(r'^std::fs::(rename|remove_file)$') if any(x[0] == 'call' and x[1].endswith('authority_meta_path') for x in sources(cl, r.args[0]))]
    meta_eq = []
    for (bi, on, ts, els) in switches(cl):
        o = cl.origin(on)
        if o[0] == 'rv' and o[1]['k'] == 'bin' and o[1]['op'] in ('Ne', 'Eq'):
            a, b = o[1]['a']
            oa, ob = cl.origin(a), cl.origin(b)
            flds = []
            for x in (oa, ob):
                if x[0] == 'local':
                    flds += [(pp.get('o') or '', pp.get('n')) for pp in x[2] if isinstance(pp, dict) and 'f' in pp]
            params = [x[1] for x in (oa, ob) if x[0] == 'local' and not x[2]]
            if any(n_ == 'pid' and o_ != LA + 'AuthorityLockRecord' and o_.startswith(LA) for (o_, n_) in flds) and pid_param[0] in params:
                meta_eq.append((bi, ts.get('0') if o[1]['op'] == 'Ne' else els))
    ctx.floor('C18.10', 'renames / removals of meta.json in the stale cleanup', len(meta_ops), 1)
    for r in meta_ops:
        okm_ = any(t is not None and cl.edge_dom(bi, t, r.bb) for (bi, t) in meta_eq)
        ctx.ob('C18.10', cl, 'meta-pid-match-before-' + r.name, okm_, 'meta.json is %s %s' % ('renamed' if r.name == 'rename' else 'removed',
               'only when the pid it records is the expected (dead) pid' if okm_ else 'WITHOUT a match of the pid it records against the expected pid: the endpoint file of whoever took over is retired'), line=r.line)
    # recovery does not hinge on the endpoint file: "lock only, dead pid" (the owner died between acquiring and publishing)
    # must be cleanable, so nothing read from meta.json may decide whether the stale lock is retired
    ctx.rule('C18.9', 'a crashed owner\'s lock is retired whatever became of its endpoint file: in the stale cleanup no test of what read_authority_meta returned can lead to a return that bypasses the rename of lock.json. The leftover state "lock.json of a dead pid, no meta.json" is what a crash between acquire and publish leaves; if the cleanup declines it, the store never becomes usable again.')
    metas = cl.calls(r'local_authority::read_authority_meta$')
    for r in lock_ren:
        gate = None
        for (bi, on, ts, els) in switches(cl):
            if not cl.can_reach(bi, r.bb) or bi == r.bb:
                continue
            if not any(m_.dest and m_.dest['l'] in reads_locals(cl, on) for m_ in metas):
                continue
            for t_ in set(list(ts.values()) + [els]) - {None}:
                if cl.blocks[t_]['t']['k'] == 'unreachable':
                    continue
                if not cl.must_pass([r.bb], t_, [x for x in cl.returns()]):
                    gate = (bi, cl.blocks[bi]['t'].get('ln'))
        ctx.ob('C18.9', cl, 'lock-retired-without-meta', gate is None,
               'no test of meta.json stands between the identity check and the rename of lock.json' if gate is None else
               'a test of what read_authority_meta returned (line %s) can return before lock.json is renamed: a dead owner that left a lock but no (matching) meta.json is never cleaned up — the store stays locked for good' % gate[1], line=r.line)
    csites = P.callers(r'local_authority::try_cleanup_corrupt_lock_file$')
    ctx.floor('C18.2', 'corrupt-cleanup call sites', len(csites), 2)
    for s in csites:
        f = s.fn
        fam_paths = [f.path] + [g.path for g in P.closures_of(f.path)]
        elapsed = any(P.fns[p].calls(r'std::time::Instant::elapsed$') for p in fam_paths)
        guarded = False
        for c in f.calls(r'core::option::Option::<T>::unwrap_or$|Option::unwrap_or$'):
            sw = f.switch_on_call(c)
            if sw and f.edge_dom(sw[0], sw[2], s.bb):
                guarded = True
        ctx.ob('C18.2', f, 'corrupt-cleanup-after-grace', elapsed and guarded, 'corrupt-lock cleanup is reachable only behind the elapsed-time test', line=s.line)
    cc = _inl2(P, P.fn(LA + 'try_cleanup_corrupt_lock_file'), lambda body, callee: callee.startswith(LA) and not re.search(r'::(read_authority_\w+|authority_\w+_path|now_ms|pid_liveness)$', callee) and _wren(body, callee), depth=2, note=ctx.note)
    ctx.touch(cc)
    ex = [e for e in cc.calls(r'^std::path::Path::exists$') if any(x[0] == 'call' and x[1].endswith('authority_meta_path') for x in sources(cc, e.args[0]))]
    okm = False
    for e in ex:
        sw = cc.switch_on_call(e)
        if sw:
            bb, ts, els, neg = sw
            false_t = els if neg else ts.get('0')
            okm = all(false_t is not None and cc.edge_dom(bb, false_t, r.bb) for r in cc.calls(r'^std::fs::rename$'))
    ctx.ob('C18.2', cc, 'refuses-when-meta-exists', okm, 'the corrupt-lock rename happens only when meta.json is absent', line=cc.line)

    # ---------------------------------------------------------------- C18.3
    for r in lock_ren:
        after = cl.reach_from_after(r.bb)
        tomb = cl.root_local(r.args[1], through_calls=(r'::as_ref$', r'::deref$'))
        rereads = [s for s in cl.sites() if s.bb in after and site_effects(s) & {'FsRead'} and tomb is not None and any(tomb in reads_locals(cl, a) for a in s.args)]
        ctx.ob('C18.3', cl, 'identity-bound-after-rename', bool(rereads),
               'after rename(lock -> tombstone) the tombstone is %s' % ('re-read and matched' if rereads else
                                                                       'never re-read: two contenders that both saw the dead pid can each rename — the second one moves the first one\'s LIVE lock away and both acquire'), line=r.line)
    dr = next((f for p, f in P.fns.items() if p.startswith('<ripd::local_authority::AuthorityLockGuard as ') and p.endswith('Drop>::drop')), None)
    if dr is None:
        raise CheckError('C18.3: Drop impl of AuthorityLockGuard not found')
    ctx.touch(dr)
    rm = dr.calls(r'^std::fs::remove_file$')
    chk = dr.calls(r'read_authority_lock_record$|^std::fs::read')
    ctx.ob('C18.3', dr, 'release-checks-ownership', bool(chk) or not rm, 'release removes lock.json %s' % ('after checking it is still its own' if chk else 'UNCONDITIONALLY: if the lock was (wrongly) taken over, the new authority\'s lock is deleted'), line=rm[0].line if rm else dr.line)

    # ---------------------------------------------------------------- C18.4
    ctx.rule('C18.4', 'held to the end: in serve() the AuthorityLockGuard is still live wherever the server task is awaited, timed out or aborted — the lock and endpoint record are released only after the old authority stopped serving (in-flight streams included), never before the graceful drain.')
    sv = P.body('ripd::server::serve')
    ctx.touch(sv)
    joins = [s_ for s_ in sv.sites() if re.search(r'JoinHandle', s_.full or s_.callee) and re.search(r'::poll$|::abort$|timeout::timeout$|::is_finished$', s_.callee + ' ' + (s_.full or ''))
             or re.search(r'JoinHandle', s_.full or '') and re.search(r'::poll$', s_.declared or '')]
    joins = list({s_.bb: s_ for s_ in joins}.values())
    ctx.floor('C18.4', 'await / timeout / abort sites of the server task in serve()', len(joins), 2)
    for s_ in joins:
        held = sv.held_at(s_.bb, r'ripd::local_authority::AuthorityLockGuard$')
        ctx.ob('C18.4', sv, 'lock-held-while-serving:' + s_.name, bool(held),
               'the server task is %s %s' % ({'abort': 'aborted', 'poll': 'awaited', 'timeout': 'given its drain timeout'}.get(s_.name, s_.name),
                                            'while the authority lock is still held' if held else 'AFTER the authority lock was released: a second authority can take the store while this one still serves in-flight streams'), line=s_.line)

    # ---------------------------------------------------------------- C18.5
    ctx.rule('C18.5', 'the corrupt-lock grace clock restarts whenever the lock was seen valid: in both wait loops (the server\'s acquire_authority_lock_with_recovery and the client\'s ensure_local_authority_with_paths) every path from the Ok(Some(record)) arm of read_authority_lock_record back to the loop head passes an assignment of None to the "invalid since" cell (the Option<Instant> that get_or_insert(Instant::now()) arms). A clock left running from an earlier half-written lock lets the next half-written lock — of a live contender that is just starting — be removed at once, without the grace period.')
    n5 = 0
    for path5 in ('ripd::server::acquire_authority_lock_with_recovery', 'rip::local_authority::ensure_local_authority_with_paths'):
        g = P.body(path5, required=False)
        if g is None:
            continue
        gi = g.calls(r'core::option::Option::<T>::get_or_insert(_with)?$', full=r'Instant')
        rd = g.calls(r'local_authority::read_authority_lock_record$')
        if not gi or not rd:
            continue
        cell = g.root_local(gi[0].args[0], through_calls=(r'::deref_mut$',))
        if cell is None:
            continue
        n5 += 1
        ctx.touch(g)
        resets = [bi for (bi, si, kind, payload, ln) in g.defs(cell) if kind == 'rv' and (payload['k'] == 'agg' and payload.get('variant') == 'None' or payload['k'] == 'use' and (op_const(payload['a'][0]) is not None or (lambda o_: o_[0] == 'rv' and o_[1].get('variant') == 'None')(g.origin(payload['a'][0]))))]
        # the Ok(Some(..)) arm: switch on the discriminant of the call result (Ok = 0), then of its payload (Some = 1)
        valid_targets = []
        for r_ in rd:
            for (bi, on, ts, els) in switches(g):
                o = g.origin(on)
                if not (o[0] == 'rv' and o[1]['k'] == 'discr'):
                    continue
                pl = o[1]['pl']
                if pl['l'] != r_.dest['l']:
                    continue
                projs = [x for x in pl.get('p', []) if isinstance(x, dict)]
                if any('dc' in x and x.get('v') == 0 for x in projs) and '1' in ts:
                    valid_targets.append(ts['1'])          # (result as Ok).0 is Some
        ok5 = bool(valid_targets) and bool(resets)
        for vt in valid_targets:
            h5 = g.innermost_loop(vt)
            if h5 is None:
                ok5 = False
                continue
            body5 = g.loops()[h5]
            r5 = g.reach([vt], stop=resets)
            if any(h5 in g.succs(b) for b in r5 if b in body5 and b not in resets):
                ok5 = False
        ctx.ob('C18.5', g, 'grace-clock-reset-on-valid-lock', ok5,
               'invalid-since cell `%s`: %s' % (g.lname(cell), 'every iteration that saw a valid lock record resets it before looping' if ok5 else
               'an iteration that saw a VALID lock record can loop without resetting it: the next unreadable lock (a live contender still writing it) is cleaned up without the grace period'),
               line=gi[0].line)
    ctx.floor('C18.5', 'wait loops with a corrupt-lock grace clock', n5, 2)

    # ---------------------------------------------------------------- C18.6
    ctx.rule('C18.6', 'the corrupt-lock marker is one both sides know: every string the wait loops look for in the error of read_authority_lock_record (`err.contains("…")`) occurs literally in a message template of the reader (the functions reachable from read_authority_lock_record inside ripd::local_authority). A reworded message that no longer contains the marker switches the corrupt-lock recovery off: a lock.json torn by a crash keeps the store unusable for good.')
    needles = []
    for path6 in ('ripd::server::acquire_authority_lock_with_recovery', 'rip::local_authority::ensure_local_authority_with_paths'):
        g = P.body(path6, required=False)
        if g is None:
            continue
        for c in g.calls(r'core::str::<impl str>::(contains|starts_with|ends_with)$'):
            k = op_const(c.args[1]) if len(c.args) > 1 else None
            if k is not None and 'str' in k:
                needles.append((g, c, k['str']))
    rd6 = 'ripd::local_authority::read_authority_lock_record'
    par6 = [p_ for p_ in P.reach_fns([rd6]) if p_ in P.fns and p_.startswith('ripd::local_authority::')]
    templates = []
    for p_ in par6:
        h = P.fns[p_]
        for b in h.blocks:
            for st in b['s']:
                for o_ in (st.get('rv') or {}).get('a', []):
                    k = op_const(o_)
                    if k is not None and ('bstr' in k or 'str' in k):
                        templates.append(k.get('bstr') or k.get('str'))
            if b['t']['k'] == 'call':
                for o_ in b['t']['a']:
                    k = op_const(o_)
                    if k is not None and ('bstr' in k or 'str' in k):
                        templates.append(k.get('bstr') or k.get('str'))
    ctx.floor('C18.6', 'error markers the wait loops look for', len(needles), 2)
    ctx.floor('C18.6', 'message templates of the lock reader', len(templates), 1)
    for g, c, nd in needles:
        ok6 = any(nd in t for t in templates)
        ctx.ob('C18.6', g, 'marker-produced:' + nd.replace(' ', '_'), ok6, 'the marker "%s" %s' % (nd, 'occurs in a message template of read_authority_lock_record' if ok6 else
               'occurs in NO message of the lock reader (%d function(s), %d template(s) scanned): the recovery it guards can never run' % (len(par6), len(templates))), line=c.line)
