"""Thorough tier = quick tier + (a) type-level witnesses (compile_fail doc-tests with compiling
twins) for the property, (b) the checker self-test: every mutant of the property is applied to a
scratch copy of the CURRENT tree, exported, and must be reported by the named rule."""
import os
import sys

from . import selftest, witnesses


def run(prop, ctx, say):
    out = {}
    w = witnesses.run(prop, say)
    if w is not None:
        out['witnesses'] = w
        if w.get('violations'):
            out.setdefault('violations', []).extend(w['violations'])
        if w.get('broken'):
            out['broken'] = w['broken']
    st = selftest.run(prop, say)
    out['selftest'] = st
    if st.get('undetected'):
        out['broken'] = 'checker self-test: mutant(s) not detected: %s' % ', '.join(st['undetected'])
    return out
