//! Type-level witnesses for the rip properties: each forbidden access is a
//! `compile_fail,E0xxx` doc-test (error codes are only honoured on nightly) paired with a
//! compiling twin that differs only by the offending line, so that a witness whose path is
//! merely wrong cannot pass. The crates are named as an external user would name them.

/// C02 — the truth-file handle cannot be named from outside `rip_log`.
/// ```compile_fail,E0616
/// let dir = std::env::temp_dir().join("w_c02_a");
/// let log = rip_log::EventLog::new(dir.join("events.jsonl")).unwrap();
/// let _w = &log.writer; // private: nobody outside rip_log can write the file directly
/// ```
pub fn w_c02_writer_private_compile_fail() {}

/// C02 — the path of the truth file is private too.
/// ```compile_fail,E0616
/// let dir = std::env::temp_dir().join("w_c02_b");
/// let log = rip_log::EventLog::new(dir.join("events.jsonl")).unwrap();
/// let _p = &log.path;
/// ```
pub fn w_c02_path_private_compile_fail() {}

/// C02 twin — the same program with the permitted API compiles.
/// ```no_run
/// let dir = std::env::temp_dir().join("w_c02_c");
/// let log = rip_log::EventLog::new(dir.join("events.jsonl")).unwrap();
/// let _r = log.replay();
/// ```
pub fn w_c02_twin() {}

/// C01 — the per-thread seq table of the store is private: no outside code can set a seq.
/// ```compile_fail,E0616
/// fn poke(store: &ripd::ContinuityStore) {
///     let _ = store.next_seq.lock();
/// }
/// ```
pub fn w_c01_next_seq_private_compile_fail() {}

/// C01 twin.
/// ```no_run
/// fn poke(store: &ripd::ContinuityStore) {
///     let _ = store.list();
/// }
/// ```
pub fn w_c01_twin() {}

/// C16 — a validated payload cannot be edited after validation.
/// ```compile_fail,E0616
/// fn edit(mut p: rip_provider_openresponses::CreateResponsePayload) {
///     p.body = serde_json::json!({});
/// }
/// ```
pub fn w_c16_body_private_compile_fail() {}

/// C16 — nor can its error list be cleared.
/// ```compile_fail,E0616
/// fn edit(mut p: rip_provider_openresponses::CreateResponsePayload) {
///     p.errors.clear();
/// }
/// ```
pub fn w_c16_errors_private_compile_fail() {}

/// C16 twin.
/// ```no_run
/// fn read(p: &rip_provider_openresponses::CreateResponsePayload) -> bool {
///     let _ = p.body();
///     p.errors().is_empty()
/// }
/// ```
pub fn w_c16_twin() {}

/// C18 — an authority guard cannot be forged with a struct literal.
/// ```compile_fail,E0451
/// let record = ripd::AuthorityLockRecord { pid: 1, started_at_ms: 0, workspace_root: String::new() };
/// let _g = ripd::AuthorityLockGuard { lock_path: "x".into(), meta_path: "y".into(), record };
/// ```
pub fn w_c18_guard_not_forgeable_compile_fail() {}

/// C18 twin — the record type itself is plain data and the guard comes from try_acquire.
/// ```no_run
/// let _record = ripd::AuthorityLockRecord { pid: 1, started_at_ms: 0, workspace_root: String::new() };
/// let _g = ripd::AuthorityLockGuard::try_acquire("data", "ws");
/// ```
pub fn w_c18_twin() {}

/// C20 — the frame window cannot be re-based from outside.
/// ```compile_fail,E0616
/// let mut fs = rip_tui::FrameStore::new(8);
/// fs.base_seq = 7;
/// ```
pub fn w_c20_base_seq_private_compile_fail() {}

/// C20 twin.
/// ```no_run
/// let fs = rip_tui::FrameStore::new(8);
/// let _ = fs.get_by_seq(7);
/// ```
pub fn w_c20_twin() {}
