#!/usr/bin/env python3
"""Per-round summary of /verif/seeded/*/meta.json (after tools/reseed.py): how many seeded changes are reported by the
check of their own property, only by a neighbouring check, or by none."""
import ast, glob, json, os, re
V = os.path.dirname(os.path.dirname(os.path.abspath(__file__)))
rounds = {}
for mp in sorted(glob.glob(os.path.join(V, 'seeded', '*', 'meta.json'))):
    sid = os.path.basename(os.path.dirname(mp))
    d = json.load(open(mp))
    m = re.match(r'^(C\d\d)-([AB])(\d?)$', sid)
    prop, rnd = m.group(1), int(m.group(3) or 1)
    al = d.get('checks_that_alarm')
    try:
        al = ast.literal_eval(al) if isinstance(al, str) and al.startswith('{') else {}
    except Exception:
        al = {}
    hit = {k for k, v in al.items() if v == 1}
    r = rounds.setdefault(rnd, {'n': 0, 'own': [], 'neighbour': [], 'missed': []})
    r['n'] += 1
    (r['own'] if prop in hit else r['neighbour'] if hit else r['missed']).append(sid)
tot = 0
for rnd in sorted(rounds):
    r = rounds[rnd]
    rep = len(r['own']) + len(r['neighbour'])
    tot += rep
    print('round %d: %d of %d reported (%d by the check of their own property, %d only by a neighbouring check: %s); missed: %s' % (
        rnd, rep, r['n'], len(r['own']), len(r['neighbour']), ', '.join(r['neighbour']) or '-', ', '.join(r['missed']) or '-'))
print('all rounds: %d of %d reported' % (tot, sum(r['n'] for r in rounds.values())))
