#!/usr/bin/env python3
"""Write the prompt for an independent seeding sub-agent: the text of ONE property, the one-sentence
summaries of the changes earlier authors made for it (so that a new author picks other mechanisms),
and the path of its own scratch worktree.  Nothing about /verif's machinery goes into the prompt.

  mkprompt.py <round> <PROP> <worktree> <out-dir>   -> prints the prompt
"""
import glob, json, os, sys
V = os.path.dirname(os.path.dirname(os.path.abspath(__file__)))


def main():
    rnd, prop, wt, out = sys.argv[1:5]
    p = [json.loads(l) for l in open(os.path.join(V, 'properties.jsonl')) if json.loads(l)['id'] == prop][0]
    earlier = []
    for d in sorted(glob.glob(os.path.join(V, 'seeded', prop + '-*'))):
        try:
            m = json.load(open(os.path.join(d, 'meta.json')))
        except Exception:
            continue
        s = (m.get('summary') or '').strip().replace('\n', ' ')
        if len(s) > 260:
            s = s[:257] + '...'
        earlier.append('- ' + s)
    txt = f"""You are helping to evaluate a verification framework for the Rust project numman-ali/rip (a harness for coding agents: an HTTP/SSE authority over an append-only JSONL event log with rebuildable sidecar caches, seek indexes and compaction checkpoints). You have your own scratch git worktree of the repository at {wt} (detached HEAD). Work ONLY inside {wt} and write your results ONLY to {out}/ (create it). Do not read or touch /verif or /repo. There is no network; use `CARGO_NET_OFFLINE=true cargo ... --offline` and ALWAYS set `CARGO_TARGET_DIR={wt}/target`. To keep the machine usable for others, pass `-j 4` to cargo build/test/nextest.

The property (this is all you are told about what is being verified):

  id: {p['id']}
  title: {p['title']}
  statement: {p['statement']}
  quantifier: {p['quantifier']['text']}
  why tests cannot settle it: {p['why_tests_cant']}
  code anchors: {json.dumps(p['anchors'])}

Your task: produce TWO independent changes (call them A and B) to the repository's non-test source code, each of which BREAKS this property while the workspace still compiles and the existing test suite still passes. Each must be a realistic change — the kind of edit a maintainer could plausibly make as an optimisation, clean-up, robustness tweak or small feature — not sabotage, and not something ordinary use would expose at once. Each must need something specific to manifest: a particular interleaving, a crash or fault at a particular point, a multi-step sequence of operations, an unusual input, or — preferred in this round — TWO COOPERATING SITES that each look fine alone (e.g. a helper whose contract changes slightly plus an untouched-looking caller, or a change in one crate that invalidates an assumption in another). A and B must use different mechanisms and attack different clauses of the property, and different files where possible.

Earlier authors already made the following changes for this property; do NOT repeat their mechanisms or clauses — look for parts of the behaviour they left alone:
{chr(10).join(earlier) if earlier else '- (none)'}

For each change X in {{A, B}} write into {out}/:
  X.patch.diff  — `git diff` of the breaking change alone (non-test source only), relative to HEAD, applying with `git apply` in a clean worktree.
  X.demo.diff   — `git diff` of a demonstration alone (a new test, in an existing test module or a new tests/*.rs file of the affected crate; no new dependencies), relative to HEAD, applying cleanly on its own AND together with X.patch.diff (keep the two diffs in disjoint hunks; put the demo at the end of a file or in a new file). The demonstration must PASS on the unchanged tree and FAIL with the change applied, deterministically (no sleeps-as-synchronisation that can flake; steer interleavings with channels/barriers or by calling the pieces in the order of the bad schedule).
  X.meta.json   — {{"property": "{prop}", "summary": "<one or two sentences>", "mechanism": "<what was changed, where, why each site looks fine alone>", "needs_to_manifest": "<the interleaving / crash point / sequence / input>", "files": ["..."], "demo_cmd": "<one cargo command, run from the worktree root, that runs just the demo, e.g. cargo nextest run --offline -j 4 -p <crate> -E 'test(<name>)'  or  cargo test --offline -j 4 -p <crate> <name>>"}}

Procedure you must follow for each change and confirm in your final answer: (1) demo alone passes; (2) with the patch the workspace builds (`cargo build --offline --workspace -j 4`) and the demo fails; (3) with the patch and WITHOUT the demo, the existing tests of every crate you touched (and of crates depending on it, at least `-p ripd -p rip-log -p rip-kernel -p rip-tools -p rip-workspace -p rip-tui -p rip-cli` as applicable) still pass — run them (`cargo nextest run --offline -j 4 -p <crate>`; a handful of pty / network tests fail on the unchanged tree in this sandbox too: compare with the unchanged tree when something fails). (4) `git stash`-free hygiene: leave the worktree clean (`git checkout -- . && git clean -fdq -e target`) at the end, with only {out}/ holding your results.

Keep the final answer short: for A and B, one paragraph each (what, where, what it needs to manifest, the demo command, and that steps 1–3 held)."""
    print(txt)


main()
