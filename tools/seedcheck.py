#!/usr/bin/env python3
"""Run the quick checks (no evidence written) against a tree with a seeded change.
usage: seedcheck.py <patch.diff> [PROP ...]        apply to /repo, run, undo (the sanctioned way; /repo must be clean)
       seedcheck.py --tree <dir> [PROP ...]         run against an already patched scratch tree (RIP_REPO=<dir>), /repo untouched"""
import subprocess, sys, os, json
V = os.path.dirname(os.path.dirname(os.path.abspath(__file__)))
args = sys.argv[1:]
tree = None
if args[0] == '--tree':
    tree = args[1]; args = args[2:]; patch = tree
else:
    patch = args[0]; args = args[1:]
props = [p.upper() for p in args] or ['C%02d' % i for i in range(1, 21)]
env = dict(os.environ)
if tree:
    env['RIP_REPO'] = tree
else:
    st = subprocess.run(['git', '-C', '/repo', 'status', '--porcelain'], capture_output=True, text=True).stdout.strip()
    if st:
        print('refusing: /repo is not clean:\n' + st); sys.exit(3)
    r = subprocess.run(['git', '-C', '/repo', 'apply', patch], capture_output=True, text=True)
    if r.returncode != 0:
        print('patch does not apply:', r.stderr); sys.exit(3)
res = {}
try:
    def one(p):
        c = subprocess.run([os.path.join(V, 'check'), p, '--no-write'], capture_output=True, text=True, cwd=V, env=env)
        lines = [l for l in c.stdout.splitlines() if l.startswith('  C') or l.startswith('CHECK-ERROR')]
        return p, c.returncode, lines
    # the first check exports the facts of this tree; the others only read them and run side by side
    from concurrent.futures import ThreadPoolExecutor
    first = [one(props[0])]
    with ThreadPoolExecutor(max_workers=int(os.environ.get('SEEDCHECK_JOBS', '8'))) as ex:
        rest = list(ex.map(one, props[1:]))
    for p, rc, lines in first + rest:
        res[p] = (rc, lines)
        if rc != 0:
            print('%s rc=%d' % (p, rc))
            for l in lines[:6]:
                print('   ' + l[:300])
finally:
    if not tree:
        subprocess.run(['git', '-C', '/repo', 'checkout', '--', '.'])
        subprocess.run(['git', '-C', '/repo', 'clean', '-fdq', '-e', 'target'])
print('SUMMARY', os.path.basename(os.path.dirname(patch)) + '/' + os.path.basename(patch), {p: rc for p, (rc, _) in res.items() if rc != 0} or 'no alarm')
