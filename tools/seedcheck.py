#!/usr/bin/env python3
"""Apply a patch to /repo, run the quick checks (no evidence written), undo the patch.
usage: seedcheck.py <patch.diff> [PROP ...]   (default: all 20)"""
import subprocess, sys, os, json
V = os.path.dirname(os.path.dirname(os.path.abspath(__file__)))
patch = sys.argv[1]
props = [p.upper() for p in sys.argv[2:]] or ['C%02d' % i for i in range(1, 21)]
st = subprocess.run(['git', '-C', '/repo', 'status', '--porcelain'], capture_output=True, text=True).stdout.strip()
if st:
    print('refusing: /repo is not clean:\n' + st); sys.exit(3)
r = subprocess.run(['git', '-C', '/repo', 'apply', patch], capture_output=True, text=True)
if r.returncode != 0:
    print('patch does not apply:', r.stderr); sys.exit(3)
res = {}
try:
    for p in props:
        c = subprocess.run([os.path.join(V, 'check'), p, '--no-write'], capture_output=True, text=True, cwd=V)
        lines = [l for l in c.stdout.splitlines() if l.startswith('  C') or l.startswith('CHECK-ERROR')]
        res[p] = (c.returncode, lines)
        if c.returncode != 0:
            print('%s rc=%d' % (p, c.returncode))
            for l in lines[:6]:
                print('   ' + l[:300])
finally:
    subprocess.run(['git', '-C', '/repo', 'checkout', '--', '.'])
    subprocess.run(['git', '-C', '/repo', 'clean', '-fdq', '-e', 'target'])
print('SUMMARY', os.path.basename(os.path.dirname(patch)) + '/' + os.path.basename(patch), {p: rc for p, (rc, _) in res.items() if rc != 0} or 'no alarm')
