#!/usr/bin/env python3
"""Run the repository's own suite (guard off — there are no hooks) and compare the set of
passing tests with /root/.vp/BASELINE.json `stable_pass`.
usage: suite.py [repo-dir] [--fast]   (--fast skips the two pty tests that hang for 300 s in this sandbox)"""
import json, os, subprocess, sys, xml.etree.ElementTree as ET
repo = next((a for a in sys.argv[1:] if not a.startswith('--')), '/repo')
fast = '--fast' in sys.argv
base = json.load(open('/root/.vp/BASELINE.json'))
stable = set(base['stable_pass'])
cmd = ['cargo', 'nextest', 'run', '--workspace', '--no-fail-fast', '--tool-config-file', 'pb:/w/lib/nextest.toml', '--profile', 'pb', '--test-threads', '8', '--offline']
if fast:
    cmd += ['-E', 'not (test(pty_task_applies_cwd_and_env) | test(pty_task_supports_stdin_resize_and_signal))']
r = subprocess.run(cmd, cwd=repo, capture_output=True, text=True)
tail = [l for l in (r.stdout + r.stderr).splitlines() if 'Summary' in l]
print('\n'.join(tail))
j = os.path.join(repo, 'target', 'nextest', 'pb', 'junit.xml')
passed = set()
failed = set()
for ts in ET.parse(j).getroot().iter('testsuite'):
    for tc in ts.iter('testcase'):
        name = '%s::%s' % (ts.get('name'), tc.get('name'))
        bad = any(ch.tag in ('failure', 'error') for ch in tc)
        (failed if bad else passed).add(name)
def norm(n):
    return n
missing = sorted(s for s in stable if s not in passed)
if missing and '--retry' in sys.argv and len(missing) <= 6:
    # load-sensitive tests (this sandbox shares its cores with other builds): re-run the missing ones alone
    still = []
    for m in missing:
        tname = m.split('::', 1)[1] if '::' in m else m
        # junit suite name is "<package>::<target>" or "<package>"; the test name follows
        parts = m.split('::')
        test = '::'.join(parts[1:]) if not parts[1].startswith('bin/') and '/' not in parts[1] else '::'.join(parts[2:])
        ok = False
        for _ in range(6):
            rr = subprocess.run(['cargo', 'nextest', 'run', '--workspace', '--offline', '--tool-config-file', 'pb:/w/lib/nextest.toml', '--profile', 'pb', '--test-threads', '1', '-E', 'test(=%s)' % test],
                                cwd=repo, capture_output=True, text=True)
            if rr.returncode == 0 and ' 1 passed' in (rr.stdout + rr.stderr):
                ok = True
                break
        print('  retry alone: %s -> %s' % (m, 'pass' if ok else 'FAIL'))
        if not ok:
            still.append(m)
    missing = still
print('baseline stable_pass: %d; passed now: %d; failed now: %d; stable tests not passing now: %d' % (len(stable), len(passed), len(failed), len(missing)))
for m in missing[:40]:
    print('  NOT PASSING:', m)
sys.exit(1 if missing else 0)
