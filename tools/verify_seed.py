#!/usr/bin/env python3
"""Verify an independently authored seeded change myself, in one scratch worktree, and (when it
holds up) file it under /verif/seeded/<PROP>-<name>/.

  verify_seed.py <out-dir> <A|B> [--keep]

Steps: clean worktree at /tmp/vs (created on first use from /repo HEAD) ->
  1. apply demo only      -> demo must PASS
  2. apply patch on top   -> workspace must BUILD, demo must FAIL
  3. whole suite with the patch (demo excluded by name is not needed: a failing demo is expected;
     every BASELINE stable test must still pass) via tools/suite.py --fast
  4. run every quick check against the patched tree (tools/seedcheck.py) and record who alarms
"""
import json, os, re, shutil, subprocess, sys, time

V = os.path.dirname(os.path.dirname(os.path.abspath(__file__)))
WT = os.environ.get('VS_WT', '/tmp/vs')


def sh(cmd, cwd=WT, timeout=3000, env=None):
    e = dict(os.environ)
    e['CARGO_TARGET_DIR'] = WT + '/target'
    e['CARGO_NET_OFFLINE'] = 'true'
    if env:
        e.update(env)
    r = subprocess.run(cmd, shell=True, cwd=cwd, capture_output=True, text=True, timeout=timeout, env=e)
    return r.returncode, (r.stdout + r.stderr)


def clean():
    sh('git checkout -- . && git clean -fdq -e target')


def main():
    out = sys.argv[1]
    name = sys.argv[2]
    suffix = sys.argv[sys.argv.index('--suffix') + 1] if '--suffix' in sys.argv else ''
    meta = json.load(open(os.path.join(out, name + '.meta.json')))
    prop = meta['property']
    if not os.path.isdir(WT):
        subprocess.run(['git', '-C', '/repo', 'worktree', 'add', '-q', WT, 'HEAD'], check=True)
    clean()
    head = subprocess.run(['git', '-C', '/repo', 'rev-parse', '--short', 'HEAD'], capture_output=True, text=True).stdout.strip()
    sh('git checkout -q --detach ' + head)
    rec = {'property': prop, 'name': name, 'repo_head': head, 'steps': []}
    demo_cmd = re.sub(r'CARGO_TARGET_DIR=\S+\s*', '', meta['demo_cmd']).replace('/tmp/seed2/%s' % prop, WT).replace('/tmp/seed/%s' % prop, WT)
    demo_cmd = re.sub(r'^cd \S+ && ', '', demo_cmd)
    rec['demo_cmd'] = demo_cmd
    ok = True
    rc, o = sh('git apply %s' % os.path.join(out, name + '.demo.diff'))
    if rc != 0:
        rec['steps'].append('demo diff does not apply: ' + o[-300:]); ok = False
    if ok:
        rc, o = sh(demo_cmd)
        tail = [l for l in o.splitlines() if re.search(r'Summary|test result|passed|failed', l)][-3:]
        rec['steps'].append({'demo_without_change': 'pass' if rc == 0 else 'FAIL', 'tail': tail})
        ok = ok and rc == 0
    if ok:
        rc, o = sh('git apply %s' % os.path.join(out, name + '.patch.diff'))
        if rc != 0:
            rec['steps'].append('patch does not apply on top of the demo: ' + o[-300:]); ok = False
    if ok:
        rc, o = sh('cargo build --offline --workspace 2>&1 | tail -3')
        built = 'Finished' in o
        rec['steps'].append({'build_with_change': 'ok' if built else 'FAIL', 'tail': o[-300:]})
        ok = ok and built
    if ok:
        rc, o = sh(demo_cmd)
        tail = [l for l in o.splitlines() if re.search(r'Summary|test result|FAIL|failed', l)][-4:]
        rec['steps'].append({'demo_with_change': 'fail' if rc != 0 else 'PASSES (no breakage shown)', 'tail': tail})
        ok = ok and rc != 0
    if ok:
        # the existing suite with the patch but WITHOUT the demo
        clean()
        sh('git apply %s' % os.path.join(out, name + '.patch.diff'))
        r = subprocess.run([sys.executable, os.path.join(V, 'tools', 'suite.py'), WT, '--fast', '--retry'], capture_output=True, text=True,
                           env=dict(os.environ, CARGO_TARGET_DIR=WT + '/target', CARGO_NET_OFFLINE='true'))
        lines = r.stdout.strip().splitlines()
        rec['steps'].append({'suite_with_change': 'all baseline-stable tests pass' if r.returncode == 0 else 'SOME STABLE TESTS FAIL', 'tail': lines[-6:]})
        ok = ok and r.returncode == 0
    rec['verified'] = ok
    alarms = None
    if ok:
        # the checks run against the patched scratch tree (RIP_REPO), /repo is not touched
        r = subprocess.run([sys.executable, os.path.join(V, 'tools', 'seedcheck.py'), '--tree', WT], capture_output=True, text=True)
        rec['checks_output'] = [l for l in r.stdout.splitlines() if l.strip()][-40:]
        m = re.search(r'SUMMARY \S+ (.*)$', r.stdout, re.M)
        alarms = m.group(1) if m else '?'
        rec['checks_alarm'] = alarms
        dst = os.path.join(V, 'seeded', '%s-%s%s' % (prop, name, suffix))
        os.makedirs(dst, exist_ok=True)
        shutil.copy(os.path.join(out, name + '.patch.diff'), os.path.join(dst, 'patch.diff'))
        shutil.copy(os.path.join(out, name + '.demo.diff'), os.path.join(dst, 'demo.diff'))
        meta_out = {'property': prop, 'summary': meta.get('summary'), 'mechanism': meta.get('mechanism'), 'needs_to_manifest': meta.get('needs_to_manifest'),
                    'files': meta.get('files'), 'author': 'independent sub-agent given only the property text and a scratch worktree',
                    'what_i_ran': {'worktree': WT + ' (scratch, removed afterwards)', 'repo_head': head, 'demo_cmd': demo_cmd, 'steps': rec['steps'],
                                   'suite': 'tools/suite.py --fast on the patched tree (all of BASELINE.json stable_pass must pass)'},
                    'checks_that_alarm': alarms, 'checks_output': rec.get('checks_output')}
        json.dump(meta_out, open(os.path.join(dst, 'meta.json'), 'w'), indent=1)
    clean()
    print(json.dumps({k: rec[k] for k in ('property', 'name', 'verified')}), 'alarms:', alarms)
    for s in rec['steps']:
        print('  ', json.dumps(s)[:300])


main()
