#!/usr/bin/env python3
"""False-alarm regression: apply every behaviour-preserving refactoring / feature addition of
selftest/refactors to a scratch worktree (RIP_REPO, /repo untouched) and run all quick checks.
Every one must stay silent.   regress_refactors.py [--wt DIR] [--part i/n] [R07 R12 ...]"""
import glob, os, re, subprocess, sys
V = os.path.dirname(os.path.dirname(os.path.abspath(__file__)))
args = sys.argv[1:]
WT = '/tmp/vs2'
part = None
if '--wt' in args:
    i = args.index('--wt'); WT = args[i + 1]; del args[i:i + 2]
if '--part' in args:
    i = args.index('--part'); part = tuple(int(x) for x in args[i + 1].split('/')); del args[i:i + 2]
only = set(args)
if not os.path.isdir(WT):
    subprocess.run(['git', '-C', '/repo', 'worktree', 'add', '-q', '--detach', WT, 'HEAD'], check=True)
head = subprocess.run(['git', '-C', '/repo', 'rev-parse', 'HEAD'], capture_output=True, text=True).stdout.strip()
subprocess.run('git checkout -q -- . && git clean -fdq -e target && git checkout -q --detach ' + head, shell=True, cwd=WT)
ps = sorted(glob.glob(os.path.join(V, 'selftest', 'refactors', 'R*.patch.diff')), key=lambda p: int(re.search(r'R(\d+)', os.path.basename(p)).group(1)))
if part:
    ps = [p for k, p in enumerate(ps) if k % part[1] == part[0]]
bad = 0
for p in ps:
    rid = os.path.basename(p).split('.')[0]
    if only and rid not in only:
        continue
    subprocess.run('git checkout -q -- . && git clean -fdq -e target', shell=True, cwd=WT)
    r = subprocess.run(['git', 'apply', p], cwd=WT, capture_output=True, text=True)
    if r.returncode != 0:
        print(rid, 'does not apply to this HEAD any more:', r.stderr.strip()[:160], flush=True)
        continue
    r = subprocess.run([sys.executable, os.path.join(V, 'tools', 'seedcheck.py'), '--tree', WT], capture_output=True, text=True)
    m = re.search(r'SUMMARY \S+ (.*)$', r.stdout, re.M)
    verdict = m.group(1) if m else '?'
    print(rid, verdict, flush=True)
    if verdict != 'no alarm':
        bad += 1
        print('\n'.join('    ' + l[:300] for l in r.stdout.splitlines() if l.startswith('   ')), flush=True)
subprocess.run('git checkout -q -- . && git clean -fdq -e target', shell=True, cwd=WT)
print('REGRESS-DONE', 'false alarms:', bad, flush=True)
sys.exit(1 if bad else 0)
