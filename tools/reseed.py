#!/usr/bin/env python3
"""Re-run every quick check against every kept seeded change (in the scratch worktree /tmp/vs,
RIP_REPO, /repo untouched) and refresh `checks_that_alarm` / `checks_output` in its meta.json.
Keeps the first recorded verdict as `checks_that_alarm_when_filed`."""
import glob, json, os, re, subprocess, sys
V = os.path.dirname(os.path.dirname(os.path.abspath(__file__)))
WT = os.environ.get('RESEED_WT', '/tmp/vs')
only = set(sys.argv[1:])
if not os.path.isdir(WT):
    subprocess.run(['git', '-C', '/repo', 'worktree', 'add', '-q', '--detach', WT, 'HEAD'], check=True)
for mp in sorted(glob.glob(os.path.join(V, 'seeded', '*', 'meta.json'))):
    sid = os.path.basename(os.path.dirname(mp))
    if only and sid not in only:
        continue
    d = json.load(open(mp))
    subprocess.run('git checkout -q -- . && git clean -fdq -e target', shell=True, cwd=WT)
    r = subprocess.run(['git', 'apply', os.path.join(os.path.dirname(mp), 'patch.diff')], cwd=WT, capture_output=True, text=True)
    if r.returncode != 0:
        print(sid, 'patch does not apply any more:', r.stderr[:200]); continue
    r = subprocess.run([sys.executable, os.path.join(V, 'tools', 'seedcheck.py'), '--tree', WT], capture_output=True, text=True)
    m = re.search(r'SUMMARY \S+ (.*)$', r.stdout, re.M)
    alarms = m.group(1) if m else '?'
    d.setdefault('checks_that_alarm_when_filed', d.get('checks_that_alarm'))
    d['checks_that_alarm'] = alarms
    d['checks_output'] = [l for l in r.stdout.splitlines() if l.strip()][-40:]
    json.dump(d, open(mp, 'w'), indent=1)
    print(sid, alarms, flush=True)
    # a detection recorded when the seed was filed that is gone now is a regression of the rules
    def _parse(x):
        import ast
        try:
            return ast.literal_eval(x) if isinstance(x, str) and x.startswith('{') else {}
        except Exception:
            return {}
    was, now = _parse(d.get('checks_that_alarm_when_filed')), _parse(alarms)
    lost = sorted(k for k, v in was.items() if v == 1 and now.get(k) != 1)
    if lost:
        print('LOST-DETECTION', sid, 'reported by', lost, 'when filed, not now', flush=True)
subprocess.run('git checkout -q -- . && git clean -fdq -e target', shell=True, cwd=WT)
