#!/usr/bin/env python3
"""Regenerate /verif/MANIFEST.json (kept in one place so the per-property texts stay consistent
with DESIGN.md §0)."""
import json
import os

V = os.path.dirname(os.path.dirname(os.path.abspath(__file__)))

T = {
 'C01': ('MIR guard-liveness + dominance + who-may-call + typestate',
         'seq chosen, appended and advanced inside one live range of the next_seq guard at every ContinuityStore append site, with the appended Event.seq derived from the guarded map and the advance on the Ok edge only (C01.1); single audited writer set for EventLog::append / EventLog::new (C01.2); log line written and flushed under the writer guard (C01.3); task seq guard spans construct/publish/record/append with exactly one advance (C01.4); seq-cell use/advance typestate for session, tool and provider frames (C01.5); provider pipe offset siblings (C01.6, in C15.2); write-back of the local seq copy before the kernel loop (C01.7)',
         'numeric contiguity across a restart (K-C05-seq-from-cache)'),
 'C02': ('MIR open-mode / effect reachability over the call graph / edge dominance',
         'append-only open mode of the truth file and no destructive fs call in EventLog (C02.1); serialise-before-write and flush on every success path (C02.2); only SessionEngine::new names events.jsonl, EventLog fields private, cache modules cannot reach rip_log writers (C02.3); 11 read-only store capabilities and 14 read-only HTTP handlers cannot reach EventLog::append over the call graph (C02.4); dry-run / noop / rotate appends are reachable only through the false edge of their guards (C02.5)',
         'OS semantics of O_APPEND (trusted)'),
 'C03': ('serde attribute table (syn) cross-checked with rustc ADT facts + MIR provenance',
         'writer/reader wire tables agree: distinct tags and aliases, skip_serializing_if only with default/Option, no envelope collisions, no deny_unknown_fields, EventWire covers Event (C03.1); one Event value fans out unmodified to log, sidecar, channel and buffer at all 16 emitters (C03.2); snapshots are written from the emit buffer (C03.3); stream kind is a function of the variant, every Continuity*/ToolTask* variant filed correctly (C03.4)',
         'value-level round trip of arbitrary payloads through serde_json (trusted)'),
 'C04': ('loop abstract interpretation + consumption-chain analysis on MIR',
         'every doubling-window tail-scan loop terminates at saturation (C04.1); loop-carried accumulators are reset per enlarged window (C04.2); a cache read result is never propagated with `?`, unwrapped or defaulted (C04.3); validators dominate fast-path answers (C04.4); freshness dependence of the replay fast path (C04.6 -> finding)',
         'equality of fast-path and truth answers for arbitrary histories; staleness of a self-consistent sidecar (K-C04-stale)'),
 'C05': ('MIR edge dominance (Ok edge of `?`) + provenance + sibling cross-check',
         'sidecar append, broadcast and index save reachable only through the Ok edge of the truth append, sidecar before broadcast (C05.1); artifact ids in frames come from a blob writer that ran first (C05.2); tmp+rename for every created cache / artifact file (C05.3); one write(2) per frame (C05.4); next-seq recovery source (C05.5 -> finding)',
         'what the file system does at a crash; cache state after truncation at an arbitrary byte'),
 'C06': ('MIR dominance + closure-capture analysis',
         'record-before-publish in every buffer emitter (C06.1); subscribe-before-snapshot in the three stream handlers (C06.2); seq filter, stream-id filter and history-then-live chaining (C06.3)',
         'broadcast-channel overflow for a stalled subscriber'),
 'C07': ('flag-correlated abstract interpretation over the CFG + dominance / post-dominance',
         'single exit through write_snapshot and append_run_ended, only bypass is the None edge of continuity_run, nothing emitted after it (C07.1); exactly one terminal session frame on every path of run_session, explored over (block, count, flag) (C07.2); decided->compiled->loop->cursor->ended order (C07.3); message->run_spawned->spawn order with no spawn on error edges (C07.4); job ended at most once (C07.5); no production hook (C07.6)',
         'panics inside a run (no unwinding model)'),
 'C08': ('effect reachability + comparison discovery + constant provenance',
         'compile_* functions reach no clock / random / env / hash-order / write effect (C08.1); every *_seq bound parameter is compared with Event.seq inside the scan loop or handed to a callee that does (C08.2); one limit constant at every use (C08.3)',
         'equality of the three input paths; checkpoint-selection arithmetic (the bulk of the property is value level — thin claim)'),
 'C09': ('post-dominance + edge dominance + sort-comparator inspection',
         'job bracket on every path after the summariser ran (C09.1); planned-vs-actual comparisons guard the summary write and checkpoint append (C09.2); hash iterations are collected and sorted with a tie-break (C09.3); shares C02.5 and C05.2',
         'ordinal arithmetic, tie-breaks, concurrent schedulers'),
 'C10': ('MIR provenance + dominance',
         'lineage frame stream id derives from the fresh child id only, no append receives the parent id (C10.1); create dominates lineage, nothing between, seq constants 0/1/2 (C10.2); no validation return and nothing fallible after the child exists (C10.3); handoff frame carries the validated summary (C10.4); related-frames scan walks the whole stream (C10.5)',
         'cut arithmetic beyond the whole-stream-scan clause'),
 'C11': ('guard live ranges + edge dominance + effect summary through the tool registry',
         'every mutating execution created and polled inside a WorkspaceGuard or on the proven read-only edge of the same invocation (C11.1); side-effects frame inside the same guard, after the tool frames, one per run (C11.2); read-only names have no write / spawn effect and unknown names lock (C11.3); one one-permit lock (C11.4)',
         '—'),
 'C12': ('edge dominance on closure-call results + post-dominance',
         'record_undo(&p)? Ok edge dominates every mutation of p, both ends of a rename, all mutated paths come from safe_join (C12.1); every error exit after the operations passes revert_paths, which walks in reverse (C12.2); parse dominates effects and is pure (C12.3)',
         'hunk semantics, line endings (value level)'),
 'C13': ('interprocedural field-sensitive taint + resolver sibling cross-check',
         'all lexical resolvers refuse `..` and absolute input (C13.1); no untrusted path-bearing argument field, checkpoint path read back from disk or create_checkpoint parameter reaches an fs / process / walk sink without a resolver, Patch::parse or an id guard (C13.2); resolver dominates the first effect in each handler (C13.3)',
         'symlinks inside the workspace'),
 'C14': ('dominance + registry effect summary + ADT coverage',
         'auto-checkpoint dominates every handler invocation and every file-editing tool has a files_for_invocation arm (C14.1); affected_paths reads every path field of every PatchOp variant (C14.2); rewind snapshot->apply->undo-on-error shape (C14.3); one base for existence test, read and stored path (C14.4)',
         'byte equality after rewind'),
 'C15': ('per-path call counting + field provenance + sibling agreement',
         'one provider frame per parsed event with the payload fields passed through untouched, every event mapped (C15.1); seq offset siblings (C15.2); both invalid-UTF-8 arms discard error_len bytes (C15.3)',
         'chunking invariance of the SSE / UTF-8 decoders in general — not decidable by shape rules; only the named necessary conditions are decided (thin claim)'),
 'C16': ('edge dominance + loop-iteration coverage + API inventory',
         'tool-call bound tested before every execution with one increment per call and one constant (C16.1); barred tool cannot reach the runner (C16.2); invalid payload cannot reach send, payload immutable after validating constructor (C16.3); one answer per call per iteration with its call id (C16.4); history only grows (C16.5)',
         'provider scripts with duplicate ids etc. (collector semantics)'),
 'C17': ('typestate automaton explored over (block, state) + dominance',
         'task emit typestate S (T | R (O|Q|C)* T) over run_task / run_pipes_task / run_pty_task, nothing after the terminal status (C17.1); pumps joined before the terminal status (C17.2); every spill write paired with the hash update, id = hash of stored bytes (C17.3)',
         'byte-exactness of previews / pages (value level)'),
 'C18': ('open-mode inspection + edge implication through materialised booleans',
         'exclusive create and no second creator (C18.1); cleanup only behind the Dead edge for the same pid, re-read and pid re-match before rename, corrupt cleanup behind grace period and meta-absent test (C18.2); identity binding after rename and on release (C18.3 -> finding)',
         'mutual exclusion under interleavings of OS processes'),
 'C19': ('interprocedural information-flow (taint) by declared secret slots + generic-instantiation scan',
         'secret slots / sources flow only to the HTTP request builder, presence tests and env hand-over, never into frames, formatting, serialisers, file writes or non-config aggregates (C19.1); no Debug / Serialize instantiation on secret-bearing types (C19.2); header values only moved between config slots, handed to RequestBuilder::header, or projected to names (C19.3)',
         'what a provider echoes back'),
 'C20': ('comparison discovery + assert / panic inventory with guarded forms + effect reachability',
         'seq-keyed lookup compares the found frame\'s seq (C20.1); no explicit panic and only guarded arithmetic / slicing in the fold (C20.2); no clock / random / env / hash-order effect (C20.3); growth-without-eviction inventory (C20.4 -> finding)',
         'rendering output; memory bound of the per-id maps (K-C20-unbounded-maps)'),
}

NOTE = ("Trusted base: rustc's resolution / type checking / MIR construction (exported by /verif/ripfacts, a ~600-line dumb exporter), "
        "serde/serde_json derive semantics, std/tokio API contracts as frozen in ripcheck/effects.py; 'all paths' excludes unwinding; dyn / unresolved "
        "trait calls fan out to every workspace impl; provenance is intra-procedural plus named transparent calls, extended by virtual inlining of private same-crate helpers (ripcheck/inline.py), and fails closed (CHECK-ERROR, exit 2) "
        "on idioms outside its tables. Nothing is executed. NOT decided by this check: %s.")


def main():
    checks = []
    for i in range(1, 21):
        pid = 'C%02d' % i
        tech, decided, notd = T[pid]
        # rules added after the plan (seeding rounds, DESIGN §10.6) are named from what the check itself reports
        try:
            ev = json.load(open(os.path.join(V, 'evidence', pid + '.json')))
            ids = sorted((ev.get('coverage') or {}).get('per_rule') or {}, key=lambda x: (len(x), x))
            extra = [r for r in ids if r not in decided]
            if extra:
                decided += '; further necessary conditions added after the seeding rounds, each stated in full in the evidence file (coverage.explanation) and in DESIGN.md §10.6: ' + ', '.join(extra)
        except Exception:
            pass
        checks.append({
            'property_id': pid,
            'quick_cmd': './check %s --tier quick' % pid,
            'thorough_cmd': './check %s --tier thorough' % pid,
            'evidence_file': '/verif/evidence/%s.json' % pid,
            'replay_cmd_template': './check %s --explain {path}' % pid,
            'engine': 'ripcheck',
            'level_claimed': {
                'category': 'other',
                'text': ('Static analysis of the resolved program (rustc MIR of the current working tree, all paths including the ones no test drives): decides these structural clauses, '
                         'each a necessary condition of the property — ' + decided + '. It decides those clauses exhaustively over every call site / path of the analysed functions; it does not decide the behavioural property as a whole.'),
                'design_ref': 'DESIGN.md §4 ' + pid,
            },
            'level_note': NOTE % notd,
            'technique': 'static analysis: ' + tech,
        })
    m = {
        'version': 1,
        'setup_cmd': './setup.sh',
        'hooks': {
            'guard': 'numman_ali_rip_verif',
            'enable': '(none — the analysis reads source through a rustc_private driver injected with RUSTC_WORKSPACE_WRAPPER; no instrumentation is compiled into /repo)',
            'baseline_off_cmd': 'cd /repo && cargo nextest run --workspace --no-fail-fast --tool-config-file pb:/w/lib/nextest.toml --profile pb --test-threads 8 --offline || cargo test --workspace --no-fail-fast --offline',
            'source_commits': [],
            'add_only': True,
        },
        'engines': [
            {'name': 'ripfacts', 'path': '/verif/ripfacts', 'serves_properties': sorted(T), 'kind_free_text': 'rustc_private driver (nightly): exports MIR, resolved callees, types, ADT / impl / signature tables of every workspace crate as JSON; no rules'},
            {'name': 'ripcheck', 'path': '/verif/ripcheck', 'serves_properties': sorted(T), 'kind_free_text': 'python3 stdlib: CFG dominance / edge dominance / guard live ranges / provenance / call graph / effects / taint / typestate; one rule module per property'},
            {'name': 'serdetab', 'path': '/verif/serdetab', 'serves_properties': ['C03'], 'kind_free_text': 'syn 2 helper printing serde meta items (derive-helper attributes are not retained in HIR)'},
            {'name': 'witnesses', 'path': '/verif/witnesses', 'serves_properties': ['C01', 'C02', 'C16', 'C18', 'C20'], 'kind_free_text': 'compile_fail doc-tests with compiling twins (thorough tier)'},
        ],
        'checks': checks,
        'notes': 'exit 0 = every obligation of the property\'s rules holds (known findings are printed as KNOWN-FINDING lines); exit 1 = at least one unlisted violation (VIOLATION line each, replay file under evidence/violations/); exit 2 = CHECK-ERROR, the analysis failed closed (tree does not build under the driver, anchor missing, instance count below its floor). known_findings.json lists recorded findings (exact obligation keys) and fixed: entries.',
        'not_applicable': [],
    }
    with open(os.path.join(V, 'MANIFEST.json'), 'w') as fh:
        json.dump(m, fh, indent=1)
    print('MANIFEST.json written: %d checks' % len(checks))


main()
