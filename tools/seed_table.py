#!/usr/bin/env python3
"""Markdown table of /verif/seeded/*/meta.json for DESIGN.md §10.6."""
import json, glob, os, re
rows = []
for m in sorted(glob.glob(os.path.join(os.path.dirname(os.path.dirname(os.path.abspath(__file__))), 'seeded', '*', 'meta.json'))):
    d = json.load(open(m))
    sid = os.path.basename(os.path.dirname(m))
    alarm = d.get('checks_that_alarm')
    rules = sorted({re.match(r'\s*(C\d\d\.\d+)', l).group(1) for l in d.get('checks_output') or [] if re.match(r'\s*C\d\d\.\d+ ', l)})
    caught = 'no alarm' in str(alarm)
    rows.append((sid, d['summary'].replace('|', '/').replace('\n', ' ')[:230], (d.get('needs_to_manifest') or '').replace('|', '/').replace('\n', ' ')[:140],
                 ('**missed**' if caught else ', '.join(rules) or str(alarm))))
print('| seeded id | change (author\'s summary) | needs to manifest | reported by |')
print('|---|---|---|---|')
for r in rows:
    print('| %s | %s | %s | %s |' % r)
print()
print('%d seeded changes kept; %d reported, %d missed.' % (len(rows), len([r for r in rows if 'missed' not in r[3]]), len([r for r in rows if 'missed' in r[3]])))
