"""Checker self-test: small source edits, one broken instance each, that still compile and that
the named rule must report. Applied to a scratch copy of the CURRENT tree by exact string
replacement (`old` must occur exactly once, otherwise the mutant is skipped and counted)."""

S = 'crates/ripd/src/session.rs'
C = 'crates/ripd/src/continuities.rs'
SC = 'crates/ripd/src/continuity_stream_cache.rs'
SV = 'crates/ripd/src/server.rs'
W = 'crates/rip-workspace/src/lib.rs'
K = 'crates/rip-kernel/src/lib.rs'

MUTANTS = [
 # ------------------------------------------------------------------ C01
 dict(id='c01-drop-guard-before-append', prop='C01', rule='C01.1', file=C, what='tighten the drop: release the seq guard before the job-ended append',
      old='''            .map_err(|err| format!("append continuity job ended: {err}"))?;
        self.stream_cache.append_best_effort(&event);
        let _ = self.sender.send(event.clone());

        next_seq.insert(continuity_id.to_string(), seq + 1);
        Ok(id)''',
      new='''            .map_err(|err| format!("append continuity job ended: {err}"))?;
        self.stream_cache.append_best_effort(&event);
        let _ = self.sender.send(event.clone());

        next_seq.insert(continuity_id.to_string(), seq + 1);
        drop(next_seq);
        let _ = self.event_log.append(&event);
        Ok(id)'''),
 dict(id='c01-advance-before-append', prop='C01', rule='C01.1', file=C, what='advance next_seq before the append of a message (a failed append leaves a gap)',
      old='''        self.event_log
            .append(&event)
            .map_err(|err| format!("append continuity message: {err}"))?;
        self.stream_cache.append_best_effort(&event);
        let _ = self.sender.send(event.clone());

        // Only advance after a successful append to avoid gaps in the truth log.
        next_seq.insert(continuity_id.to_string(), seq + 1);''',
      new='''        next_seq.insert(continuity_id.to_string(), seq + 1);
        self.event_log
            .append(&event)
            .map_err(|err| format!("append continuity message: {err}"))?;
        self.stream_cache.append_best_effort(&event);
        let _ = self.sender.send(event.clone());
'''),
 dict(id='c01-new-writer', prop='C01', rule='C01.2', file='crates/ripd/src/runner.rs', what='a new function appends to the log directly',
      old='''impl SessionEngine {
    pub fn new(''',
      new='''pub fn debug_mark(log: &EventLog, event: &rip_kernel::Event) {
    let _ = log.append(event);
}

impl SessionEngine {
    pub fn new('''),
 dict(id='c01-forget-seq-increment', prop='C01', rule='C01.5', file=S, what='forget `*req.seq += 1` after the request-started frame',
      old='''                kind: req.request_kind.to_string(),
            },
        })
        .await;
    *req.seq += 1;
''',
      new='''                kind: req.request_kind.to_string(),
            },
        })
        .await;
'''),
 dict(id='c01-increment-without-dump-frame', prop='C01', rule='C01.5', file=S, what='advance the seq even when no request-dump frame was emitted',
      old='''    )? {
        req.sink.emit(event).await;
        *req.seq += 1;
    }''',
      new='''    )? {
        req.sink.emit(event).await;
    }
    *req.seq += 1;'''),
 dict(id='c01-forget-set-seq', prop='C01', rule='C01.7', file=S, what='forget session.set_seq(seq) after an unlocked tool run',
      old='''                    .run(&runtime_session_id, &mut seq, invocation)
                    .await;
                session.set_seq(seq);
                emit_events(tool_events, &sender, &events, &event_log).await;
            }
        }''',
      new='''                    .run(&runtime_session_id, &mut seq, invocation)
                    .await;
                emit_events(tool_events, &sender, &events, &event_log).await;
            }
        }'''),
 # ------------------------------------------------------------------ C02
 dict(id='c02-open-write-mode', prop='C02', rule='C02.1', file='crates/rip-log/src/lib.rs', what='open the truth file with write(true) instead of append(true)',
      old='OpenOptions::new().create(true).append(true).open(&path)?', new='OpenOptions::new().create(true).write(true).open(&path)?'),
 dict(id='c02-status-logs-frame', prop='C02', rule='C02.4', file=C, what='a read-only capability (get) records a frame',
      old='''    pub fn get(&self, continuity_id: &str) -> Option<ContinuityMeta> {''',
      new='''    pub fn get(&self, continuity_id: &str) -> Option<ContinuityMeta> {
        if continuity_id.starts_with("audit:") {
            let _ = self.append_run_ended(continuity_id, "", "", "queried".to_string(), String::new(), String::new());
        }'''),
 dict(id='c02-dry-run-after-spawn', prop='C02', rule='C02.5', file=C, what='test dry_run only for non-empty plans after the decision frame',
      old='''        if dry_run {
            return Ok(CompactionAutoScheduleV1Response {
                thread_id: thread_id.to_string(),
                decision_id: None,
                policy_id,
                decision: "dry_run".to_string(),''',
      new='''        if dry_run && !block_on_inflight {
            return Ok(CompactionAutoScheduleV1Response {
                thread_id: thread_id.to_string(),
                decision_id: None,
                policy_id,
                decision: "dry_run".to_string(),'''),
 # ------------------------------------------------------------------ C03
 dict(id='c03-skip-without-default', prop='C03', rule='C03.1', file=K, what='drop `default` from a Vec field that is skipped when empty (a frame written without it cannot be read back)',
      old='''        #[serde(default, skip_serializing_if = "Vec::is_empty")]
        compaction_checkpoints: Vec<ContextSelectionCompactionCheckpointV1>,''',
      new='''        #[serde(skip_serializing_if = "Vec::is_empty")]
        compaction_checkpoints: Vec<ContextSelectionCompactionCheckpointV1>,'''),
 dict(id='c03-mutate-between-log-and-broadcast', prop='C03', rule='C03.2', file=C, what='normalise the timestamp between log append and broadcast',
      old='''            .map_err(|err| format!("append continuity message: {err}"))?;
        self.stream_cache.append_best_effort(&event);''',
      new='''            .map_err(|err| format!("append continuity message: {err}"))?;
        let mut event = event;
        event.timestamp_ms -= event.timestamp_ms % 1000;
        self.stream_cache.append_best_effort(&event);'''),
 dict(id='c03-sidecar-skips-cursor-frames', prop='C03', rule='C03.5', file=SC, what='do not mirror provider-cursor frames into the sidecar ("noise")',
      old='''        let continuity_id = event.stream_id();
        let path = self.path_for(continuity_id);
        if let Some(parent) = path.parent() {
            let _ = fs::create_dir_all(parent);
        }

        let Ok(file) = OpenOptions::new().create(true).append(true).open(&path) else {''',
      new='''        if matches!(
            &event.kind,
            rip_kernel::EventKind::ContinuityProviderCursorUpdated { .. }
        ) {
            return;
        }
        let continuity_id = event.stream_id();
        let path = self.path_for(continuity_id);
        if let Some(parent) = path.parent() {
            let _ = fs::create_dir_all(parent);
        }

        let Ok(file) = OpenOptions::new().create(true).append(true).open(&path) else {'''),
 # ------------------------------------------------------------------ C04
 dict(id='c04-remove-saturation-break', prop='C04', rule='C04.1', file=C, what='delete the saturation break of the compile-input tail loop',
      old='''            if tail_bytes >= MAX_TAIL_BYTES {
                break;
            }
            tail_bytes = (tail_bytes * 2).min(MAX_TAIL_BYTES);
        }

        // Fall back to a seekable window read when the anchor isn't near the tail.''',
      new='''            tail_bytes = (tail_bytes * 2).min(MAX_TAIL_BYTES);
        }

        // Fall back to a seekable window read when the anchor isn't near the tail.'''),
 dict(id='c04-question-mark-on-cache', prop='C04', rule='C04.3', file=C, what='propagate a cache error from replay_events instead of falling back',
      old='''        if let Ok(Some(events)) = self.stream_cache.try_replay(continuity_id) {''',
      new='''        if let Some(events) = self.stream_cache.try_replay(continuity_id)? {'''),
 dict(id='c04-skip-seek-index-validation', prop='C04', rule='C04.4', file=SC, what='validate the seek index only when it is tiny',
      old='''        validate_seq_index_against_sidecar(&entries, sidecar_path, continuity_id)?;
        Ok(entries)''',
      new='''        if entries.len() < 2 {
            validate_seq_index_against_sidecar(&entries, sidecar_path, continuity_id)?;
        }
        Ok(entries)'''),
 # ------------------------------------------------------------------ C05
 dict(id='c05-sidecar-before-truth', prop='C05', rule='C05.1', file=C, what='write the sidecar line before the truth line (run_spawned)',
      old='''            .map_err(|err| format!("append continuity run spawned: {err}"))?;
        self.stream_cache.append_best_effort(&event);''',
      new='''            .map_err(|err| format!("append continuity run spawned: {err}"))?;''', also=[dict(
          old='''        self.event_log
            .append(&event)
            .map_err(|err| format!("append continuity run spawned: {err}"))?;''',
          new='''        self.stream_cache.append_best_effort(&event);
        self.event_log
            .append(&event)
            .map_err(|err| format!("append continuity run spawned: {err}"))?;''')]),
 dict(id='c05-ignore-append-result', prop='C05', rule='C05.1', file=C, what='ignore the result of the truth append (run_ended)',
      old='''            .map_err(|err| format!("append continuity run ended: {err}"))?;''',
      new='''            .map_err(|err| format!("append continuity run ended: {err}"))
            .ok();'''),
 # ------------------------------------------------------------------ C06
 dict(id='c06-snapshot-before-subscribe', prop='C06', rule='C06.2', file=SV, what='take the snapshot before subscribing in the session stream handler',
      old='''    let receiver = handle.subscribe();
    let past = handle.events_snapshot().await;

    let last_seq = past.last().map(|event| event.seq);
    let past_stream = tokio_stream::iter(past).filter_map(|event| async move {
        let json = serde_json::to_string(&event).ok()?;
        Some(Ok::<SseEvent, Infallible>(SseEvent::default().data(json)))
    });

    let last_seq_live = last_seq;
    let live_stream = BroadcastStream::new(receiver).filter_map(move |result| {
        let last_seq = last_seq_live;
        async move {
            match result {
                Ok(event) => {
                    if last_seq.map(|last| event.seq <= last).unwrap_or(false) {
                        return None;
                    }
                    let json = serde_json::to_string(&event).ok()?;
                    Some(Ok::<SseEvent, Infallible>(SseEvent::default().data(json)))
                }
                Err(_) => None,
            }
        }
    });

    let stream = past_stream.chain(live_stream);

    Sse::new(stream)
        .keep_alive(axum::response::sse::KeepAlive::new().text("ping"))
        .into_response()
}

#[utoipa::path(
    post,''',
      new='''    let past = handle.events_snapshot().await;
    let receiver = handle.subscribe();

    let last_seq = past.last().map(|event| event.seq);
    let past_stream = tokio_stream::iter(past).filter_map(|event| async move {
        let json = serde_json::to_string(&event).ok()?;
        Some(Ok::<SseEvent, Infallible>(SseEvent::default().data(json)))
    });

    let last_seq_live = last_seq;
    let live_stream = BroadcastStream::new(receiver).filter_map(move |result| {
        let last_seq = last_seq_live;
        async move {
            match result {
                Ok(event) => {
                    if last_seq.map(|last| event.seq <= last).unwrap_or(false) {
                        return None;
                    }
                    let json = serde_json::to_string(&event).ok()?;
                    Some(Ok::<SseEvent, Infallible>(SseEvent::default().data(json)))
                }
                Err(_) => None,
            }
        }
    });

    let stream = past_stream.chain(live_stream);

    Sse::new(stream)
        .keep_alive(axum::response::sse::KeepAlive::new().text("ping"))
        .into_response()
}

#[utoipa::path(
    post,'''),
 # ------------------------------------------------------------------ C07
 dict(id='c07-early-return-after-compile-failure', prop='C07', rule='C07.1', file=S, what='return from run_session right after context_compile_failed',
      old='''                            .await;
                            skip_runtime_loop = true;
                        }
                    }
                }
                if !skip_runtime_loop {
                    let outcome = run_openresponses_agent_loop''',
      new='''                            .await;
                            return;
                        }
                    }
                }
                if !skip_runtime_loop {
                    let outcome = run_openresponses_agent_loop'''),
 dict(id='c07-forget-skip-flag', prop='C07', rule='C07.2', file=S, what='forget skip_runtime_loop after the terminal frame of the provider path (second SessionEnded from the kernel loop)',
      old='''                    .await;
                    skip_runtime_loop = true;
                }
            }
        }
    }

    if !skip_runtime_loop {''',
      new='''                    .await;
                }
            }
        }
    }

    if !skip_runtime_loop {'''),
 dict(id='c07-spawn-before-run-spawned', prop='C07', rule='C07.4', file=SV, what='spawn the session even when append_run_spawned failed',
      old='''        .is_err()
    {
        return StatusCode::INTERNAL_SERVER_ERROR.into_response();
    }
    state
        .engine
        .spawn_session(handle, content, Some(run_link), openresponses_override);''',
      new='''        .is_err()
    {
        let _ = StatusCode::INTERNAL_SERVER_ERROR;
    }
    state
        .engine
        .spawn_session(handle, content, Some(run_link), openresponses_override);'''),
 # ------------------------------------------------------------------ C08
 dict(id='c08-clock-in-compiler', prop='C08', rule='C08.1', file='crates/ripd/src/context_compiler.rs', what='read the clock inside select_recent_messages',
      old='''    let mut selected_rev: Vec<SelectedMessage> = Vec::new();
    if limit == 0 {
        return Vec::new();
    }

    for event in continuity_events.iter().rev() {
        if event.seq > from_seq {
            continue;
        }''',
      new='''    let mut selected_rev: Vec<SelectedMessage> = Vec::new();
    if limit == 0 {
        return Vec::new();
    }
    let cutoff_ms = std::time::SystemTime::now()
        .duration_since(std::time::UNIX_EPOCH)
        .map(|d| d.as_millis() as u64)
        .unwrap_or(u64::MAX);

    for event in continuity_events.iter().rev() {
        if event.seq > from_seq || event.timestamp_ms > cutoff_ms {
            continue;
        }'''),
 dict(id='c08-drop-cut-guard', prop='C08', rule='C08.2', file='crates/ripd/src/context_compiler.rs', what='drop the event.seq > from_seq guard in ended_runs_by_message_id',
      old='''    for event in continuity_events {
        if event.seq > from_seq {
            break;
        }
''',
      new='''    let _ = from_seq;
    for event in continuity_events {
'''),
 # ------------------------------------------------------------------ C09
 dict(id='c09-remove-tiebreak', prop='C09', rule='C09.3', file='crates/ripd/src/compaction_auto_summary.rs', what='remove the tie-break of the word-count sort',
      old='words.sort_by(|a, b| b.1.cmp(&a.1).then(a.0.cmp(&b.0)));', new='words.sort_by(|a, b| b.1.cmp(&a.1));'),
 dict(id='c09-skip-id-check', prop='C09', rule='C09.2', file=C, what='compare only the seq of the planned cut point',
      old='if last.seq != cut.to_seq || last.id != cut.to_message_id {', new='if last.seq != cut.to_seq {'),
 # ------------------------------------------------------------------ C10
 dict(id='c10-validate-after-create', prop='C10', rule='C10.3', file=C, what='a validation return after the child thread exists (branch)',
      old='''        )?;

        Ok((thread_id, parent_seq, parent_message_id))''',
      new='''        )?;
        if parent_message_id.is_none() && parent_seq == 0 {
            return Err("branch of an empty thread".to_string());
        }

        Ok((thread_id, parent_seq, parent_message_id))'''),
 dict(id='c10-lineage-outside-lock', prop='C01', rule='C01.1', file=C, what='release the seq lock before the lineage frame of a new thread',
      old='''        next_seq.insert(continuity_id.clone(), 1);

        if let Some(kind) = lineage {''',
      new='''        next_seq.insert(continuity_id.clone(), 1);
        drop(next_seq);
        let mut next_seq = std::collections::HashMap::new();

        if let Some(kind) = lineage {'''),
 # ------------------------------------------------------------------ C11
 dict(id='c11-let-underscore-guard', prop='C11', rule='C11.1', file=S, what='`let _ = workspace_lock.acquire().await` in the agent loop (guard dropped at once)',
      old='''            } else if requires_workspace_lock(&invocation.name) {
                let _guard = workspace_lock.acquire().await;''',
      new='''            } else if requires_workspace_lock(&invocation.name) {
                let _ = workspace_lock.acquire().await;'''),
 dict(id='c11-write-is-read-only', prop='C11', rule='C11.3', file='crates/ripd/src/workspace_lock.rs', what='classify `write` as read-only',
      old='!matches!(tool_name, "read" | "ls" | "grep" | "artifact_fetch")', new='!matches!(tool_name, "read" | "ls" | "grep" | "artifact_fetch" | "write")'),
 # ------------------------------------------------------------------ C12
 dict(id='c12-write-before-undo', prop='C12', rule='C12.1', file=W, what='delete a file before recording its undo entry',
      old='''                        record_undo(&dest)?;
                        fs::remove_file(&dest)?;''',
      new='''                        fs::remove_file(&dest)?;
                        record_undo(&dest)?;'''),
 # ------------------------------------------------------------------ C13
 dict(id='c13-drop-parentdir-test', prop='C13', rule='C13.1', file='crates/ripd/src/tasks/logs.rs', what='drop the ParentDir test of the task log resolver',
      old='''    if path
        .components()
        .any(|component| matches!(component, std::path::Component::ParentDir))
    {
        return Err("path escapes workspace root".to_string());
    }
    Ok(root.join(path))''',
      new='''    Ok(root.join(path))'''),
 # ------------------------------------------------------------------ C14
 dict(id='c14-forget-moved-to', prop='C14', rule='C14.2', file='crates/rip-workspace/src/patch.rs', what='affected_paths forgets moved_to',
      old='''                PatchOp::UpdateFile { path, moved_to, .. } => {
                    paths.push(path.clone());
                    if let Some(moved_to) = moved_to {
                        paths.push(moved_to.clone());
                    }
                }''',
      new='''                PatchOp::UpdateFile { path, .. } => {
                    paths.push(path.clone());
                }'''),
 # ------------------------------------------------------------------ C15
 dict(id='c15-skip-invalid-json', prop='C15', rule='C15.1', file=S, what='skip events that are not valid JSON before mapping (push_sse_str)',
      old='''        let mut frames = Vec::new();
        for event in &parsed {
            if let Some(collector) = self.collector.as_deref_mut() {
                collector.observe(event);
            }
            frames.extend(self.mapper.map(event));
        }
        for frame in &mut frames {
            frame.seq += self.seq_offset;
        }
        let frame_count = frames.len();

        self.sink.emit_all(frames).await;
        *self.seq += frame_count as u64;

        parsed''',
      new='''        let mut frames = Vec::new();
        for event in &parsed {
            if event.kind == ParsedEventKind::InvalidJson {
                continue;
            }
            if let Some(collector) = self.collector.as_deref_mut() {
                collector.observe(event);
            }
            frames.extend(self.mapper.map(event));
        }
        for frame in &mut frames {
            frame.seq += self.seq_offset;
        }
        let frame_count = frames.len();

        self.sink.emit_all(frames).await;
        *self.seq += frame_count as u64;

        parsed'''),
 # ------------------------------------------------------------------ C16
 dict(id='c16-run-before-allows', prop='C16', rule='C16.2', file=S, what='only enforce tool_choice for tools that need the lock',
      old='''            let output_value = if !tool_choice_enforcement.allows_function(&invocation.name) {''',
      new='''            let output_value = if requires_workspace_lock(&invocation.name)
                && !tool_choice_enforcement.allows_function(&invocation.name)
            {'''),
 dict(id='c16-send-invalid-payload', prop='C16', rule='C16.3', file=S, what='only refuse invalid payloads in strict mode',
      old='''    if !req.payload.errors().is_empty() {
        req.sink''',
      new='''    if !req.payload.errors().is_empty() && !req.config.stateless_history {
        req.sink'''),
 # ------------------------------------------------------------------ C17
 dict(id='c17-terminal-before-join', prop='C17', rule='C17.2', file='crates/ripd/src/tasks/pipes.rs', what='do not wait for the stderr pump before the terminal status',
      old='''    let stderr_summary = stderr_handle.await.unwrap_or_else(|_| {
        TaskLogSummary::failed(
            stderr.artifact_id.clone(),
            stderr.path.clone(),
            "stderr join failed".to_string(),
        )
    });''',
      new='''    let stderr_summary = if cancel_reason.is_some() {
        stderr_handle.abort();
        TaskLogSummary::failed(
            stderr.artifact_id.clone(),
            stderr.path.clone(),
            "stderr pump aborted".to_string(),
        )
    } else {
        stderr_handle.await.unwrap_or_else(|_| {
            TaskLogSummary::failed(
                stderr.artifact_id.clone(),
                stderr.path.clone(),
                "stderr join failed".to_string(),
            )
        })
    };'''),
 # ------------------------------------------------------------------ C18
 dict(id='c18-create-instead-of-create-new', prop='C18', rule='C18.1', file='crates/ripd/src/local_authority.rs', what='open the lock with create(true)',
      old='''            .create_new(true)
            .write(true)''', new='''            .create(true)
            .write(true)'''),
 dict(id='c18-cleanup-without-liveness', prop='C18', rule='C18.2', file=SV, what='clean up stale files whenever the endpoint is unreachable',
      old='if matches!(pid_liveness, crate::PidLiveness::Dead) && !endpoint_reachable {', new='if !endpoint_reachable || matches!(pid_liveness, crate::PidLiveness::Dead) {'),
 # ------------------------------------------------------------------ C19
 dict(id='c19-key-prefix-in-transport-error', prop='C19', rule='C19.1', file=S, what='put a key prefix into the transport error frame',
      old='''                OpenResponsesSsePipe::new(req.session_id, req.seq, req.sink, None, validation);
            pipe.emit_transport_error(err.to_string()).await;
            return Err("provider_error".to_string());
        }
    };

    let status = response.status();''',
      new='''                OpenResponsesSsePipe::new(req.session_id, req.seq, req.sink, None, validation);
            let hint = req.config.api_key.as_deref().map(|k| k.chars().take(6).collect::<String>()).unwrap_or_default();
            pipe.emit_transport_error(format!("{err} (key {hint}…)")).await;
            return Err("provider_error".to_string());
        }
    };

    let status = response.status();'''),
 dict(id='c19-debug-config', prop='C19', rule='C19.2', file=S, what='format the whole config with {:?} in an error path',
      old='''                OpenResponsesSsePipe::new(req.session_id, req.seq, req.sink, None, validation);
            pipe.emit_transport_error(err.to_string()).await;
            return Err("provider_error".to_string());
        }
    };

    let status = response.status();''',
      new='''                OpenResponsesSsePipe::new(req.session_id, req.seq, req.sink, None, validation);
            pipe.emit_transport_error(format!("{err} config={:?}", req.config)).await;
            return Err("provider_error".to_string());
        }
    };

    let status = response.status();'''),
 # ------------------------------------------------------------------ C20
 dict(id='c20-unwrap-in-update', prop='C20', rule='C20.2', file='crates/rip-tui/src/frame_store.rs', what='unwrap in FrameStore::get_by_seq',
      old='''        let idx = self.index_of_seq(seq)?;
        self.frames.get(idx)''', new='''        let idx = self.index_of_seq(seq)?;
        Some(self.frames.get(idx).unwrap())'''),
 # ------------------------------------------------------------------ defects repaired in the sixth session, re-introduced
 dict(id='c01-reinput-no-claim', prop='C01', rule='C01.10', file='crates/ripd/src/runner.rs', what='F-C01-reinput again: spawn_session starts the run without claiming the handle',
      old="""        if !handle.claim_run() {
            return false;
        }
""", new="""        let _ = handle.claim_run();
"""),
 dict(id='c01-recreate-default', prop='C01', rule='C01.11', file=C, what='ensure_default re-creates the indexed default thread under its existing id',
      old="""            .get(&workspace)
            .cloned()
        {
            return Ok(existing);
        }
""", new="""            .get(&workspace)
            .cloned()
        {
            if self.stream_cache.try_read_last_seq(&existing).ok().flatten().is_some() {
                return Ok(existing);
            }
            return self.create_continuity(workspace, Some(existing), None, true, None);
        }
"""),
 dict(id='c04-headseq-default', prop='C04', rule='C04.13', file=SC, what='F-C04-headseq again (cache side): the window head falls back to the anchor',
      old="""        let Some(head_seq) = self.try_read_last_seq(continuity_id).ok().flatten() else {
            return Ok(None);
        };
""", new="""        let head_seq = self
            .try_read_last_seq(continuity_id)
            .ok()
            .flatten()
            .unwrap_or(anchor_seq);
"""),
 dict(id='c05-rebuild-in-place', prop='C05', rule='C05.3', file=SC, what='F-C05-rebuild again: the full sidecar is rebuilt under its real name',
      old="""        let tmp_path = path.with_extension("jsonl.tmp");
        let Ok(file) = File::create(&tmp_path) else {
            return;
        };
        let mut writer = BufWriter::new(file);
        let mut offset: u64 = 0;
        let mut index_builder = SidecarIndexBuilderV1::new();""",
      new="""        let tmp_path = path.with_extension("jsonl.tmp");
        let Ok(file) = File::create(&path) else {
            return;
        };
        let mut writer = BufWriter::new(file);
        let mut offset: u64 = 0;
        let mut index_builder = SidecarIndexBuilderV1::new();""",
      also=[dict(old="""        drop(writer);
        if fs::rename(&tmp_path, &path).is_err() {
            let _ = fs::remove_file(&tmp_path);
            return;
        }
""", new="""        drop(writer);
        let _ = &tmp_path;
""")]),
 dict(id='c11-child-outlives-call', prop='C11', rule='C11.8', file='crates/rip-tools/src/builtins/shell.rs', what='F-C11-timeout again: the shell child is not tied to the handler future',
      old="""    cmd.kill_on_drop(true);
""", new="""    cmd.kill_on_drop(false);
"""),
 dict(id='c13-write-root-sibling', prop='C13', rule='C13.7', file='crates/rip-tools/src/builtins/write.rs', what='F-C13-write-root again: the temporary is derived from the resolved path without excluding the root',
      old="""    if path == config.workspace_root {
        return ToolOutput::failure(vec![
            "write failed: path names the workspace root".to_string()
        ]);
    }
""", new=""""""),
 dict(id='c18-release-unconditional', prop='C18', rule='C18.3', file='crates/ripd/src/local_authority.rs', what='F-C18-release again: Drop removes lock.json / meta.json without looking whose they are',
      old="""        if !still_ours {
            return;
        }
""", new="""        let _ = still_ours;
""",
      also=[dict(old="""        let still_ours = fs::read_to_string(&self.lock_path)
            .ok()
            .and_then(|contents| serde_json::from_str::<AuthorityLockRecord>(&contents).ok())
            .is_some_and(|current| {
                current.pid == self.record.pid && current.started_at_ms == self.record.started_at_ms
            });
""", new="""        let still_ours = true;
""")]),
]
