// serdetab — prints, as JSON, the serde meta items of every struct / enum in the given
// source files (derive-helper attributes are not retained in HIR on this nightly, so the
// exporter cannot see them). No rule lives here.
use quote::ToTokens;
use syn::punctuated::Punctuated;
use syn::{Expr, Fields, Item, Lit, Meta, Token};

fn esc(s: &str) -> String {
    let mut o = String::from("\"");
    for c in s.chars() {
        match c {
            '"' => o.push_str("\\\""),
            '\\' => o.push_str("\\\\"),
            '\n' => o.push_str("\\n"),
            '\t' => o.push_str("\\t"),
            c if (c as u32) < 0x20 => o.push_str(&format!("\\u{:04x}", c as u32)),
            c => o.push(c),
        }
    }
    o.push('"');
    o
}

fn metas(attrs: &[syn::Attribute]) -> String {
    let mut out = vec![];
    for a in attrs {
        if a.path().is_ident("serde") {
            match a.parse_args_with(Punctuated::<Meta, Token![,]>::parse_terminated) {
                Ok(list) => {
                    for m in list {
                        match m {
                            Meta::Path(p) => out.push(format!("[{},null]", esc(&p.to_token_stream().to_string()))),
                            Meta::NameValue(nv) => {
                                let v = match &nv.value {
                                    Expr::Lit(l) => match &l.lit {
                                        Lit::Str(s) => s.value(),
                                        o => o.to_token_stream().to_string(),
                                    },
                                    o => o.to_token_stream().to_string(),
                                };
                                out.push(format!("[{},{}]", esc(&nv.path.to_token_stream().to_string()), esc(&v)));
                            }
                            Meta::List(l) => out.push(format!(
                                "[{},{}]",
                                esc(&l.path.to_token_stream().to_string()),
                                esc(&l.tokens.to_string())
                            )),
                        }
                    }
                }
                Err(_) => out.push(format!("[\"<unparsed>\",{}]", esc(&a.to_token_stream().to_string()))),
            }
        }
    }
    format!("[{}]", out.join(","))
}

fn derives(attrs: &[syn::Attribute]) -> String {
    let mut out = vec![];
    for a in attrs {
        if a.path().is_ident("derive") {
            if let Ok(list) = a.parse_args_with(Punctuated::<syn::Path, Token![,]>::parse_terminated) {
                for p in list {
                    out.push(esc(&p.segments.last().map(|s| s.ident.to_string()).unwrap_or_default()));
                }
            }
        }
    }
    format!("[{}]", out.join(","))
}

fn has_cfg_test(attrs: &[syn::Attribute]) -> bool {
    attrs.iter().any(|a| a.path().is_ident("cfg") && a.to_token_stream().to_string().contains("test"))
}

fn fields(f: &Fields) -> String {
    let mut out = vec![];
    for (i, fd) in f.iter().enumerate() {
        let name = fd.ident.as_ref().map(|i| i.to_string()).unwrap_or_else(|| i.to_string());
        out.push(format!(
            "{{\"name\":{},\"ty\":{},\"serde\":{}}}",
            esc(&name),
            esc(&fd.ty.to_token_stream().to_string()),
            metas(&fd.attrs)
        ));
    }
    format!("[{}]", out.join(","))
}

fn items(list: &[Item], module: &str, out: &mut Vec<String>) {
    for item in list {
        match item {
            Item::Enum(e) if !has_cfg_test(&e.attrs) => {
                let vs: Vec<String> = e
                    .variants
                    .iter()
                    .map(|v| {
                        format!(
                            "{{\"name\":{},\"serde\":{},\"fields\":{}}}",
                            esc(&v.ident.to_string()),
                            metas(&v.attrs),
                            fields(&v.fields)
                        )
                    })
                    .collect();
                out.push(format!(
                    "{{\"kind\":\"enum\",\"module\":{},\"name\":{},\"line\":{},\"derives\":{},\"serde\":{},\"variants\":[{}]}}",
                    esc(module),
                    esc(&e.ident.to_string()),
                    e.ident.span().start().line,
                    derives(&e.attrs),
                    metas(&e.attrs),
                    vs.join(",")
                ));
            }
            Item::Struct(s) if !has_cfg_test(&s.attrs) => {
                out.push(format!(
                    "{{\"kind\":\"struct\",\"module\":{},\"name\":{},\"line\":{},\"derives\":{},\"serde\":{},\"fields\":{}}}",
                    esc(module),
                    esc(&s.ident.to_string()),
                    s.ident.span().start().line,
                    derives(&s.attrs),
                    metas(&s.attrs),
                    fields(&s.fields)
                ));
            }
            Item::Mod(m) if !has_cfg_test(&m.attrs) => {
                if let Some((_, its)) = &m.content {
                    items(its, &format!("{}::{}", module, m.ident), out);
                }
            }
            _ => {}
        }
    }
}

fn main() {
    let mut files = vec![];
    for path in std::env::args().skip(1) {
        let src = match std::fs::read_to_string(&path) {
            Ok(s) => s,
            Err(e) => {
                eprintln!("serdetab: cannot read {path}: {e}");
                std::process::exit(2);
            }
        };
        let file = match syn::parse_file(&src) {
            Ok(f) => f,
            Err(e) => {
                eprintln!("serdetab: cannot parse {path}: {e}");
                std::process::exit(2);
            }
        };
        let mut out = vec![];
        items(&file.items, "", &mut out);
        files.push(format!("{{\"file\":{},\"items\":[{}]}}", esc(&path), out.join(",")));
    }
    println!("[{}]", files.join(","));
}
