use syn::{Item, Fields, Meta, Expr, Lit};
use quote::ToTokens;
use syn::punctuated::Punctuated;
use syn::Token;

fn serde_metas(attrs: &[syn::Attribute]) -> Vec<(String, Option<String>)> {
    let mut out = vec![];
    for a in attrs { if a.path().is_ident("serde") {
        if let Ok(list) = a.parse_args_with(Punctuated::<Meta, Token![,]>::parse_terminated) {
            for m in list { match m {
                Meta::Path(p) => out.push((p.to_token_stream().to_string(), None)),
                Meta::NameValue(nv) => { let v = match &nv.value { Expr::Lit(l) => match &l.lit { Lit::Str(s) => s.value(), o => o.to_token_stream().to_string() }, o => o.to_token_stream().to_string() }; out.push((nv.path.to_token_stream().to_string(), Some(v))); }
                Meta::List(l) => out.push((l.path.to_token_stream().to_string(), Some(l.tokens.to_string()))),
            } }
        }
    } }
    out
}
fn snake(s: &str) -> String { let mut o = String::new(); for (i,c) in s.chars().enumerate() { if c.is_uppercase() { if i>0 { o.push('_'); } o.extend(c.to_lowercase()); } else { o.push(c); } } o }
fn main() {
    let path = std::env::args().nth(1).unwrap();
    let file = syn::parse_file(&std::fs::read_to_string(&path).unwrap()).unwrap();
    let envelope = ["id","session_id","stream_kind","stream_id","timestamp_ms","seq","type"];
    let mut problems = 0;
    for item in &file.items {
        match item {
            Item::Enum(e) if e.ident == "EventKind" => {
                let em = serde_metas(&e.attrs);
                println!("EventKind container: {:?}", em);
                let rename_all = em.iter().find(|m| m.0=="rename_all").and_then(|m| m.1.clone());
                assert_eq!(rename_all.as_deref(), Some("snake_case"));
                let mut tags: std::collections::BTreeMap<String, String> = Default::default();
                let (mut nv, mut nf) = (0, 0);
                for v in &e.variants {
                    nv += 1;
                    let vm = serde_metas(&v.attrs);
                    let tag = vm.iter().find(|m| m.0=="rename").and_then(|m| m.1.clone()).unwrap_or_else(|| snake(&v.ident.to_string()));
                    let mut names = vec![tag.clone()];
                    for m in &vm { if m.0=="alias" { names.push(m.1.clone().unwrap()); } }
                    for n in names { if let Some(prev) = tags.insert(n.clone(), v.ident.to_string()) { println!("PROBLEM duplicate tag {n}: {prev} vs {}", v.ident); problems += 1; } }
                    if let Fields::Named(named) = &v.fields { for f in &named.named {
                        nf += 1;
                        let fm = serde_metas(&f.attrs);
                        let fname = f.ident.as_ref().unwrap().to_string();
                        let wire = fm.iter().find(|m| m.0=="rename").and_then(|m| m.1.clone()).unwrap_or(fname.clone());
                        let ty = f.ty.to_token_stream().to_string();
                        let has_skip = fm.iter().any(|m| m.0=="skip_serializing_if");
                        let has_default = fm.iter().any(|m| m.0=="default");
                        if has_skip && !has_default && !ty.starts_with("Option") { println!("PROBLEM {}::{} skip_serializing_if without default on {}", v.ident, fname, ty); problems += 1; }
                        if envelope.contains(&wire.as_str()) { println!("PROBLEM {}::{} wire name collides with envelope", v.ident, fname); problems += 1; }
                        for m in &fm { if ["skip","skip_serializing","skip_deserializing","serialize_with","deserialize_with","with","flatten"].contains(&m.0.as_str()) { println!("NOTE {}::{} uses {}", v.ident, fname, m.0); } }
                    } }
                }
                println!("variants={nv} fields={nf} distinct wire tags+aliases={}", tags.len());
            }
            Item::Struct(st) if ["Event","EventWire","CompactionPlannedCutPoint","ContextSelectionCompactionCheckpointV1","ContextSelectionResetV1"].contains(&st.ident.to_string().as_str()) => {
                let derives: Vec<String> = st.attrs.iter().filter(|a| a.path().is_ident("derive")).map(|a| a.to_token_stream().to_string()).collect();
                println!("struct {} derives={:?} container={:?}", st.ident, derives, serde_metas(&st.attrs));
                for f in &st.fields { let fm = serde_metas(&f.attrs); if !fm.is_empty() { println!("   {} : {:?}", f.ident.as_ref().unwrap(), fm); } }
            }
            _ => {}
        }
    }
    println!("problems={problems}");
}
